"""C03 — every output format carries exactly the assembled memory image."""
import os, re, subprocess
import nvlib
import gen_image as G
import fileio_spec as S
from props import elf_mut

ID = "C03"
LEAN_MODULES = ["NakenVerif.Props.C03", "NakenVerif.Props.C03Elf", "NakenVerif.Props.C03Load"]
THEOREMS = [
    "NakenVerif.C03.hex_roundtrip",
    "NakenVerif.C03.hex_record_roundtrip",
    "NakenVerif.C03.hex_no_other_bytes",
    "NakenVerif.C03.srec_roundtrip",
    "NakenVerif.C03.srec_entry_roundtrip",
    "NakenVerif.C03.srec_24_uses_s3",
    "NakenVerif.C03.hex_read_write",
    "NakenVerif.C03.srec_read_write",
    "NakenVerif.C03.wdc_roundtrip",
    "NakenVerif.C03.wdc_read_write",
    "NakenVerif.C03.uf2_roundtrip",
    "NakenVerif.C03.uf2_carries_image",
    "NakenVerif.C03.uf2_ef_block_counterexample",
    "NakenVerif.C03.uf2_padding_counterexample",
    "NakenVerif.C03.bin_roundtrip",
    "NakenVerif.C03.filled_frame",
    "NakenVerif.C03.bin_read_write",
    "NakenVerif.C03.elf_write_decode",
    "NakenVerif.C03.elf_header_fields",
    "NakenVerif.C03.elf_load_segment",
    "NakenVerif.C03.elf_read_write",
    "NakenVerif.C03.elf_machine_roundtrip",
    "NakenVerif.C03.uf2_read_refines_spec",
    "NakenVerif.C03.uf2_read_write",
    "NakenVerif.C03.ti_txt_read_encode",
    "NakenVerif.C03.ti_txt_low_high",
    "NakenVerif.C03.amiga_roundtrip",
    "NakenVerif.FileIO.ElfProofs.decode_write",
    "NakenVerif.FileIO.ElfReadProofs.read_write",
    "NakenVerif.FileIO.chunks_flat",
    "NakenVerif.FileIO.chunks_good",
    "NakenVerif.FileIO.SrecSpec.parseRecord_recLine",
    "NakenVerif.FileIO.HexSpec.parseRecord_recLine",
]
RULE = ("images: 1..6 disjoint segments x gaps (1..4096, 64 KiB-sized) x lengths 1..40 not multiples of 16 (+16/32/48, "
        "long runs) x address classes (0, <2^16, across 64 KiB boundaries, <2^24, across 2^24, >2^24, across 2^31, "
        "just below 2^32, ending at a page end) x data styles (random, 00, ff, format characters, checksum-boundary sums) "
        "x one CPU per (endianness, bytes per address, srec size, alignment) class of cpu_list plus the CPUs special-cased "
        "by the ELF/Mach-O writers x entry point (none / inside / >0xffff) x exported symbols, for all 8 output types; ELF in addition: "
        "every CPU of cpu_list (both byte orders for the special-cased and ELF64 ones), 1500 symbols (two symbol pools), names of "
        "1..254 characters, the empty Memory; loaders: the written files plus field-aware ELF mutants, block-aware UF2 mutants, "
        "text mutants of TI-TXT / HEX / S-record files.  "
        "A case is non-trivial when the image has >= 2 segments or crosses a 64 KiB boundary or lies above 2^16; "
        "distinct = distinct (format, cells, entry, cpu).")
MODELLED = ("write_hex.cpp (write_hex, write_hex_line: 16-byte buffer, flush at 64 KiB boundaries, extended linear address records, "
            "checksums, exact fprintf text), write_srec.cpp (write_srec, write_srec_line incl. type selection by srec_size / address and "
            "the S2->S3 switch above 0xffffff, write_srec_header with the time stamp as a parameter, S9/S8/S7 termination record), "
            "write_bin.cpp, read_bin.cpp, write_wdc.cpp (65536-byte block buffer), read_wdc.cpp, write_uf2.cpp (0xEF block, 256-byte "
            "payload blocks, padding), read_hex.cpp and read_srec.cpp (character-level state machines incl. get_hex error values, "
            "int wrap-around, int64 start/end), write_elf.cpp (ELF32/ELF64 by CPU, EI_DATA by Memory::endian, the e_machine / e_flags / "
            "EI_OSABI / e_type switch, program header + padding to 4096 for images with an entry point, .text = [low, high], "
            "alignment padding, .ARM.attributes, the string table functions, .shstrtab / .strtab / .symtab / .comment, the "
            "section header table, the seek-back patch of e_shoff / e_shnum / e_shstrndx; symbols in Symbols::iterate order), "
            "read_elf.cpp (FileIo get_int16/32/64 incl. EOF = -1 and the uint32_t accumulator of get_int64_be, fseek failing on "
            "a negative offset, get_string_at_offset with char name[256], the .strtab search, the section loop with the "
            "EOF-bounded load and symbol loops, low/high arithmetic in 64 bits, the e_machine switch), read_uf2.cpp (read_block, magic "
            "numbers, the not-main-flash flag, the byte_count bound of e60359f, int address), read_ti_txt.cpp (the character state "
            "machine: @ / q / hex digits / blanks / CR, uint32_t value and address, start / end), write_amiga.cpp")
NOT_MODELLED = ("write_macho and read_amiga / read_macho have no Lean "
                "model: they are covered by the specification decoders of tools/fileio_spec.py applied to the real writers' output, "
                "by the real write->read round trip and by process-level runs only "
                "(differential + oracle level, not proof).  read_elf: fseek() to an offset above 2^40 (file-system dependent: ext4 "
                "answers EINVAL above 16 TiB) is outside the model; the mutation stream avoids such files.  Mach-O is generated for the CPU's default byte order only.  The WDC model's 64 KiB run is compared "
                "with the code in the thorough tier only (the model's buffer append is quadratic).")
ASSUMPTIONS = ["a cell whose debug marker is DL_EMPTY holds byte 0 (true for everything written through memory_write_inc / "
               "Memory::write; the two-argument AsmContext::memory_write used by asm/f100_l.cpp stores data without a marker, "
               "such bytes are invisible to hex/srec/wdc by design of the writers)",
               "signed int overflow in read_hex/read_srec (UB in C) wraps as the compiled code does; the reader model records that",
               "S-record files without a termination record are accepted by the specification decoder (naken_asm writes none "
               "when no .entry_point is given)"]
TRUSTED_BASE = ["tools/fileio_spec.py (independent Python decoders for the eight formats, used by the search)"]

FORMATS = ["hex", "srec", "bin", "wdc", "uf2", "elf", "amiga", "macho"]
FILLER = {"bin", "elf", "uf2", "amiga", "macho"}        # formats that describe one contiguous range
EXT = {"hex": "hex", "srec": "srec", "bin": "bin", "wdc": "wdc", "uf2": "uf2", "elf": "elf", "amiga": "out", "macho": "macho"}
MODEL_WR = {"hex", "srec", "bin", "wdc", "uf2", "elf", "amiga"}                # formats whose writer is modelled in Lean


def cpus_of(ctx):
    if "cpus" not in ctx.notes:
        allc = G.load_cpu_list(nvlib.LEAN)
        ctx.notes["cpus_all"] = allc
        ctx.notes["cpus"] = G.cpu_classes(allc)
    return ctx.notes["cpus"]


def gen_cases(ctx):
    """list of (fmt, img); deterministic in ctx.rng"""
    if "cases" in ctx.notes:
        return ctx.notes["cases"]
    rng, cpus = ctx.rng, cpus_of(ctx)
    cases = []
    per = {"hex": ctx.scale(260, 4000), "srec": ctx.scale(300, 5000), "bin": ctx.scale(60, 600),
           "wdc": ctx.scale(90, 1200), "uf2": ctx.scale(50, 500), "elf": ctx.scale(110, 1200),
           "amiga": ctx.scale(30, 300), "macho": ctx.scale(40, 300)}
    for fmt in FORMATS:
        pool = cpus
        if fmt == "amiga":
            pool = [c for c in cpus if c["name"] == "68000"] or cpus
        if fmt == "macho":
            pool = [c for c in cpus if c["name"] in ("arm", "arm64", "powerpc", "riscv")] or cpus
        for i in range(per[fmt]):
            small = fmt in FILLER
            max_span = (1 << 12) if small and i % 8 else (1 << 16) if small else (1 << 20)
            klass = G.BASE_KLASSES[i % len(G.BASE_KLASSES)]
            img = G.gen_image(rng, pool, klass=klass, max_span=max_span, long_runs=not small or i % 3 == 0)
            if fmt == "macho":
                img["endian"] = None        # Mach-O is written for the CPU's own byte order only
            if fmt == "amiga" and i % 2 == 0:
                # 68000 programs are a multiple of 2 bytes; also exercise multiples of 4
                a, d = img["segs"][-1]
                lo, hi = G.low_high(img)
                pad = (-(hi - lo + 1)) % 4
                img["segs"][-1] = (a, d + bytes(rng.randrange(256) for _ in range(pad)))
            cases.append((fmt, img))
    # hand-made boundary images (all formats that carry addresses)
    hand = []

    def H(segs, entry=None, cpu="msp430", endian=None, syms=()):
        info = next(c for c in ctx.notes["cpus_all"] if c["name"] == cpu)
        return {"segs": segs, "entry": entry, "endian": endian, "cpu": cpu, "cpuinfo": info, "syms": list(syms), "klass": "hand"}
    r16 = bytes(range(1, 17))
    hand += [H([(0, b"\x01")]), H([(0xffff, b"\xaa")]), H([(0xfff0, r16)]), H([(0xfff1, r16)]), H([(0xfff8, r16 + r16)]),
             H([(0x10000, r16)]), H([(0xffff, b"\x01\x02")]), H([(0xfffff, b"\x01\x02\x03")]),
             H([(0xffffff, b"\x01\x02")], cpu="msp430x"), H([(0x1000000, b"\x07")], cpu="msp430x"),
             H([(0x12345, b"\x01\x02\x03")]), H([(0x12345, b"\x01\x02\x03")], cpu="msp430x"),
             H([(0x12345, b"\x01\x02\x03")], cpu="68000"), H([(0x7ffffff0, r16 + r16)], cpu="mips"),
             H([(0x100, b"\x01"), (0x80000000, b"\x02")], cpu="arm") if not ctx.quick() else H([(0x80000000, b"\x02")], cpu="arm"),
             H([(0xfffffff0, bytes(range(15)))], cpu="riscv"), H([(0x1fffe, b"\x01\x02\x03\x04")], entry=0x1fffe),
             H([(0x10, b"\x01\x02")], entry=0x10, syms=[("start", 0x10, True), ("local", 0x11, False)]),
             H([(0x8000, b"\x01\x02\x03\x04")], entry=0x8000, cpu="avr8", syms=[("main", 0x4000, True)]),
             H([(0x8000, b"\x01\x02\x03\x04\x05")], entry=0x8002, cpu="arm64", syms=[("main", 0x8000, True)]),
             H([(0x8000, b"\x01\x02\x03\x04\x05")], cpu="riscv64", syms=[("main", 0x8000, True)]),
             H([(0, bytes(255)), (0x200, b"\x00")]), H([(0x40, bytes([0xff] * 33))])]
    for img in hand:
        lo_, hi_ = G.low_high(img)
        for fmt in ("hex", "srec", "bin", "wdc", "uf2", "elf"):
            if hi_ - lo_ >= (1 << 22) and fmt in FILLER:
                continue          # those files are as large as the span
            cases.append((fmt, img))
    # ELF: every CPU of cpu_list once (the e_machine / e_flags / EI_CLASS / EI_OSABI switch of write_elf_header), in both byte
    # orders for the ELF64 and the special-cased CPUs; many symbols (more than one 32 KiB symbol pool), long names, no symbols
    for k, info in enumerate(ctx.notes["cpus_all"]):
        d = G.data_bytes(rng, rng.choice([1, 2, 3, 4, 5, 7, 8, 9, 33]))
        seg = [(rng.choice([0, 0x100, 0xfffe, 0x12345, 0x7ffffffd, 0x80000000, 0xffffffff - len(d) - k % 3]), d)]      # high <= 0xfffffffe
        ends = ["b", "l"] if info["name"] in ("arm", "arm64", "riscv", "riscv64", "ebpf", "mips", "powerpc", "cell", "ps2_ee", "avr8", "msp430") else [rng.choice([None, "b", "l"])]
        for e in ends:
            img = H(seg, cpu=info["name"], endian=e, entry=rng.choice([None, seg[0][0], 0, 0xfffffffe]),
                    syms=[("s%d" % j, rng.randrange(1 << 32), rng.random() < 0.7) for j in range(rng.choice([0, 1, 2, 5]))])
            img["klass"] = "elf-cpu"
            cases.append(("elf", img))
    many = [("sym_%04d_%s" % (j, "x" * (j % 23)), (j * 0x01010101) & 0xffffffff, j % 3 != 0) for j in range(ctx.scale(1500, 4000))]
    longn = [("L" * n, 0x1000 + n, True) for n in (1, 2, 126, 127, 128, 129, 200, 253, 254)]
    for cpu, e, sy in (("arm", "b", many), ("riscv64", None, many), ("msp430", None, longn), ("arm64", "b", longn), ("ebpf", "l", longn)):
        img = H([(0x8000, G.data_bytes(rng, 37))], cpu=cpu, endian=e, entry=0x8000, syms=sy)
        img["klass"] = "elf-syms"
        cases.append(("elf", img))
    # one long contiguous run (> 64 KiB) : the 65536-byte block buffer of the WDC writer, 4096 hex records
    long_img = H([(0x1fff0, G.data_bytes(rng, 65536 + 40, "rand"))], cpu="65816")
    for fmt in ("wdc", "hex", "srec"):
        cases.append((fmt, long_img))
    # wide spans (record formats only; the real writers probe every address of [low, high])
    for sp in ([1 << 24, 1 << 26] if ctx.quick() else [1 << 24, 1 << 26, 1 << 28, 1 << 30, 0xfff00000]):
        base = min(rng.choice([0, 0x1234, 0x400000]), 0xfffffff0 - sp)
        img = H([(base, G.data_bytes(rng, 21)), (base + sp - 50, G.data_bytes(rng, 35))], cpu=rng.choice(["arm", "msp430"]))
        img["klass"] = "wide"
        cases.append(("hex", img))
        cases.append(("srec", img))
    ctx.notes["cases"] = cases
    return cases


def expected_cells(img):
    return G.cells_of(img)


def srec_full(w):
    return w["s0"] + w["file"]


def judge_write(fmt, img, w, stats):
    """property oracle for one written file; returns list of (sig, expected, observed, what)"""
    out = []
    cells = expected_cells(img)
    low, high = G.low_high(img)
    tag = "%s cpu=%s low=%x high=%x segs=%d" % (fmt, img["cpu"], low, high, len(img["segs"]))
    data = srec_full(w) if fmt == "srec" else w["file"]
    entry = img["entry"] if img["entry"] != 0xffffffff else None
    s9_broken = False
    if fmt == "srec" and entry is not None and entry > 0xffff:
        # root cause classification: the termination record is printed as "S903%04x%02x" whatever the entry point is
        last = data.rstrip(b"\n").split(b"\n")[-1]
        if re.fullmatch(rb"S903[0-9a-f]{5,8}[0-9a-f]{2}", last) and int(last[4:-2], 16) == entry:
            out.append(("C03:srec:s9-entry-above-16-bits:%s" % tag, "S8/S7 record (or a 16-bit entry point)", last.decode(),
                        "termination record S9 has byte count 3 but carries a %d-digit address" % (len(last) - 6)))
            data = data[:len(data) - len(last) - 1]
            s9_broken = True
    if (w["low"], w["high"]) != (low, high):
        out.append(("C03:%s:lowhigh:%s" % (fmt, tag), "%x..%x" % (low, high), "%x..%x" % (w["low"], w["high"]), "Memory low/high differ from the cells written"))
        return out
    try:
        if fmt == "hex":
            dec, meta = S.decode_ihex(data)
        elif fmt == "srec":
            dec, meta = S.decode_srec(data)
        elif fmt == "bin":
            dec, meta = S.decode_bin(data, low)
        elif fmt == "wdc":
            dec, meta = S.decode_wdc(data)
        elif fmt == "uf2":
            dec, meta = S.decode_uf2(data)
        elif fmt == "elf":
            dec, meta = S.decode_elf(data)
        elif fmt == "amiga":
            dec, meta = S.decode_amiga(data)
            dec = [(a + low, v) for a, v in dec]
        elif fmt == "macho":
            dec, meta = S.decode_macho(data)
            dec = [(a + low, v) for a, v in dec]
    except S.FormatError as e:
        what = re.sub(r"line \d+: ", "", str(e))
        kind = re.sub(r"[^a-z]+", "-", what.lower())[:40].strip("-")
        if fmt == "amiga" and (high - low + 1) % 4 and "HUNK_END" in what:
            kind = "length-not-multiple-of-4"
        if fmt == "elf" and img["cpu"] == "avr8" and "section header table (7 entries" in what:
            kind = "avr8-shnum-7-but-6-headers"
        out.append(("C03:%s:malformed:%s:%s" % (fmt, kind, tag), "a well-formed %s file" % fmt, str(e), "the written file does not decode per the format specification"))
        return out
    except Exception as e:      # struct.error etc.
        out.append(("C03:%s:malformed:decoder-exception:%s" % (fmt, tag), "a well-formed file", repr(e), "decoder failed"))
        return out

    if fmt == "wdc" and high >= (1 << 24):
        stats["format_limit_skipped"] = stats.get("format_limit_skipped", 0) + 1
        return out        # the format has 24-bit addresses; nothing is demanded above them
    if fmt == "srec" and img["cpuinfo"]["srec"] == 1 and high >= (1 << 24):
        # root cause classification: SREC_24 CPUs force S2 records and mask the address to 24 bits
        want = [(a & 0xffffff, v) for a, v in sorted(cells.items())]
        if sorted(dec) == sorted(want) and all(t != 3 for t, _, _ in meta["records"]):
            out.append(("C03:srec:s2-address-truncated:%s" % tag, "S3 records for addresses >= 2^24", "S2 records with the address masked to 24 bits",
                        "bytes above 2^24 are carried at the wrong address"))
            return out
    if fmt == "wdc":
        # root cause classification: the byte that arrives when the 65536-byte block buffer is full is dropped
        dropped = []
        for a0, d in img["segs"]:
            dropped += [a0 + k for k in range(65536, len(d), 65537)]
        if dropped and sorted(set(cells) - set(a for a, _ in dec)) == dropped:
            out.append(("C03:wdc:block-65536-byte-dropped:%s" % tag, "byte at %x" % dropped[0], "absent",
                        "a run longer than 65536 bytes loses the byte at which the block buffer is flushed"))
            for a in dropped:
                del cells[a]
    got = {}
    dup = False
    for a, v in dec:
        if a in got:
            dup = True
        got[a] = v
    if dup and fmt not in FILLER:
        out.append(("C03:%s:duplicate-address:%s" % (fmt, tag), "each address once", "repeated", "an address is carried twice"))
    inside_bad, outside = [], []
    for a, v in got.items():
        if low <= a <= high:
            if a in cells:
                if cells[a] != v:
                    inside_bad.append((a, cells[a], v))
            elif fmt in FILLER:
                if v != 0:
                    inside_bad.append((a, 0, v))
            else:
                outside.append((a, v))
        else:
            outside.append((a, v))
    missing = [a for a in cells if a not in got]
    if fmt in FILLER:
        missing += [a for a in range(low, high + 1) if a not in got and a not in cells][:3]
    if inside_bad:
        a, e, v = inside_bad[0]
        out.append(("C03:%s:wrong-byte:%s" % (fmt, tag), "%02x at %x" % (e, a), "%02x" % v, "%d bytes differ" % len(inside_bad)))
    if missing:
        out.append(("C03:%s:missing-byte:%s" % (fmt, tag), "byte at %x" % min(missing), "absent", "%d assembled bytes are not in the file" % len(missing)))
    if fmt == "amiga" and outside and len(outside) <= 3 and all(a > high and v == 0 for a, v in outside) \
            and (high - low + 1 + len(outside)) % 4 == 0:
        outside = []          # hunk sizes are whole longwords: zero padding to the next longword is the format's own
    if outside:
        outside.sort()
        if fmt == "uf2":
            ef = [a for a, v in outside if 0x10ffff00 <= a < 0x10ffff00 + 256]
            rest = [(a, v) for a, v in outside if not (0x10ffff00 <= a < 0x10ffff00 + 256)]
            if ef:
                out.append(("C03:uf2:other-bytes:extra-block addr=0x10ffff00:%s" % tag, "no bytes outside [low, high]",
                            "%d bytes at 0x10ffff00 (value %02x)" % (len(ef), dict(outside)[ef[0]]), "extra program bytes"))
            if rest:
                cls = "pad-after-high" if all(0 < ((a - high) & 0xffffffff) < 256 and v == 0 for a, v in rest) else "stray"
                out.append(("C03:uf2:other-bytes:%s:%s" % (cls, tag), "no bytes outside [low, high]",
                            "%d bytes from %x" % (len(rest), rest[0][0]), "extra program bytes"))
        elif fmt == "elf" and all(a > high and v == 0 for a, v in outside) and len(outside) < img["cpuinfo"]["align"]:
            out.append(("C03:elf:other-bytes:align-pad:%s" % tag, "no bytes outside [low, high]",
                        "%d zero bytes after high (section padded to alignment %d)" % (len(outside), img["cpuinfo"]["align"]), "extra program bytes"))
        else:
            out.append(("C03:%s:other-bytes:stray:%s" % (fmt, tag), "no bytes outside the written cells",
                        "%d bytes, first at %x" % (len(outside), outside[0][0]), "extra program bytes"))
    # entry point and symbols
    exported = [(n, a) for n, a, e in img["syms"] if e]
    if fmt == "srec":
        if meta["header"] is None:
            out.append(("C03:srec:no-header:%s" % tag, "S0 record", "none", "header record missing"))
        if entry is not None and not s9_broken:
            if meta["entry"] != img["entry"]:
                out.append(("C03:srec:entry:%s" % tag, "%x" % img["entry"], str(meta["entry"]), "termination record does not carry the entry point"))
            else:
                stats["entry_ok"] = stats.get("entry_ok", 0) + 1
    if fmt == "elf":
        for p in meta["problems"]:
            kind = re.sub(r"[^a-z_]+", "-", p.lower().split("=")[0])[:30]
            out.append(("C03:elf:header-field:%s:%s" % (kind, tag), "valid header lengths", p, "ELF header field invalid"))
        if img["entry"] is not None and img["entry"] != 0xffffffff:
            if meta["entry"] != img["entry"]:
                out.append(("C03:elf:entry:%s" % tag, "%x" % img["entry"], "%x" % meta["entry"], "e_entry differs from the entry point"))
            else:
                stats["entry_ok"] = stats.get("entry_ok", 0) + 1
            loads = [p for p in meta["phdrs"] if p["type"] == 1]
            text = [s for s in meta["sections"] if s["sname"] == ".text"]
            if loads and text and not meta["problems"]:
                p = loads[0]
                if p["vaddr"] != low or p["offset"] != text[0]["offset"] or p["filesz"] != high - low + 1:
                    out.append(("C03:elf:phdr:%s" % tag, "PT_LOAD = .text", str(p), "program header does not describe the image"))
    if fmt in ("elf", "macho"):
        have = {}
        for s in meta["symbols"]:
            have.setdefault(s["name"], []).append(s["value"])
        for n, a in exported:
            if a not in have.get(n, []):
                out.append(("C03:%s:symbol:%s:%s" % (fmt, n, tag), "%s=%x" % (n, a), str(have.get(n)), "exported symbol missing or wrong value"))
            else:
                stats["symbols_ok"] = stats.get("symbols_ok", 0) + 1
        for n, a, e in img["syms"]:
            if not e and n in have and fmt == "elf":
                out.append(("C03:elf:symbol-not-exported:%s:%s" % (n, tag), "absent", "present", "non-exported symbol in symtab"))
    return out


def rd_line_for(fmt, img, w):
    low, _ = G.low_high(img)
    data = srec_full(w) if fmt == "srec" else w["file"]
    if len(data) > (3 << 20):
        return None
    line = "rd %s %s %s" % ("bin" if fmt == "bin" else "auto", EXT[fmt], nvlib.hexs(data))
    if fmt == "bin":
        line += " %x" % low      # naken_util -bin -address <low>
    return line


def judge_read(fmt, img, r, stats, wfails=()):
    out = []
    for cls in ("s2-address-truncated", "block-65536-byte-dropped"):
        if any((":%s:" % cls) in f[0] for f in wfails):
            return out          # same root cause as the write-side failure already recorded
    cells = expected_cells(img)
    low, high = G.low_high(img)
    tag = "%s cpu=%s low=%x high=%x segs=%d" % (fmt, img["cpu"], low, high, len(img["segs"]))
    if fmt == "wdc" and high >= (1 << 24):
        return out
    shift = low if fmt in ("amiga", "macho") else 0
    if r is None:
        return [("C03:%s:read-crash:%s" % (fmt, tag), "image", "reader died", "reader crashed")]
    want_big = img["endian"] == "b" if img["endian"] else img["cpuinfo"]["big"]
    if r["type"] != {"amiga": "amiga", "macho": "macho"}.get(fmt, fmt):
        cls = "big-endian-magic" if fmt == "macho" and want_big else "other"
        out.append(("C03:%s:read-type:%s:%s" % (fmt, cls, tag), fmt, r["type"], "file type not recognised by naken_util"))
        return out
    if r["ret"] != 0:
        cls = "addr>=2^31" if low >= 0x80000000 and fmt in ("elf", "bin", "macho") else "error"
        out.append(("C03:%s:read-rejected:%s:%s" % (fmt, cls, tag), "ret=0", "ret=%d" % r["ret"], "naken_util's loader rejects the file naken_asm wrote"))
        return out
    exp = {a - shift: v for a, v in cells.items() if v}
    got = dict(r["nz"])
    extra = {a: v for a, v in got.items() if a not in exp}
    miss = {a: v for a, v in exp.items() if got.get(a) != v}
    if fmt == "uf2":
        ef = {a: v for a, v in extra.items() if 0x10ffff00 <= a < 0x10ffff00 + 256}
        if ef:
            out.append(("C03:uf2:read-other-bytes:extra-block addr=0x10ffff00:%s" % tag, "image", "%d extra bytes" % len(ef), "round trip adds bytes"))
            for a in ef:
                del extra[a]
    if miss:
        a = min(miss)
        out.append(("C03:%s:read-wrong-byte:%s" % (fmt, tag), "%02x at %x" % (miss[a], a), "%02x" % got.get(a, 0), "%d bytes differ after write->read" % len(miss)))
    if extra:
        a = min(extra)
        out.append(("C03:%s:read-other-bytes:%s" % (fmt, tag), "nothing at %x" % a, "%02x" % extra[a], "%d extra bytes after write->read" % len(extra)))
    elow, ehigh = low - shift, high - shift
    if (r["low"], r["high"]) != (elow, ehigh):
        if fmt == "uf2" and (r["high"] == 0x10ffffff or r["low"] == 0x10ffff00):
            cls = "extra-block addr=0x10ffff00"
        elif fmt == "uf2" and high + 256 > 0xffffffff:
            cls = "pad-after-high"
        elif fmt in ("hex", "srec") and high >= 0x7fffffff and low < 0x80000000:      # address + count reaches 2^31 in an int
            cls = "signed-compare-across-2^31"
        elif fmt in ("elf", "uf2", "macho") and r["low"] == elow and 0 < ((r["high"] - ehigh) & 0xffffffff) < max(256, img["cpuinfo"]["align"]):
            cls = "pad-after-high"
        elif fmt == "amiga" and r["low"] == elow and r["high"] == ehigh + (-(ehigh + 1)) % 4:
            cls = None
        elif fmt == "amiga" and r["low"] == elow and r["high"] == ehigh - (ehigh + 1) % 4:
            cls = "length-truncated-to-longwords"
        else:
            cls = "other"
        if cls is not None:
            out.append(("C03:%s:read-lowhigh:%s:%s" % (fmt, cls, tag), "%x..%x" % (elow, ehigh), "%x..%x" % (r["low"], r["high"]), "loaded range differs from the assembled range"))
    if fmt == "elf":
        for n, a, e in img["syms"]:
            if e and a not in r["syms"].get(n, []):
                out.append(("C03:elf:read-symbol:%s:%s" % (n, tag), "%s=%x" % (n, a), str(r["syms"].get(n)), "exported symbol not loaded back"))
    return out


def add(orc, fails, fmt, img, line):
    for sig, exp, obs, what in fails:
        orc["failures"].append({"sig": sig, "input": line[:2000], "expected": exp, "observed": obs[:400], "what": what,
                                "replay_line": line if len(line) < 200000 else line[:200000]})


def model_exe(ctx):
    """the Lean driver behind a wrapper that raises the stack limit: the model's loops are plain structural
    recursion over the cell list of [low, high] (that is what the theorems are about), not tail calls"""
    w = os.path.join(ctx.tmpdir(), "nvdriver_bigstack.sh")
    if not os.path.exists(w):
        with open(w, "w") as f:
            f.write("#!/bin/bash\nulimit -s 4000000 2>/dev/null || ulimit -s unlimited 2>/dev/null\nexec %s\n" % ctx.driver)
        os.chmod(w, 0o755)
    return w


MODEL_SPAN = 1 << 20


def run_wr_impl(ctx, cases, lines):
    """the real writers on every case; images that span a large part of the address space get a shard and a time limit
    of their own (the writers probe every address of [low, high]: minutes under ASan on a loaded machine)"""
    wide = [i for i, (fmt, img) in enumerate(cases) if G.low_high(img)[1] - G.low_high(img)[0] >= (1 << 27)]
    ws = set(wide)
    rest = [i for i in range(len(cases)) if i not in ws]
    out = [None] * len(cases)
    for i, a in zip(rest, nvlib.run_lines(ctx.harness, [lines[i] for i in rest], timeout=300)):
        out[i] = a
    if wide:
        for i, a in zip(wide, nvlib.run_lines(ctx.harness, [lines[i] for i in wide], timeout=2400, shards=len(wide))):
            out[i] = a
    return out


def correspondence(ctx, corr):
    cases = gen_cases(ctx)
    lines = [G.wr_line(fmt, img) for fmt, img in cases]
    cp = os.path.join(nvlib.VERIF, "corpus", ID, "lines.txt")
    corpus = [l.strip() for l in open(cp) if l.strip() and not l.startswith("#")] if os.path.exists(cp) else []
    impl = run_wr_impl(ctx, cases, lines)
    ctx.notes["wr_impl"] = impl
    exe = model_exe(ctx)
    # --- writers: file bytes exact (the S0 time stamp record is compared in its own stream) -------------
    sel = [i for i, (fmt, img) in enumerate(cases) if fmt in MODEL_WR and G.low_high(img)[1] - G.low_high(img)[0] < MODEL_SPAN
           # the WDC model appends to its block buffer with `buf ++ [b]` (quadratic): the 64 KiB run costs ~18 s, thorough only
           and not (ctx.quick() and fmt == "wdc" and max(len(d) for _, d in img["segs"]) > 20000)]
    # the empty Memory (low = 0xffffffff, high = 0): ELF is the one writer with arithmetic on high - low + 1 outside a loop
    extras = ["wr elf %s %s - %s %s" % (c, e, en, sy) for c, e, en, sy in (("msp430", "-", "-", "-"), ("arm", "b", "-", "a=1!,b=2"),
              ("riscv64", "-", "100", "main=100!"), ("ps2_ee", "-", "0", "-"), ("avr8", "l", "-", "x=ffffffff!"))]
    wl = corpus + extras + [lines[i] for i in sel]
    wi = nvlib.run_lines(ctx.harness, corpus + extras, timeout=120) + [impl[i] for i in sel]
    wm = nvlib.run_lines(exe, wl, env=dict(os.environ), timeout=600)
    kinds = {}
    for l, a, b in zip(wl, wi, wm):
        a2 = re.sub(r" s0=[0-9a-f-]+ ", " s0=- ", a)
        k = l.split(" ")[1]
        kinds[k] = kinds.get(k, 0) + 1
        corr["cases"] += 1
        if a2 != b:
            corr["disagreements"].append({"line": l[:3000], "impl": a2[:3000], "model": b[:3000]})
    corr["streams"]["wr"] = {"lines": len(wl), "by_format": kinds, "corpus": len(corpus)}
    # --- S0 header: the model rendering of the observed 7 time stamp bytes must be the observed line ----
    s0 = sorted(set(G.parse_wr(a)["s0"] for a in impl if a.startswith("ok ") and " s0=53" in a))[:50]
    s0l = []
    for line in s0:
        t = line.decode("latin-1").strip()
        s0l.append(("s0 " + t[8:-2].lower(), line.hex()))
    for (l, want), got in zip(s0l, nvlib.run_lines(exe, [l for l, _ in s0l], env=dict(os.environ))):
        corr["cases"] += 1
        if got != want:
            corr["disagreements"].append({"line": l, "impl": want, "model": got})
    corr["streams"]["srec-header"] = {"lines": len(s0l)}
    # --- readers: the real files and mutated files through read_hex / read_srec / read_bin ---------------
    rng = ctx.rng
    rl = []
    for i in sel:
        fmt, img = cases[i]
        w = G.parse_wr(impl[i])
        if w is None:
            continue
        data = srec_full(w) if fmt == "srec" else w["file"]
        if len(data) > 60000:
            continue
        low = G.low_high(img)[0]
        extra = " %x" % low if fmt == "bin" else ""
        rl.append("rd %s %s %s%s" % (fmt, EXT[fmt], nvlib.hexs(data), extra))
        if fmt in ("uf2", "elf", "amiga"):
            rl.pop()          # read_uf2 / read_elf: own streams below; read_amiga is not modelled
            continue
        if fmt == "wdc":
            for _ in range(2):      # truncations and header damage
                b = bytearray(data)
                pos = rng.randrange(len(b))
                if rng.random() < 0.6:
                    b = b[:pos]
                else:
                    b[pos] = rng.randrange(256)
                if len(b) < 40000:
                    rl.append("rd wdc wdc %s" % nvlib.hexs(bytes(b)))
            continue
        if fmt == "bin" or not data:
            continue
        for _ in range(2):
            b = bytearray(data)
            k = rng.randrange(9)
            pos = rng.randrange(len(b))
            if k == 0:
                b[pos] = rng.choice(b"0123456789ABCDEFabcdef:S\n\r gZ")
            elif k == 1:
                b = b[:pos]
            elif k == 2:
                b = b[:pos] + b"\n" + b[pos:]
            elif k == 3:
                b = bytearray(bytes(b).lower())
            elif k == 4:
                b = bytearray(bytes(b).replace(b"\n", b"\r\n"))
            elif k == 5:
                b = b[:pos] + bytes(rng.choice(b"0123456789ABCDEF") for _ in range(rng.randrange(1, 5))) + b[pos:]
            elif k == 6:
                b = bytearray(b"junk line\n\n") + b
            elif k == 7 and fmt == "hex":
                b = bytearray(b":020000021000EC\n") + b        # extended segment address record
            else:
                del b[pos:pos + rng.randrange(1, 4)]
            rl.append("rd %s %s %s" % (fmt, EXT[fmt], nvlib.hexs(bytes(b))))
    rl += ["rd hex hex " + nvlib.hexs(x) for x in (b":00000001FF", b":0400000300001234B3\n:00000001FF\n", b":04000005000000CD2A\n",
                                                     b":FF", b":", b"::::\n", b":0100000G00FF\n", b":10", b":0200000480007A\n:0100000055AA\n:00000001FF\n",
                                                     b":02000004FFFFFC\n:02FFFE001122CE\n:00000001FF\n")]
    rl += ["rd srec srec " + nvlib.hexs(x) for x in (b"S", b"S1", b"S9030000FC\n", b"S30600000000AA4F\n", b"S306FFFFFFFF0100\n", b"S5030001FB\n",
                                                       b"\nS1040010AA41\nS1040011BB2F\n", b"SX\nS1040010AA41\n", b"S104001\n", b"S1020010ED\n")]
    ri = nvlib.run_lines(ctx.harness, rl, timeout=120)
    rm = nvlib.run_lines(exe, rl, env=dict(os.environ), timeout=600)
    rk = {}
    for l, a, b in zip(rl, ri, rm):
        corr["cases"] += 1
        k = l.split(" ")[1] + ":" + a.split(" ")[0]
        rk[k] = rk.get(k, 0) + 1
        if a != b:
            corr["disagreements"].append({"line": l[:3000], "impl": a[:3000], "model": b[:3000]})
    corr["streams"]["rd"] = {"lines": len(rl), "by_format_and_status": rk}
    # --- read_elf: the real files and field-aware mutants (header, section header table, symbol table, truncation);
    # elf_mut avoids the one thing outside the model: fseek() to offsets above 2^40 (file-system dependent)
    el = []
    for i in sel:
        fmt, img = cases[i]
        if fmt != "elf":
            continue
        w = G.parse_wr(impl[i])
        if w is None or len(w["file"]) > 70000:
            continue
        el.append("rd elf elf %s" % nvlib.hexs(w["file"]))
        if len(w["file"]) < 20000:
            for m in elf_mut.mutants(rng, w["file"], 2):
                el.append("rd elf elf %s" % nvlib.hexs(m))
    em = nvlib.run_lines(exe, el, env=dict(os.environ), timeout=600)
    keep = list(range(len(el)))
    ei = nvlib.run_lines(ctx.harness, el, timeout=120)
    ek = {}
    for k, a in zip(keep, ei):
        corr["cases"] += 1
        st = a.split(" ")[0]
        ek[st] = ek.get(st, 0) + 1
        if a != em[k]:
            corr["disagreements"].append({"line": el[k][:3000], "impl": a[:3000], "model": em[k][:3000]})
    corr["streams"]["rd-elf"] = {"lines": len(el), "by_status": ek}
    rl = rl + [el[k] for k in keep]
    # --- read_uf2: the real files and block-aware mutants (flags, byte_count incl. 476/477, magics, address wrap, truncation)
    ul = []
    for i in sel:
        fmt, img = cases[i]
        if fmt != "uf2":
            continue
        w = G.parse_wr(impl[i])
        if w is None or len(w["file"]) > 70000:
            continue
        data = w["file"]
        ul.append("rd uf2 uf2 %s" % nvlib.hexs(data))
        nblk = len(data) // 512
        for _ in range(3):
            b = bytearray(data)
            k = rng.randrange(8)
            blk = rng.randrange(max(1, nblk)) * 512
            if k == 0:
                b = b[:rng.randrange(len(b) + 1)]
            elif k == 1 and nblk:
                b[blk + 8] ^= rng.choice([1, 1, 2, 0x20])                 # flags (bit 0: not main flash)
            elif k == 2 and nblk:
                b[blk + 16:blk + 20] = rng.choice([0, 1, 255, 256, 257, 475, 476, 477, 512, 0xffffffff]).to_bytes(4, "little")
            elif k == 3 and nblk:
                b[blk + rng.choice([0, 1, 4, 7, 508, 511])] ^= rng.choice([1, 0x80])       # a magic number
            elif k == 4 and nblk:
                b[blk + 12:blk + 16] = rng.choice([0, 0xffffff80, 0xffffffff, 0x7fffffff, 0x80000000]).to_bytes(4, "little")
            elif k == 5:
                b += bytes(rng.randrange(256) for _ in range(rng.choice([1, 4, 32, 100, 511])))
            elif k == 6 and nblk:
                del b[blk:blk + 512]
            else:
                b = b + b[:512]
            ul.append("rd uf2 uf2 %s" % nvlib.hexs(bytes(b)))
    ul += ["rd uf2 uf2 " + nvlib.hexs(x) for x in (b"", b"UF2\n", b"UF2\nWQ]\x9e" + bytes(24))]
    ui = nvlib.run_lines(ctx.harness, ul, timeout=120)
    um = nvlib.run_lines(exe, ul, env=dict(os.environ), timeout=600)
    uk = {}
    for l, a, b in zip(ul, ui, um):
        corr["cases"] += 1
        st = a.split(" ")[0]
        uk[st] = uk.get(st, 0) + 1
        if a != b:
            corr["disagreements"].append({"line": l[:3000], "impl": a[:3000], "model": b[:3000]})
    corr["streams"]["rd-uf2"] = {"lines": len(ul), "by_status": uk}
    # --- read_ti_txt: TI-TXT files encoded from the images (tools/fileio_spec.py, SLAU101) and text mutants
    tl = []
    timgs = [img for f, img in cases if f == "hex" and img["klass"] != "wide"][:ctx.scale(60, 600)]
    for img in timgs:
        data = S.encode_ti_txt(expected_cells(img))
        if len(data) > 60000:
            continue
        tl.append("rd ti_txt txt %s" % nvlib.hexs(data))
        for _ in range(2):
            b = bytearray(data)
            k = rng.randrange(10)
            pos = rng.randrange(len(b))
            if k == 0:
                b = bytearray(bytes(b).lower())
            elif k == 1:
                b = bytearray(bytes(b).replace(b"\n", b"\r\n"))
            elif k == 2:
                b = b[:pos]
            elif k == 3:
                b = b[:pos] + rng.choice([b" ", b"\n", b"  \n\n", b"\r", b"q", b"@", b"g", b"\t", b"0", b"F", b"@1", b"x"]) + b[pos:]
            elif k == 4:
                b = bytearray(bytes(b).replace(b"q\n", b""))
            elif k == 5:
                b = bytearray(b"@%X\n" % rng.choice([0, 1, 0xfffe, 0x12345, 0xfffffffe, 0xffffffff, 0x100000000, 0x123456789])) + b"AA BB \n" + b
            elif k == 6:
                del b[pos:pos + rng.randrange(1, 4)]
            elif k == 7:
                b[pos] = rng.choice(b"0123456789ABCDEFabcdefq@ \n\rxyzG:")
            elif k == 8:
                b = bytearray(bytes(b).replace(b" ", b"  ", 3))
            else:
                b = b + b"@FFFF\n12 345 6\nq"
            tl.append("rd ti_txt txt %s" % nvlib.hexs(bytes(b)))
    tl += ["rd ti_txt txt " + nvlib.hexs(x) for x in (b"", b"q", b"@", b"@10", b"@10\n1", b"@10\nAB", b"@10\nAB\nq\n", b"12 34", b"@ffffffff\n01 02 03\nq\n",
                                                        b"@1\n@2\n55\nq", b"\n\n\n@8000\n\n01\n", b"@8000 01 02q03", b"@80 00\n", b"@8000\n1 2 3 100 1ff\nq\n")]
    ti = nvlib.run_lines(ctx.harness, tl, timeout=120)
    tm = nvlib.run_lines(exe, tl, env=dict(os.environ), timeout=600)
    tk = {}
    for l, a, b in zip(tl, ti, tm):
        corr["cases"] += 1
        st = a.split(" ")[0]
        tk[st] = tk.get(st, 0) + 1
        if a != b:
            corr["disagreements"].append({"line": l[:3000], "impl": a[:3000], "model": b[:3000]})
    corr["streams"]["rd-ti_txt"] = {"lines": len(tl), "by_status": tk}
    rl = rl + ul + tl
    corr["distinct_nontrivial"] = len(set(l for l in wl if ";" in l)) + len(set(rl))
    corr["samples"] = [{"line": wl[i][:200], "impl": wi[i][:200], "model": wm[i][:200]} for i in range(0, len(wl), max(1, len(wl) // 4))][:4]


def oracle(ctx, orc, focus=None):
    cases = gen_cases(ctx)
    stats = {"by_format": {}, "by_class": {}}
    lines = [G.wr_line(fmt, img) for fmt, img in cases]
    if "wr_impl" in ctx.notes:
        ans = ctx.notes["wr_impl"]
    else:
        ans = run_wr_impl(ctx, cases, lines)
    rd_lines, rd_idx, wf = [], [], {}
    for i, ((fmt, img), line, a) in enumerate(zip(cases, lines, ans)):
        orc["cases"] += 1
        stats["by_format"][fmt] = stats["by_format"].get(fmt, 0) + 1
        stats["by_class"][img["klass"]] = stats["by_class"].get(img["klass"], 0) + 1
        w = G.parse_wr(a)
        low, high = G.low_high(img)
        tag = "%s cpu=%s low=%x high=%x segs=%d" % (fmt, img["cpu"], low, high, len(img["segs"]))
        if w is None:
            add(orc, [("C03:%s:write-crash:%s" % (fmt, tag), "a file", a[:300], "writer crashed or failed")], fmt, img, line)
            continue
        jw = judge_write(fmt, img, w, stats)
        add(orc, jw, fmt, img, line)
        wf[i] = jw
        if any(":malformed:" in f[0] for f in jw):
            stats["malformed_not_read_back"] = stats.get("malformed_not_read_back", 0) + 1
            continue          # a file that is not well-formed is not fed to the loader here (that is C17)
        rl = rd_line_for(fmt, img, w)
        if rl is not None:
            rd_lines.append(rl)
            rd_idx.append(i)
    rans = nvlib.run_lines(ctx.harness, rd_lines, timeout=60)
    ctx.notes["rd_lines"], ctx.notes["rd_impl"] = rd_lines, rans
    for i, rl, ra in zip(rd_idx, rd_lines, rans):
        fmt, img = cases[i]
        orc["cases"] += 1
        r = G.parse_rd(ra)
        fails = judge_read(fmt, img, r, stats, wf[i])
        if r is None:
            fails = [("C03:%s:read-crash:%s" % (fmt, ra[:80]), "image", ra[:300], "reader crashed")]
        add(orc, fails, fmt, img, lines[i])
    # TI-TXT has no writer: encode the image per SLAU101 in Python and load it with the real read_ti_txt
    tcases = [(i, img) for i, (fmt, img) in enumerate(cases) if fmt == "hex" and img["klass"] != "wide"][:ctx.scale(80, 600)]
    tl = ["rd auto txt %s" % nvlib.hexs(S.encode_ti_txt(expected_cells(img))) for _, img in tcases]
    for (i, img), ta in zip(tcases, nvlib.run_lines(ctx.harness, tl, timeout=60)):
        orc["cases"] += 1
        stats["ti_txt_loaded"] = stats.get("ti_txt_loaded", 0) + 1
        r = G.parse_rd(ta)
        fails = judge_read("ti_txt", img, r, stats) if r is not None else [("C03:ti_txt:read-crash:%s" % ta[:80], "image", ta[:300], "reader crashed")]
        add(orc, fails, "ti_txt", img, lines[i])
    process_level(ctx, orc, stats)
    hang_probe(ctx, orc, stats)
    orc["stats"] = stats
    orc["distinct_nontrivial"] = len(set(l for (f, im), l in zip(cases, lines)
                                         if len(im["segs"]) >= 2 or G.low_high(im)[1] >= 0x10000))
    orc["samples"] = [{"line": lines[i][:300], "impl": ans[i][:300]} for i in range(0, len(lines), max(1, len(lines) // 5))][:5]


PROC_CPUS = [("msp430", 1, False), ("68000", 1, True), ("z80", 1, False), ("avr8", 2, False), ("riscv", 1, False)]


def process_level(ctx, orc, stats):
    """naken_asm -type X on small multi-segment programs, decoded per the specification, then loaded with naken_util"""
    rng = ctx.rng
    tmp = ctx.tmpdir()
    asm, util = ctx.repo["naken_asm"], ctx.repo["naken_util"]
    n = 0
    for cpu, bpa, big in PROC_CPUS:
        for fmt in (["hex", "srec", "elf", "bin", "wdc"] if not ctx.quick() or cpu in ("msp430", "68000") else ["hex", "srec", "elf"]):
            n += 1
            base = rng.choice([0x100, 0x1000, 0xff00 // bpa, 0x8000]) & ~3
            gap = rng.choice([0x10, 0x100, 0x20000 // bpa if fmt in ("hex", "srec") else 0x40])
            d1 = [rng.randrange(256) for _ in range(rng.choice([4, 8, 20, 36]))]
            d2 = [rng.randrange(1, 256) for _ in range(rng.choice([2, 4, 12]))]
            org2 = base + (len(d1) + bpa - 1) // bpa + gap
            src = ".%s\n.org 0x%x\nstart:\n  .db %s\n.org 0x%x\nsecond:\n  .db %s\n.export start\n.export second\n.entry_point start\n" % (
                cpu, base, ", ".join(map(str, d1)), org2, ", ".join(map(str, d2)))
            cells = {base * bpa + i: v for i, v in enumerate(d1)}
            cells.update({org2 * bpa + i: v for i, v in enumerate(d2)})
            low, high = min(cells), max(cells)
            tag = "%s cpu=%s" % (fmt, cpu)
            r = nvlib.run_asm(asm, src, tmp, args=["-q"], name="p%d" % n, outtype=fmt)
            orc["cases"] += 1
            stats["process_runs"] = stats.get("process_runs", 0) + 1
            if r["rc"] != 0 or r["data"] is None:
                orc["failures"].append({"sig": "C03:proc:asm-failed:%s" % tag, "input": src, "expected": "exit 0 and a file",
                                        "observed": "rc=%d %s" % (r["rc"], (r["out"] + r["err"])[-300:]), "what": "naken_asm failed"})
                continue
            data = r["data"]
            try:
                if fmt == "hex":
                    dec, meta = S.decode_ihex(data)
                elif fmt == "srec":
                    dec, meta = S.decode_srec(data)
                elif fmt == "elf":
                    dec, meta = S.decode_elf(data)
                elif fmt == "wdc":
                    dec, meta = S.decode_wdc(data)
                else:
                    dec, meta = S.decode_bin(data, low)
            except S.FormatError as e:
                sig = "C03:proc:malformed:%s" % tag
                if fmt == "elf" and cpu == "avr8" and "section header table (7 entries" in str(e):
                    sig = "C03:elf:malformed:avr8-shnum-7-but-6-headers:elf cpu=avr8 (naken_asm process)"
                orc["failures"].append({"sig": sig, "input": src, "expected": "well-formed file",
                                        "observed": str(e), "what": "file written by naken_asm does not decode"})
                continue
            got = dict(dec)
            bad = [a for a in cells if got.get(a) != cells[a]]
            extra = [a for a, v in got.items() if a not in cells and not (fmt in FILLER and v == 0 and low <= a <= high + 16)]
            if bad or extra:
                orc["failures"].append({"sig": "C03:proc:image:%s" % tag, "input": src, "expected": "the .db bytes at org*bytes_per_address",
                                        "observed": "wrong/missing at %s extra at %s" % ([hex(a) for a in bad[:3]], [hex(a) for a in extra[:3]]),
                                        "what": "file does not carry the assembled image"})
            if fmt == "srec" and meta["entry"] != base * bpa:
                orc["failures"].append({"sig": "C03:proc:srec-entry:%s" % tag, "input": src, "expected": "%x" % (base * bpa),
                                        "observed": str(meta["entry"]), "what": ".entry_point not in the termination record"})
            if fmt == "elf":
                if meta["entry"] != base * bpa:
                    orc["failures"].append({"sig": "C03:proc:elf-entry:%s" % tag, "input": src, "expected": "%x" % (base * bpa),
                                            "observed": "%x" % meta["entry"], "what": ".entry_point not in e_entry"})
                have = {s_["name"]: s_["value"] for s_ in meta["symbols"]}
                for name, val in (("start", base), ("second", org2)):
                    if have.get(name) != val:
                        orc["failures"].append({"sig": "C03:proc:elf-symbol:%s:%s" % (name, tag), "input": src, "expected": "%s=%x" % (name, val),
                                                "observed": str(have.get(name)), "what": ".export symbol not in the ELF symbol table with its value"})
            # load it back with naken_util and look at the bytes it shows
            if bpa == 1:
                cmds = "print 0x%x-0x%x\nprint 0x%x-0x%x\nquit\n" % (base, base + len(d1), org2, org2 + len(d2))
                uargs = (["-bin", "-address", "0x%x" % low] if fmt == "bin" else []) + [r["path"]]
                u = nvlib.run_util(util, uargs, cmds, cwd=tmp)
                orc["cases"] += 1
                shown = {}
                for line in u["out"].split("\n"):
                    m = re.search(r"0x([0-9a-f]+):((?: [0-9a-f]{2})+)", line)
                    if m:
                        a0 = int(m.group(1), 16)
                        for i, hx in enumerate(m.group(2).split()):
                            shown[a0 + i] = int(hx, 16)
                wrong = [a for a in cells if shown.get(a) != cells[a]]
                if u["rc"] != 0 or wrong:
                    orc["failures"].append({"sig": "C03:proc:util-load:%s" % tag, "input": src, "expected": "naken_util shows the assembled bytes",
                                            "observed": "rc=%d wrong at %s: %s" % (u["rc"], [hex(a) for a in wrong[:3]], u["out"][-200:]),
                                            "what": "naken_util does not reproduce the image from the file"})
                m = re.search(r"from 0x([0-9a-f]+) to 0x([0-9a-f]+)", u["out"])
                if m and fmt in ("hex", "srec", "wdc", "bin") and (int(m.group(1), 16), int(m.group(2), 16)) != (low, high):
                    orc["failures"].append({"sig": "C03:proc:util-range:%s" % tag, "input": src, "expected": "%x..%x" % (low, high),
                                            "observed": m.group(0), "what": "naken_util reports another address range"})


def hang_probe(ctx, orc, stats):
    """high_address = 0xffffffff: `for (n = low; n <= high; n++)` cannot end (uint32_t n).  Only the record formats are
    probed in-process (they spin without output); bin/elf/uf2/amiga/macho have the same loop and would fill the disk."""
    lines = ["wr %s - - fffffff0:%s - -" % (f, "01" * 16) for f in (("hex",) if ctx.quick() else ("hex", "srec", "wdc"))]
    ans = nvlib.run_lines(ctx.harness, lines, timeout=30, shards=len(lines))
    for l, a in zip(lines, ans):
        orc["cases"] += 1
        fmt = l.split(" ")[1]
        if not a.startswith("ok "):
            orc["failures"].append({"sig": "C03:%s:hang:high=ffffffff" % fmt, "input": l, "expected": "a file", "observed": a[:200],
                                    "what": "writer does not terminate when high_address is 0xffffffff", "replay_line": l})
        else:
            w = G.parse_wr(a)
            stats["high_ffffffff_ok"] = stats.get("high_ffffffff_ok", 0) + 1


def replay(ctx, rec):
    f = rec.get("failure") or {}
    line = f.get("replay_line")
    if not line or not line.startswith("wr "):
        return {"fails": False, "note": "no replay line recorded", "record": rec}
    return {"fails": True, "line": line[:500], "impl": ctx.impl([line])[0][:2000]}
