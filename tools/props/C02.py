"""C02 — two-pass consistency: label addresses and sizes identical in both passes."""
import os, re
import nvlib, gen_prog as G

ID = "C02"
LEAN_MODULES = ["NakenVerif.Props.C02"]
THEOREMS = [
    "NakenVerif.TwoPass.accepted_labels_stable",
    "NakenVerif.TwoPass.moved_label_is_error",
    "NakenVerif.TwoPass.label_is_placement",
    "NakenVerif.TwoPass.label_is_placement_no_pad",
    "NakenVerif.TwoPass.pad_breaks_placement",
    "NakenVerif.TwoPass.func_moved_is_rejected",
    "NakenVerif.TwoPass.msp430_pad_counterexample",
    "NakenVerif.TwoPass.avr8_skip_counterexample",
    "NakenVerif.TwoPass.labels_stable",
    "NakenVerif.TwoPass.data_size_stable",
    "NakenVerif.TwoPass.flag_idiom_size_stable",
    "NakenVerif.TwoPass.msp430_cg_size_stable",
    "NakenVerif.TwoPass.msp430_labels_stable",
    "NakenVerif.TwoPass.unstable_is_rejected",
    "NakenVerif.TwoPass.value_changed_sizes_differ",
    "NakenVerif.TwoPass.flag_overwritten_is_rejected",
]
RULE = ("programs per CPU: a name before and after every statement, bound by `name:` (global or local to a .scope/"
        ".func) or by `.func name`; operands are constants, backward and forward labels whose values admit the short "
        "encoding or need the long one; low and high areas via .org; data directives between instructions, of even length "
        "or (odd stream) of odd length without .align; every program with and without -optimize.  Non-trivial = program "
        "with at least one forward reference to a small-valued label; distinct = distinct (cpu, source, optimize).")
MODELLED = ("generic two-pass driver (name: | .func name | emit with pass/flag dependent size behind a back-end pad | org | "
            "data) incl. the pass-2 moved-label check of Symbols::append (reached from both binding paths), the pass-1 "
            "flag byte idiom memory_write(address, flag)/memory_read(address) and its MSP430 constant-generator instance, "
            "the MSP430 pad byte / AVR8 word skip in front of an instruction at an odd counter")
NOT_MODELLED = ("the per-CPU operand parsers: msp430, msp430x, 6502, 65816, 68hc08, 68000, mips, mips32, stm8, riscv, z80, "
                "avr8, 6800, 8051, thumb, arm, tms9900, pdp11, 6809, tms340 are covered by the implementation-side search "
                "only (p1 address = p2 address = placement of the following data / code); all other CPUs not exercised; "
                "names bound by imported symbols (AsmContext::link) not exercised")
ASSUMPTIONS = ["names are re-bound in pass 2 through Symbols::set_debug() (the device of tests/symbol_address) to observe "
               "pass-2 addresses; the production run (lock()) is observed through marker data following names, through the "
               "bytes of position-independent statements (reference: the same statement assembled alone by the real code at "
               "two aligned origins) and through Memory::debug_line (the byte that carries a statement's line, matched to "
               "the source's instruction statements by rank)"]
TRUSTED_BASE = ["tools/gen_prog.py program generator and its per-CPU form table",
                "the encoding of a single statement assembled alone at an aligned origin (C01/C06 territory) is the reference "
                "for where that statement's bytes are in a program"]

CPUS_QUICK = ["msp430", "msp430x", "6502", "65816", "68hc08", "68000", "mips", "mips32", "stm8", "riscv", "z80", "avr8",
              "6800", "8051", "tms9900", "pdp11", "thumb", "arm", "6809", "tms340"]

# forms whose size in pass 2 can differ from the size reserved in pass 1 (a forward reference to a small value):
# the programs built from them exercise the moved-name check, through `name:` and through `.func name`
UNSTABLE = {"6809": ["lda {},x", "ldb {},y", "leax {},u", "lda [{},x]", "adda {},s", "stb {},x", "leay {},y"],
            "tms340": ["jruc {}", "jrne {}", "movi {}, a1", "addi {}, a2", "andi {}, a4", "cmpi {}, a5"]}

ORG_A, ORG_B = 0x400, 0x2340        # two aligned origins for the stand-alone reference of a statement


def norm_form(form):
    return re.sub(r"\s+", " ", form.rstrip("!"))


def parse_source(src):
    """name definitions in source order: [(name, marker value or None, (form, cls) of the last
    statement before the definition, kind)] — read back from the text the generator writes
    (`name:` and `.func name`); used by replay and as a cross-check of info["defs"]."""
    out = []
    prev = ("(area start)", "-")
    lines = src.split("\n")
    for k, ln in enumerate(lines):
        t = ln.strip()
        name = kind = None
        if t.endswith(":") and " " not in t:
            name, kind = t[:-1], "colon"
        elif t.startswith(".func "):
            name, kind = t.split()[1], "func"
        if name is not None:
            m = None
            if k + 1 < len(lines) and lines[k + 1].endswith("; M"):
                m = int(lines[k + 1].split()[1], 16)
            out.append((name, m, prev, kind))
        elif "; S " in t:
            form, _, cls = t.split("; S ", 1)[1].rpartition(" | ")
            prev = (form, cls)
        elif t.startswith(".org"):
            prev = ("(area start)", "-")
    return out


def info_from_source(src):
    """rebuild the generator's description of a program (info["defs"] etc.) from its text, so that a stored
    failing input can be judged again without the generator's state"""
    lines = src.split("\n")
    cpu = lines[0].strip().lstrip(".")
    defs, stmts = [], []
    prev = ("(area start)", "-")
    pending = []
    opened = None
    msize = None
    for k, ln in enumerate(lines):
        t = ln.strip()
        name = kind = None
        if t.startswith(".org"):
            prev, pending = ("(area start)", "-"), []
        elif t == ".scope":
            opened = "scope"
        elif t in (".ends", ".endf"):
            opened = None
        elif t.startswith(".func "):
            name, kind, opened = t.split()[1], "func", "func"
        elif t.endswith(":") and " " not in t:
            name = t[:-1]
            kind = "colon" if opened is None else ("scope" if lines[k - 1].strip() == ".scope" else "local")
        elif t.endswith("; M"):
            msize = {".db": 1, ".dc16": 2, ".dc32": 4}[t.split()[0]]
            if defs and defs[-1]["line"] == k:          # the datum directly behind the definition
                defs[-1]["marker"] = int(t.split()[1], 16)
            for d in pending:
                d["next"] = {"kind": "data", "line": k + 1, "form": t.split()[0], "cls": "-", "text": t}
            pending = []
        elif "; S " in t:
            text, meta = t.split(" ; S ", 1)
            form, _, cls = meta.rpartition(" | ")
            isdata = form.startswith(".")
            for d in pending:
                d["next"] = {"kind": "data" if isdata else "instr", "line": k + 1, "form": form, "cls": cls, "text": text}
            pending = []
            prev = (form, cls)
            stmts.append((len(defs), "data" if isdata else form, cls))
        if name is not None:
            d = {"name": name, "kind": kind, "marker": None, "prev": prev, "line": k + 1, "next": None}
            defs.append(d)
            pending.append(d)
    return {"cpu": cpu, "defs": defs, "stmts": stmts, "msize": msize or 1}


# ---- stand-alone reference of one statement ---------------------------------------------------
# `.cpu / .org A / <statement>` assembled by the real code at an aligned origin: the bytes of the
# statement and the offset (from the origin) of the lowest byte that carries the statement's line
# in Memory::debug_line.  A statement whose bytes are the same at two origins is position
# independent: wherever a program places it, those bytes must be at the address of the label in
# front of it.

def standalone_src(cpu, text, org):
    return ".%s\n.org 0x%x\n  %s\n" % (cpu, org, text)


def cal_text(cpu, form, is_rel, org):
    if "{}" not in form:
        return form
    return form.replace("{}", "0x%x" % org if is_rel else "0x10")


class Cal:
    def __init__(self, ctx):
        self.ctx = ctx
        self.res = {}        # (cpu, opt, text, org) -> (bytes or None, marker offset or None)

    def need(self, reqs):
        reqs = [r for r in dict.fromkeys(reqs) if r not in self.res]
        if not reqs:
            return
        lines = [nvlib.prog_line(standalone_src(cpu, text, org), "L" + ("o" if opt else "")) for cpu, opt, text, org in reqs]
        for r, a in zip(reqs, self.ctx.impl(lines)):
            d = nvlib.parse_prog(a)
            if d.get("died") or d["st"] != 0:
                self.res[r] = (None, None)
                continue
            base = r[3] * d["bpa"]
            img = d["image"]
            bs = []
            while base + len(bs) in img:
                bs.append(img[base + len(bs)])
            if len(bs) != len(img):
                bs = None                     # bytes elsewhere than from the origin on: not usable
            marks = parse_lines(d)
            off = list(marks.values())[0] - base if len(marks) == 1 else None
            self.res[r] = (bytes(bs) if bs else None, off)

    def encoding(self, cpu, opt, text):
        """bytes of a position-independent statement, else None"""
        ea, _ = self.res.get((cpu, opt, text, ORG_A), (None, None))
        eb, _ = self.res.get((cpu, opt, text, ORG_B), (None, None))
        return ea if ea is not None and ea == eb else None

    def marker(self, cpu, opt, form, is_rel):
        t = cal_text(cpu, form, is_rel, ORG_A)
        return self.res.get((cpu, opt, t, ORG_A), (None, None))[1]


def is_rel_form(cpu, form):
    return any(form == r.rstrip("!") for r in G.FORMS[cpu].get("rel", []))


def cal_requests(info, opt):
    cpu = info["cpu"]
    reqs = []
    for d in info["defs"]:
        nx = d["next"]
        if not nx or nx["kind"] != "instr":
            continue
        rel = is_rel_form(cpu, nx["form"])
        reqs.append((cpu, opt, cal_text(cpu, nx["form"], rel, ORG_A), ORG_A))
        if nx["cls"] in ("const-small", "const-large", "-") and not rel:
            reqs.append((cpu, opt, nx["text"], ORG_A))
            reqs.append((cpu, opt, nx["text"], ORG_B))
    return reqs


def parse_lines(d):
    out = {}
    v = d.get("lines", "-") or "-"
    if v != "-":
        for ent in v.split(","):
            ln, a, n = ent.split(":")
            out[int(ln)] = int(a, 16)
    return out


def align_class(d, a, bpa, kinds):
    """is the (byte) location counter odd at the name `d` (followed by an instruction) bound to byte address
    `a`?  With one byte per address the address says so; with wider address units the image (a data byte
    occupies the start of the unit the name points to)."""
    if bpa == 1:
        return "odd" if a & 1 else "even"
    return "odd" if kinds.get(a) == "d" else "even"


def judge(src, info, opt, locked, debug, cal, stats):
    """locked = parse_prog of `prog` (production: lock), debug = parse_prog of `progd` (names re-bound in pass 2)."""
    cpu = info["cpu"]
    out = []
    o = "+opt" if opt else ""
    if locked.get("died") or debug.get("died"):
        return [("C02:crash:%s" % cpu, "exit 0/1", (locked if locked.get("died") else debug)["raw"][:200], "assembler crashed")], "died"
    if locked["st"] != 0:
        return [], "rejected"
    bpa = locked["bpa"]
    defs = info["defs"]
    p1 = debug["p1_list"]
    p2 = debug["syms_list"]
    final = locked["syms_list"]
    strip = lambda ds: [{k: v for k, v in d.items() if k != "odd"} for d in ds]
    if [d["name"] for d in defs] != [n for n, a, s, e in final] or strip(info_from_source(src)["defs"]) != strip(defs):
        return [("C02:protocol:%s" % cpu, "names of the source in order", str([n for n, a, s, e in final])[:200],
                 "symbol list does not match the definitions of the source")], "accepted"
    # 0. the table after pass 2 of the production run is the table of pass 1
    if locked["p1_list"] != final:
        out.append(("C02:table-changed:%s%s" % (cpu, o), str(locked["p1_list"])[:200], str(final)[:200],
                    "the symbol table changed during pass 2 of the production run"))
    # 1. pass-1 address == pass-2 address, name by name in source order
    if debug["st"] == 0 and len(p1) == len(p2) == len(defs):
        for d, (n1, a1, s1, e1), (n2, a2, s2, e2) in zip(defs, p1, p2):
            if a1 != a2:
                form, cls = d["prev"]
                out.append(("C02:drift:%s%s:%s:%s:%s" % (cpu, o, norm_form(form), cls, d["kind"]),
                            "%s = %x in both passes" % (d["name"], a1), "pass 1 %x, pass 2 %x" % (a1, a2),
                            "name (%s) moved between the passes but the program was accepted; the statement before it is `%s` (%s)" % (d["kind"], form, cls)))
                break
    # 2. production run: the marker datum that follows a name is at the name's address
    img = locked["image"]
    big = locked["end"] == "b"
    ms = info["msize"]
    for d, (n, a, sc, e) in zip(defs, final):
        m = d["marker"]
        if m is None:
            continue
        stats["marker_checks"] += 1
        a *= bpa
        ok = False
        for sub in (range(bpa) if ms < bpa else (0,)):       # a byte datum inside a wider address unit
            bs = [img.get(a + sub + i) for i in range(ms)]
            if None not in bs and int.from_bytes(bytes(bs), "big" if big else "little") == m:
                ok = True
        if not ok:
            if not out:
                out.append(("C02:placement:%s%s:%s:%s:%s:%s" % (cpu, o, norm_form(d["prev"][0]), d["prev"][1], d["kind"], align_class(d, a, bpa, locked["kinds"])),
                            "marker %x at %s = %x" % (m, d["name"], a), "bytes %s" % [img.get(a + i) for i in range(max(ms, bpa))],
                            "the data following the name is not at the name's address"))
            break
    # 3. production run: the code that follows a name is at the name's address
    # (line markers are matched to the instruction statements of the source by rank: the assembler's line
    #  counter drifts behind some statements, e.g. 6800 `ldab fwd,x` counts its line twice)
    ilines = [k + 1 for k, ln in enumerate(src.split("\n")) if "; S " in ln and not ln.split("; S ", 1)[1].startswith(".")]
    marks = parse_lines(locked)
    marks = dict(zip(ilines, [marks[k] for k in sorted(marks)])) if len(marks) == len(ilines) else {}
    for d, (n, a, sc, e) in zip(defs, final):
        nx = d["next"]
        if not nx or nx["kind"] != "instr":
            continue
        a *= bpa
        form, cls = nx["form"], nx["cls"]
        rel = is_rel_form(cpu, form)
        how = None
        # 3a. position-independent statement: its bytes are at the name's address
        enc = cal.encoding(cpu, opt, nx["text"]) if cls in ("const-small", "const-large", "-") and not rel else None
        if enc:
            stats["code_checks"] += 1
            stats["code_checks_kind"][d["kind"]] = stats["code_checks_kind"].get(d["kind"], 0) + 1
            if align_class(d, a, bpa, locked["kinds"]) == "odd":
                stats["code_checks_at_odd_counter"] += 1
            if any(img.get(a + i) != enc[i] for i in range(len(enc))):
                how = "lost"
                for k in range(1, 9):
                    if all(img.get(a + k + i) == enc[i] for i in range(len(enc))):
                        how = "shift+%d" % k
                        break
                obs = "bytes %s" % bytes(img.get(a + i, 0) for i in range(len(enc) + 2)).hex()
                exp = "bytes %s of `%s` at %s = %x" % (enc.hex(), nx["text"], d["name"], a)
        # 3b. every instruction: the byte that carries the statement's line in Memory::debug_line is where the
        #     stand-alone assembly of the same form puts it, relative to the name's address
        if how is None:
            want = cal.marker(cpu, opt, form, rel)
            got = marks.get(nx["line"])
            if want is not None and got is not None:
                stats["line_checks"] += 1
                if got - a != want:
                    how = "marker%+d" % (got - a - want)
                    obs = "line %d marks address %x" % (nx["line"], got)
                    exp = "address %x (%s = %x, offset %d as in the stand-alone assembly)" % (a + want, d["name"], a, want)
        if how is not None:
            if not out:
                out.append(("C02:code-placement:%s%s:%s:%s:%s:%s:%s" % (cpu, o, norm_form(form), cls, d["kind"], align_class(d, a, bpa, locked["kinds"]), how),
                            exp, obs, "the code following the name (%s) is not at the address bound to the name" % d["kind"]))
            break
    return out, "accepted"


KIND_PLAN = [("colon", False)] * 4 + [("mixed", False)] * 2 + [("func", False)] * 2 + [("local", False)] + [("mixed", True)] * 2 + [("colon", True), ("func", True)]


def gen_cases(ctx):
    rng = ctx.rng
    cases = []
    cpus = CPUS_QUICK
    per = ctx.scale(50, 500)
    for cpu in cpus:
        for k in range(per):
            n = rng.choice([3, 5, 8, 12, 20])
            kinds, odd = KIND_PLAN[k % len(KIND_PLAN)]
            src, info = G.gen_twopass(rng, cpu, n if not odd else min(n, 8), kinds=kinds, odd=odd)
            cases.append((src, info))
        for k in range(ctx.scale(3, 20)):
            src, info = G.gen_twopass(rng, cpu, rng.choice([4, 8]), shadow=True, rel=False)
            cases.append((src, info))
        # one statement form at a time: every form x every operand class (exhaustive over the table),
        # once with plain labels, once with function names only, once behind data of odd length
        f = G.FORMS[cpu]
        for form in f["forms"]:
            for kinds, odd in (("colon", False), ("func", False), ("mixed", True)):
                src, info = G.gen_twopass(rng, cpu, 6, forms=[form], rel=False, kinds=kinds, odd=odd)
                cases.append((src, info))
    return cases


# Programs in which a LOCAL label that has the name of an earlier global label is the last name of its segment, behind a
# statement whose size differs between the passes (the reference resolves to the global in pass 1 and to the local in
# pass 2, or a 6809/TMS340 forward form shrinks).  The unchanged tree rejects them ("Label moved"); whatever accepts
# them must not have changed a name's address between the passes.
SHADOW_FOCUS = [
    ("6502", ".6502\n.org 0x10\ncount:\n  db 0x11\n.org 0x1000\n.scope\nentry:\n  lda count\n  rts\ncount:\n  db 0x77\n.ends\n"),
    ("65816", ".65816\n.org 0x10\ncount:\n  db 0x11\n.org 0x1000\n.scope\nentry:\n  lda count\n  rts\ncount:\n  db 0x77\n.ends\n"),
    ("68hc08", ".68hc08\n.org 0x10\ncount:\n  db 0x11\n.org 0x1000\n.scope\nentry:\n  lda count\n  rts\ncount:\n  db 0x77\n.ends\n"),
    ("6809", ".6809\n.org 0x2000\ndone:\n  rts\n.org 0x1000\n.scope\nentry:\n  jmp done\n  lda table,x\n  rts\ndone:\n  clra\n  rts\n.ends\n.org 0x20\ntable:\n  db 1, 2, 3\n"),
    ("6502", ".6502\n.org 0x20\nptr:\n  db 1\n.org 0x1000\n.func f\n  ldx ptr\n  inx\nptr:\n  db 2\n.endf\n"),
    ("6502", ".6502\n.org 0x30\nv:\n  db 1\n.org 0x1000\n.scope\n  lda v\n  sta v\nv:\n  db 2\n.ends\n.org 0x2000\n.scope\n  lda v\nv:\n  db 3\n.ends\n"),
]


def shadow_focus(ctx, orc, stats):
    ans = ctx.impl([nvlib.prog_line(src, "1") for _, src in SHADOW_FOCUS])
    acc = 0
    for (cpu, src), a in zip(SHADOW_FOCUS, ans):
        orc["cases"] += 1
        d = nvlib.parse_prog(a)
        if d.get("died"):
            orc["failures"].append({"sig": "C02:crash:%s:shadow-focus" % cpu, "input": src, "expected": "exit 0/1",
                                    "observed": d["raw"][:200], "what": "assembler crashed"})
            continue
        if d["st"] != 0:
            continue
        acc += 1
        moved = [(n1, a1, a2) for (n1, a1, s1, e1), (n2, a2, s2, e2) in zip(d["p1_list"], d["syms_list"]) if n1 == n2 and a1 != a2]
        if moved or len(d["p1_list"]) != len(d["syms_list"]):
            orc["failures"].append({"sig": "C02:table-changed:%s:shadow-focus" % cpu, "input": src,
                                    "expected": "every name at its pass-1 address (or the program rejected)",
                                    "observed": "accepted; " + ", ".join("%s: pass 1 %x, pass 2 %x" % m for m in moved)[:300],
                                    "what": "a name moved between the passes and the program was accepted"})
    stats["shadow_focus"] = {"programs": len(SHADOW_FOCUS), "accepted": acc}


def oracle(ctx, orc, focus=None):
    cases = gen_cases(ctx)
    lines = []
    cal = Cal(ctx)
    reqs = []
    for src, info in cases:
        for opt in ("1L", "1oL"):
            lines.append(nvlib.prog_line(src, opt))
            lines.append("progd %s %s" % ("o" if "o" in opt else "-", nvlib.hexs(src)))
        reqs += cal_requests(info, False) + cal_requests(info, True)
    ans = ctx.impl(lines)
    cal.need(reqs)
    stats = {"accepted": 0, "rejected": 0, "died": 0, "per_cpu": {}, "classes": {}, "rejected_examples": [],
             "marker_checks": 0, "code_checks": 0, "code_checks_kind": {}, "code_checks_at_odd_counter": 0, "line_checks": 0,
             "standalone_runs": len(cal.res), "programs_by_kind": {}, "names_by_kind": {}}
    i = 0
    for src, info in cases:
        key = "%s%s" % (info["kinds"], "+odd" if info["odd_mode"] else "")
        stats["programs_by_kind"][key] = stats["programs_by_kind"].get(key, 0) + 1
        for d in info["defs"]:
            stats["names_by_kind"][d["kind"]] = stats["names_by_kind"].get(d["kind"], 0) + 1
        for opt in (False, True):
            locked, debug = nvlib.parse_prog(ans[i]), nvlib.parse_prog(ans[i + 1])
            line = lines[i]
            i += 2
            orc["cases"] += 1
            fs, verdict = judge(src, info, opt, locked, debug, cal, stats)
            stats[verdict] += 1
            c = stats["per_cpu"].setdefault(info["cpu"], {"accepted": 0, "rejected": 0, "died": 0})
            c[verdict] += 1
            if verdict == "rejected":
                if any(c == "fwd-shadow" for _, _, c in info["stmts"]):
                    stats["rejected_with_fwd_shadow"] = stats.get("rejected_with_fwd_shadow", 0) + 1
                if len(stats["rejected_examples"]) < 6:
                    stats["rejected_examples"].append(src.replace("\n", "|")[:300])
            for _, form, cls in info["stmts"]:
                stats["classes"][cls] = stats["classes"].get(cls, 0) + 1
            for sig, exp, obs, what in fs:
                orc["failures"].append({"sig": sig, "input": src, "expected": exp, "observed": obs, "what": what,
                                        "replay_line": line, "optimize": opt})
    shadow_focus(ctx, orc, stats)
    orc["stats"] = stats
    orc["distinct_nontrivial"] = len(set(src for src, info in cases if any(c == "fwd-small" for _, _, c in info["stmts"])))
    orc["samples"] = [{"source": cases[k][0][:300]} for k in range(0, len(cases), max(1, len(cases) // 4))][:4]


def correspondence(ctx, corr):
    """The two-pass model is generic (statement sizes are parameters); its tie to the code is the
    driver itself: for generated programs the per-statement sizes observed on the real code in pass 1
    and in pass 2 (`progd`: names re-bound) are replayed through the model (`twopass`), which must
    reproduce the verdict and the addresses of the production run (`prog`: table locked, moved
    name = error).  Names bound by `.func` are `f:` statements of the model: they go through the same
    check, so a code base that leaves them unchecked disagrees with the model on the programs whose
    only names behind a size-unstable instruction are function names."""
    rng = ctx.rng
    lines, metas = [], []
    plan = [("colon", True, True), ("colon", False, False), ("func", False, False), ("mixed", False, True),
            ("func", False, True), ("colon", True, False)]
    for cpu in CPUS_QUICK:
        forms_unstable = UNSTABLE.get(cpu)
        for k in range(ctx.scale(6, 60)):
            kinds, shadow, rel = plan[k % len(plan)]
            src, info = G.gen_twopass(rng, cpu, rng.choice([4, 8, 12]), shadow=shadow, rel=rel, kinds=kinds)
            metas.append((src, info))
        if forms_unstable:
            for k in range(ctx.scale(4, 24)):
                src, info = G.gen_twopass(rng, cpu, rng.choice([2, 4, 6]), forms=forms_unstable, rel=False,
                                          kinds=("func", "colon", "mixed")[k % 3])
                metas.append((src, info))
        # every form alone with all operand classes: the forms the tree keeps size-stable must be accepted
        for form in G.FORMS[cpu]["forms"]:
            src, info = G.gen_twopass(rng, cpu, 5, forms=[form], rel=False, kinds=("colon", "func", "local")[len(metas) % 3])
            metas.append((src, info))
    for src, info in metas:
        lines.append("progd - " + nvlib.hexs(src))
        lines.append(nvlib.prog_line(src, "1"))
    ans = ctx.impl(lines)
    mlines, wants = [], []
    verdicts = {"ok": 0, "moved": 0, "skipped": 0, "moved_behind_func_only": 0}
    kinds_seen = {}
    expected_moves = {}
    for k, (src, info) in enumerate(metas):
        r = nvlib.parse_prog(ans[2 * k])
        locked = nvlib.parse_prog(ans[2 * k + 1])
        if r.get("died") or locked.get("died") or r["st"] != 0 or len(r["p1_list"]) != len(r["syms_list"]):
            verdicts["skipped"] += 1
            continue
        defs = info["defs"]
        if [d["name"] for d in defs] != [n for n, a, s, e in r["p1_list"]]:
            verdicts["skipped"] += 1
            continue
        # one model statement per bound name; between two consecutive names of the same area an emit with
        # the observed sizes, across an `.org` an org statement.  Names are made unique by position
        # (the model's table is flat; scoping is C11's concern).
        ops, names = [], []
        first_moved = None
        for i, (d, (n1, a1, s1, e1), (n2, a2, s2, e2)) in enumerate(zip(defs, r["p1_list"], r["syms_list"])):
            u = "%s_%d" % (d["name"], i)
            if i > 0:
                pa1, pa2 = r["p1_list"][i - 1][1], r["syms_list"][i - 1][1]
                d1, d2 = a1 - pa1, a2 - pa2
                if d["prev"][0] == "(area start)" or d1 < 0 or d2 < 0 or d1 > 4096 or d2 > 4096:
                    ops.append("o:%d" % a1)
                else:
                    ops.append("e:%d:%d" % (d1, d2))
            ops.append(("f:" if d["kind"] == "func" else "l:") + u)
            kinds_seen[d["kind"]] = kinds_seen.get(d["kind"], 0) + 1
            if first_moved is None and a1 != a2:
                first_moved = d["kind"]
            names.append((u, a1, a2))
        mlines.append("twopass %d %s" % (names[0][1], " ".join(ops)))
        if locked["st"] == 0:
            wants.append("ok " + " ".join("%s=%x/%x" % (u, a, a) for (u, a, _), (n, a, s, e) in zip(names, locked["syms_list"])))
            verdicts["ok"] += 1
        else:
            wants.append("moved")
            verdicts["moved"] += 1
        if first_moved == "func":
            verdicts["moved_behind_func_only"] += 1
        # size-stability of the back ends (the hypothesis of `labels_stable`): a name moves only behind a form
        # the tree is known to re-size in pass 2 (UNSTABLE) or behind the forward-shadow shape
        if first_moved is not None:
            d = next(d for d, (n1, a1, s1, e1), (n2, a2, s2, e2) in zip(defs, r["p1_list"], r["syms_list"]) if a1 != a2)
            form, cls = d["prev"]
            key = "%s:%s:%s" % (info["cpu"], form, cls)
            if cls == "fwd-shadow" or form in UNSTABLE.get(info["cpu"], []):
                expected_moves[key] = expected_moves.get(key, 0) + 1
            else:
                corr["disagreements"].append({
                    "line": "size-stable %s | %s" % (key, src.replace("\n", "|")[:900]),
                    "impl": "name %s: pass 1 %x, pass 2 %x (%s)" % (d["name"], *[(a1, a2) for dd, (n1, a1, s1, e1), (n2, a2, s2, e2) in zip(defs, r["p1_list"], r["syms_list"]) if dd is d][0],
                                                                  "accepted" if locked["st"] == 0 else "rejected: label moved"),
                    "model": "the form reserves in pass 1 what it emits in pass 2 (SizeStable): no name moves"})
    got = ctx.model(mlines)
    corr["cases"] += len(mlines)
    for l, w, g in zip(mlines, wants, got):
        if w != g:
            corr["disagreements"].append({"line": l[:1000], "impl": w[:500], "model": g[:500]})
    corr["streams"]["twopass"] = {"lines": len(mlines), "programs": len(metas), "verdicts": verdicts, "names_by_kind": kinds_seen,
                                  "moves_behind_known_unstable_forms": expected_moves}
    # the MSP430 constant-generator instance: the model computes the sizes itself (flag byte, pad byte)
    progs = [G.gen_msp430cg(rng, rng.choice([3, 6, 10, 16])) for _ in range(ctx.scale(60, 600))]
    ans = ctx.impl([nvlib.prog_line(src, "1") for src, ops, start, names in progs])
    m430, w430 = [], []
    v430 = {"ok": 0, "rejected": 0, "skipped": 0}
    for (src, ops, start, names), a in zip(progs, ans):
        d = nvlib.parse_prog(a)
        if d.get("died") or [n for n, _, _, _ in d["p1_list"]] != names:
            v430["skipped"] += 1
            continue
        m430.append("twopass430 %d %s" % (start, " ".join(ops[1:])))
        if d["st"] == 0:
            w430.append("ok " + " ".join("%s=%x/%x" % (n, a1, a2) for (n, a1, _, _), (_, a2, _, _) in zip(d["p1_list"], d["syms_list"])))
            v430["ok"] += 1
        else:
            w430.append("moved")
            v430["rejected"] += 1
    g430 = ctx.model(m430)
    corr["cases"] += len(m430)
    for l, w, g, (src, _, _, _) in zip(m430, w430, g430, progs):
        if w != g:
            corr["disagreements"].append({"line": l[:600] + " | " + src.replace("\n", "|")[:600], "impl": w[:500], "model": g[:500]})
    corr["streams"]["msp430cg"] = {"lines": len(m430), "verdicts": v430}
    mlines += m430
    wants += w430
    got += g430
    corr["distinct_nontrivial"] = len(set(mlines))
    corr["samples"] = [{"line": mlines[i][:200], "impl": wants[i][:200], "model": got[i][:200]}
                       for i in range(0, len(mlines), max(1, len(mlines) // 4))][:4]


def replay(ctx, rec):
    f = rec.get("failure") or {}
    src = f.get("input")
    if not src:
        return {"fails": False, "note": "no source recorded"}
    opt = bool(f.get("optimize"))
    o = "o" if opt else ""
    a = ctx.impl([nvlib.prog_line(src, "1L" + o), "progd %s %s" % (o or "-", nvlib.hexs(src))])
    locked, debug = nvlib.parse_prog(a[0]), nvlib.parse_prog(a[1])
    info = info_from_source(src)
    cal = Cal(ctx)
    cal.need(cal_requests(info, opt))
    stats = {"marker_checks": 0, "code_checks": 0, "code_checks_kind": {}, "code_checks_at_odd_counter": 0, "line_checks": 0}
    fs, verdict = judge(src, info, opt, locked, debug, cal, stats)
    return {"fails": bool(fs), "verdict": verdict, "failures": [{"sig": s, "expected": e, "observed": ob} for s, e, ob, w in fs][:5],
            "locked": a[0][:400]}
