"""C02 — two-pass consistency: label addresses and sizes identical in both passes."""
import os, re
import nvlib, gen_prog as G

ID = "C02"
LEAN_MODULES = ["NakenVerif.Props.C02"]
THEOREMS = [
    "NakenVerif.TwoPass.accepted_labels_stable",
    "NakenVerif.TwoPass.moved_label_is_error",
    "NakenVerif.TwoPass.label_is_placement",
    "NakenVerif.TwoPass.labels_stable",
    "NakenVerif.TwoPass.data_size_stable",
    "NakenVerif.TwoPass.flag_idiom_size_stable",
    "NakenVerif.TwoPass.msp430_cg_size_stable",
    "NakenVerif.TwoPass.msp430_labels_stable",
    "NakenVerif.TwoPass.unstable_is_rejected",
    "NakenVerif.TwoPass.value_changed_sizes_differ",
    "NakenVerif.TwoPass.flag_overwritten_is_rejected",
]
RULE = ("programs per CPU: a label before and after every statement; operands are constants, backward and forward "
        "labels whose values admit the short encoding or need the long one; low and high areas via .org; data "
        "directives between instructions; every program with and without -optimize.  Non-trivial = program with at "
        "least one forward reference to a small-valued label; distinct = distinct (cpu, source, optimize).")
MODELLED = ("generic two-pass driver (label | emit with pass/flag dependent size | org | data) incl. the pass-2 "
            "moved-label check of Symbols::append, the pass-1 flag byte idiom memory_write(address, flag)/"
            "memory_read(address) and its MSP430 constant-generator instance")
NOT_MODELLED = ("the per-CPU operand parsers: msp430, msp430x, 6502, 65816, 68hc08, 68000, mips, mips32, stm8, riscv, z80, "
                "avr8, 6800, 8051, thumb, arm, tms9900, pdp11 are covered by the implementation-side search only "
                "(p1 address = p2 address = placement); all other CPUs not exercised")
ASSUMPTIONS = ["labels are re-bound in pass 2 through Symbols::set_debug() (the device of tests/symbol_address) to observe "
               "pass-2 addresses; the production run (lock()) is observed through marker data following labels"]
TRUSTED_BASE = ["tools/gen_prog.py program generator and its per-CPU form table"]

CPUS_QUICK = ["msp430", "msp430x", "6502", "65816", "68hc08", "68000", "mips", "mips32", "stm8", "riscv", "z80", "avr8",
              "6800", "8051", "tms9900", "pdp11", "thumb", "arm"]


def norm_form(form):
    return re.sub(r"\s+", " ", form.rstrip("!"))


def parse_source(src):
    """label definitions in source order: [(name, marker value or None, (form, cls) of the last
    statement before the label)] — read back from the comments the generator writes."""
    out = []
    prev = ("(area start)", "-")
    lines = src.split("\n")
    for k, ln in enumerate(lines):
        t = ln.strip()
        if t.endswith(":") and " " not in t:
            m = None
            if k + 1 < len(lines) and lines[k + 1].endswith("; M"):
                m = int(lines[k + 1].split()[1], 16)
            out.append((t[:-1], m, prev))
        elif "; S " in t:
            form, _, cls = t.split("; S ", 1)[1].rpartition(" | ")
            prev = (form, cls)
        elif t.startswith(".org"):
            prev = ("(area start)", "-")
    return out


def judge(src, info, opt, locked, debug):
    """locked = parse_prog of `prog` (production: lock), debug = parse_prog of `progd` (labels re-bound in pass 2)."""
    cpu = info["cpu"]
    out = []
    o = "+opt" if opt else ""
    if locked.get("died") or debug.get("died"):
        return [("C02:crash:%s" % cpu, "exit 0/1", (locked if locked.get("died") else debug)["raw"][:200], "assembler crashed")], "died"
    if locked["st"] != 0:
        return [], "rejected"
    bpa = locked["bpa"]
    defs = parse_source(src)
    p1 = debug["p1_list"]
    p2 = debug["syms_list"]
    final = locked["syms_list"]
    if [d[0] for d in defs] != [n for n, a, s, e in final]:
        return [("C02:protocol:%s" % cpu, "labels of the source in order", str([n for n, a, s, e in final])[:200],
                 "symbol list does not match the label definitions")], "accepted"
    # 1. pass-1 address == pass-2 address, label by label in source order
    if debug["st"] == 0 and len(p1) == len(p2) == len(defs):
        for (name, m, (form, cls)), (n1, a1, s1, e1), (n2, a2, s2, e2) in zip(defs, p1, p2):
            if a1 != a2:
                out.append(("C02:drift:%s%s:%s:%s" % (cpu, o, norm_form(form), cls),
                            "%s = %x in both passes" % (name, a1), "pass 1 %x, pass 2 %x" % (a1, a2),
                            "label moved between the passes; the statement before it is `%s` (%s)" % (form, cls)))
                break
    # 2. production run: the marker that follows a label is at the label's address
    img = locked["image"]
    big = locked["end"] == "b"
    ms = info["msize"]
    last_ok = ("(area start)", "-")
    for (name, m, prev), (n, a, sc, e) in zip(defs, final):
        if m is None:
            continue
        a *= bpa
        bs = [img.get(a + i) for i in range(ms)]
        got = None if None in bs else int.from_bytes(bytes(bs), "big" if big else "little")
        if got != m:
            if not out:
                out.append(("C02:placement:%s%s:%s:%s" % (cpu, o, norm_form(prev[0]), prev[1]),
                            "marker %x at %s = %x" % (m, name, a), "bytes %s" % bs,
                            "the data following the label is not at the label's address"))
            break
    return out, "accepted"


def gen_cases(ctx):
    rng = ctx.rng
    cases = []
    cpus = CPUS_QUICK
    per = ctx.scale(60, 600)
    for cpu in cpus:
        for k in range(per):
            n = rng.choice([3, 5, 8, 12, 20])
            src, info = G.gen_twopass(rng, cpu, n)
            cases.append((src, info))
        for k in range(ctx.scale(3, 20)):
            src, info = G.gen_twopass(rng, cpu, rng.choice([4, 8]), shadow=True, rel=False)
            cases.append((src, info))
        # one statement form at a time: every form x every operand class (exhaustive over the table)
        f = G.FORMS[cpu]
        for form in f["forms"]:
            src, info = G.gen_twopass(rng, cpu, 6, forms=[form], rel=False)
            cases.append((src, info))
    return cases


def oracle(ctx, orc, focus=None):
    cases = gen_cases(ctx)
    lines = []
    for src, info in cases:
        for opt in ("1", "1o"):
            lines.append(nvlib.prog_line(src, opt))
            lines.append("progd %s %s" % ("o" if "o" in opt else "-", nvlib.hexs(src)))
    ans = ctx.impl(lines)
    stats = {"accepted": 0, "rejected": 0, "died": 0, "per_cpu": {}, "classes": {}, "rejected_examples": []}
    i = 0
    for src, info in cases:
        for opt in (False, True):
            locked, debug = nvlib.parse_prog(ans[i]), nvlib.parse_prog(ans[i + 1])
            line = lines[i]
            i += 2
            orc["cases"] += 1
            fs, verdict = judge(src, info, opt, locked, debug)
            stats[verdict] += 1
            c = stats["per_cpu"].setdefault(info["cpu"], {"accepted": 0, "rejected": 0, "died": 0})
            c[verdict] += 1
            if verdict == "rejected" and any(c == "fwd-shadow" for _, _, c in info["stmts"]):
                stats["rejected_with_fwd_shadow"] = stats.get("rejected_with_fwd_shadow", 0) + 1
            if verdict == "rejected" and len(stats["rejected_examples"]) < 6:
                stats["rejected_examples"].append(src.replace("\n", "|")[:300])
            for _, form, cls in info["stmts"]:
                stats["classes"][cls] = stats["classes"].get(cls, 0) + 1
            for sig, exp, obs, what in fs:
                orc["failures"].append({"sig": sig, "input": src, "expected": exp, "observed": obs, "what": what,
                                        "replay_line": line, "optimize": opt})
    orc["stats"] = stats
    orc["distinct_nontrivial"] = len(set(src for src, info in cases if any(c == "fwd-small" for _, _, c in info["stmts"])))
    orc["samples"] = [{"source": cases[k][0][:300]} for k in range(0, len(cases), max(1, len(cases) // 4))][:4]


def correspondence(ctx, corr):
    """The two-pass model is generic (statement sizes are parameters); its tie to the code is the
    driver itself: for generated programs the per-statement sizes observed on the real code in pass 1
    and in pass 2 (`progd`: labels re-bound) are replayed through the model (`twopass`), which must
    reproduce the verdict and the label addresses of the production run (`prog`: table locked,
    moved label = error)."""
    rng = ctx.rng
    lines, metas = [], []
    for cpu in CPUS_QUICK:
        for k in range(ctx.scale(6, 60)):
            src, info = G.gen_twopass(rng, cpu, rng.choice([4, 8, 12]), shadow=(k % 3 == 0), rel=(k % 3 != 0))
            lines.append("progd - " + nvlib.hexs(src))
            lines.append(nvlib.prog_line(src, "1"))
            metas.append((src, info))
    ans = ctx.impl(lines)
    mlines, wants = [], []
    verdicts = {"ok": 0, "moved": 0, "skipped": 0}
    for k, (src, info) in enumerate(metas):
        r = nvlib.parse_prog(ans[2 * k])
        locked = nvlib.parse_prog(ans[2 * k + 1])
        if r.get("died") or locked.get("died") or r["st"] != 0 or len(r["p1_list"]) != len(r["syms_list"]):
            verdicts["skipped"] += 1
            continue
        defs = parse_source(src)
        if [d[0] for d in defs] != [n for n, a, s, e in r["p1_list"]]:
            verdicts["skipped"] += 1
            continue
        # one model statement per label; between two consecutive labels of the same area an emit with
        # the observed sizes, across an `.org` an org statement.  Names are made unique by position
        # (the model's table is flat; scoping is C11's concern).
        ops, names = [], []
        for i, ((name, m, prev), (n1, a1, s1, e1), (n2, a2, s2, e2)) in enumerate(zip(defs, r["p1_list"], r["syms_list"])):
            u = "%s_%d" % (name, i)
            if i > 0:
                pa1, pa2 = r["p1_list"][i - 1][1], r["syms_list"][i - 1][1]
                d1, d2 = a1 - pa1, a2 - pa2
                if prev[0] == "(area start)" or d1 < 0 or d2 < 0 or d1 > 4096 or d2 > 4096:
                    ops.append("o:%d" % a1)
                else:
                    ops.append("e:%d:%d" % (d1, d2))
            ops.append("l:" + u)
            names.append((u, a1, a2))
        mlines.append("twopass %d %s" % (names[0][1], " ".join(ops)))
        if locked["st"] == 0:
            wants.append("ok " + " ".join("%s=%x/%x" % (u, a, a) for (u, a, _), (n, a, s, e) in zip(names, locked["syms_list"])))
            verdicts["ok"] += 1
        else:
            wants.append("moved")
            verdicts["moved"] += 1
    got = ctx.model(mlines)
    corr["cases"] += len(mlines)
    for l, w, g in zip(mlines, wants, got):
        if w != g:
            corr["disagreements"].append({"line": l[:1000], "impl": w[:500], "model": g[:500]})
    corr["streams"]["twopass"] = {"lines": len(mlines), "programs": len(metas), "verdicts": verdicts}
    corr["distinct_nontrivial"] = len(set(mlines))
    corr["samples"] = [{"line": mlines[i][:200], "impl": wants[i][:200], "model": got[i][:200]}
                       for i in range(0, len(mlines), max(1, len(mlines) // 4))][:4]


def replay(ctx, rec):
    f = rec.get("failure") or {}
    src = f.get("input")
    if not src:
        return {"fails": False, "note": "no source recorded"}
    opt = "o" if f.get("optimize") else ""
    a = ctx.impl([nvlib.prog_line(src, "1" + opt), "progd %s %s" % (opt or "-", nvlib.hexs(src))])
    debug = nvlib.parse_prog(a[1])
    if debug.get("died"):
        return {"fails": True, "impl": a[1][:300]}
    moved = [(n, a1, a2) for (n, a1, s1, e1), (n2, a2, s2, e2) in zip(debug["p1_list"], debug["syms_list"]) if a1 != a2]
    return {"fails": bool(moved), "moved_labels": moved[:10], "locked": a[0][:400]}
