"""C19 — naken_util memory commands address the same bytes as loader and simulator."""
import os, re, subprocess
import nvlib, gen_util as G, gen_image

ID = "C19"
LEAN_MODULES = ["NakenVerif.Props.C19"]
_T = "NakenVerif.Util.C19."
THEOREMS = [_T + n for n in [
    "get_num_parses", "numeral_value_positional", "get_num_rejects_decimal_junk", "get_num_rejects_hex_junk",
    "write_never_hangs", "get_address_scales", "address_units_roundtrip", "range_selects", "disasm_range_selects",
    "write_stores_values", "write_is_byte_sequence", "written_bytes_at", "write_frame", "print_loop_is_listing",
    "write_then_print", "written_value_at", "print_range_inclusive", "print_default_length", "sim_fetch_agrees",
    "asm_copies_image", "asm_next_org", "bin_load_places", "command_table_matches", "cpu_list_units",
    "write32_alignment_at_most_4", "asm_gap_zero_filled_counterexample", "bin_address_in_bytes_counterexample",
    "print_top_byte_counterexample", "disasm_all_top_sentinel_counterexample"]]
RULE = ("unum: get_num/get_address/get_range on numerals in every spelling (decimal, negative, 0x, h suffix, mixed case, "
        "leading zeros, 1..40 digits) at boundary values, with leading blanks, following words and junk suffixes, "
        "ranges a / a- / a-b / -b / reversed / with blanks and junk.  util: scripted sessions (write*/print*/disasm/"
        "info/asm/set/step/registers/reset + invalid commands) on one CPU per (byte order, bytes per address, "
        "alignment) class of the regenerated cpu_list, addresses at 0, 64 KiB page boundaries, 2^31, top of memory, "
        "odd addresses, symbols, multi-value writes; page straddling reads (22 CPUs with alignment 1 / 2: 16/32-bit "
        "data whose first 1..3 bytes lie in a 64 KiB page that holds nothing and the rest in the next page, which "
        "does; before / after the writes and after the front page got a byte far away).  A case is non-trivial when it has >= 2 words; distinct = "
        "distinct protocol lines.  Oracle: structured well-formed sessions judged by a reference image written from "
        "the property (round trip, byte order, address units, frame by dumping windows around every write and the "
        "page boundaries before and after), in process and through the sanitised naken_util executable; -bin "
        "-address, -set_pc, asm then print/disasm, write16 then step on the MSP430 simulator.")
MODELLED = ("UtilContext::get_num/get_hex/get_token/get_address/get_range(int)/print8/16/32/write8/16/32/disasm(token)/"
            "disasm(start,end), Memory::in_use/get_page_address_min/max, assemble_code (copy loop, org), read_bin, "
            "command loop of main() (trim, split, is_command_valid, asm mode, set/step/reset/registers/info), "
            "SimulateMsp430 via Msp430.Sim")
NOT_MODELLED = ("the assembler behind `asm` (its image is taken from the real assembler and checked), the disassembler "
                "text behind `disasm` (C01/C08: the byte range handed to disasm_range is modelled), run/call/break/push/"
                "speed/dump_ram/clear, simulators other than the MSP430, readers other than read_bin (C03), readline")
ASSUMPTIONS = ["String::as_int = strtol(text, 0, 0) is modelled for the glibc behaviour (base 0, saturation at LONG_MAX)",
               "lines are shorter than the 1023 byte fgets buffer of main()"]
TRUSTED_BASE = ["tools/gen_util.py transcript parser (print rows by column position) and reference image",
                "harness/cmd_util.h copy of the body of main()'s command loop (the real loop is exercised by the "
                "process-level oracle runs)"]

TOP = 0xffffffff


def impl(ctx, lines):
    return nvlib.run_lines(ctx.harness, lines, timeout=120)


def both(ctx, lines):
    return impl(ctx, lines), nvlib.run_lines(ctx.driver, lines, env=dict(os.environ), timeout=120)


def cpus(ctx):
    cl = gen_image.load_cpu_list(nvlib.LEAN)
    seen, reps = set(), []
    for c in cl:
        k = (c["big"], c["bpa"], c["align"])
        if k not in seen:
            seen.add(k)
            reps.append(c)
    names = {c["name"]: c for c in cl}
    for n in ["msp430", "68000", "avr8", "pic14", "dspic", "propeller", "tms340", "ebpf", "6502", "riscv"]:
        if n in names and names[n] not in reps:
            reps.append(names[n])
    return reps, names


# ---------------------------------------------------------------------------
# stream: numbers, addresses, ranges
# ---------------------------------------------------------------------------

JUNK = ["z", "g", "x", "h", "H", "X", "_", ".", ",", "$", "+", "0x", "q", "-", "--", "h5", "hh", " h", "\t"]


def gen_unum(ctx):
    rng = ctx.rng
    texts_n, texts_r = [], []
    vals = list(G.BOUNDARY_VALUES) + [rng.getrandbits(rng.choice([4, 8, 16, 31, 32])) for _ in range(ctx.scale(60, 600))]
    for v in vals:
        for k in ("dec", "0x", "h"):
            t = G.spell(rng, v, (k,))
            texts_n += [t, " " * rng.randrange(1, 4) + t, t + " 7", t + " " + G.spell(rng, rng.choice(vals)),
                        t + rng.choice(JUNK), t + rng.choice(JUNK) + " 5", t + "  "]
        texts_n.append("-%d" % v)
        texts_n.append("-%d 1" % v)
    # long digit strings: no bound on the length
    for _ in range(ctx.scale(60, 600)):
        n = rng.choice([9, 10, 11, 12, 16, 20, 33, 40])
        texts_n.append("".join(rng.choice("0123456789") for _ in range(n)))
        texts_n.append("0x" + "".join(rng.choice("0123456789abcdefABCDEF") for _ in range(n)))
        texts_n.append("".join(rng.choice("0123456789abcdefABCDEF") for _ in range(n)) + "h" + rng.choice(["", " 1", " 2h"]))
    texts_n += ["", " ", "h", "0x", "-", "--5", "12-5", "0x12h34", "ffh", "FFh x", "0X1F", "1FH", "10h 20h", "10 20h",
                "0x 5", "x", "0xg", "1 2 3", "-h", "1-h", "-10h", "0x-", "9999999999", "4294967296", "4294967295",
                "-4294967296", "0x100000000", "100000000h", "00000000000000000000001", "0x00000000000000000001"]
    # ranges
    avals = [0, 1, 2, 0x10, 0xff, 0x100, 0x7fff, 0x8000, 0xffff, 0x10000, 0x12345, 0x7fffffff, 0x80000000, TOP]
    for _ in range(ctx.scale(150, 1500)):
        a, b = rng.choice(avals), rng.choice(avals)
        sa, sb = G.spell(rng, a), G.spell(rng, b)
        sep = rng.choice(["-", "-", " - ", " -", "- ", "--", " "])
        form = rng.randrange(8)
        if form == 0: t = sa
        elif form == 1: t = sa + "-"
        elif form == 2: t = "-" + sb
        elif form == 3: t = sa + sep + sb
        elif form == 4: t = sa + sep + sb + rng.choice([" 5", "-", "-3", " x"])
        elif form == 5: t = sa + rng.choice(JUNK) + "-" + sb
        elif form == 6: t = sa + "-" + sb + rng.choice(JUNK)
        else: t = " " * rng.randrange(3) + sa + " " * rng.randrange(3) + "-" + " " * rng.randrange(3) + sb + " " * rng.randrange(2)
        texts_r.append(t)
    texts_r += ["", "-", " - ", "--", "- -", "1-2-3", "zz", "10-zz", "zz-10", "0x10-20h", "5-3", "3-3"]
    lines = []
    for t in dict.fromkeys(texts_n):
        lines.append("unum n " + nvlib.hexs(t))
    for t in dict.fromkeys(texts_n[::3]):
        lines.append("unum a%d %s" % (rng.choice([1, 2, 4, 8]), nvlib.hexs(t)))
    for t in dict.fromkeys(texts_r):
        lines.append("unum r%d %s" % (rng.choice([1, 2, 4, 8]), nvlib.hexs(t)))
    return lines


# ---------------------------------------------------------------------------
# stream: sessions (correspondence: anything goes)
# ---------------------------------------------------------------------------

ASM_SNIPPETS = {
    "*": [".db 1, 2, 3", ".dw 0x1234, 0xabcd", ".db 0x55\n.org %(far)s\n.db 0xaa", "; nothing", "foo bar baz",
          ".dw 1\n.dw 2\n.dw 3"],
    "msp430": ["mov.w #0x1234, r5", "nop\nnop", "add.w r4, r5\nmov.w #7, r6", "mov.w #0x55aa, r7\nadd.w r7, r7", "ret"],
    "avr8": ["nop", "ldi r16, 5\nnop"],
    "68000": ["nop", "rts\nnop"],
    "6502": ["nop", "lda #5"],
}

SYM_NAMES = ["main", "tab", "L1", "loop_2", "ffh_", "x9", "deadbeef_",
             # names made only of hexadecimal letters (with and without a final h): a symbol, never a number
             "dead", "face", "bad", "each", "cafe", "beach", "fab"]


REGION_BASES = [0, 0x10, 0x100, 0x200, 0x7ff0, 0x8000, 0xfff0, 0xffff, 0x10000, 0x1fff8, 0x20000, 0x7ffffff0, 0x80000000,
                0xfffffe00, 0xffffffc0, TOP]


def addr_pool(rng, bpa, base=None):
    """addresses (in units) of one session: all within a few hundred bytes of one boundary, so that no listing and
    no open range gets long; the boundary (in BYTE addresses: 64 KiB pages, 2^31, top) is hit from both sides"""
    if base is None:
        base = rng.choice(REGION_BASES)
    top_units = TOP // bpa
    bu = base // bpa
    offs = [-0x21, -0x10, -9, -4, -3, -2, -1, 0, 1, 2, 3, 4, 5, 7, 8, 0xf, 0x10, 0x11, 0x1f, 0x20, 0x40, 0x7f]
    pool = sorted(set(min(top_units, max(0, bu + o)) for o in offs))
    return pool


def gen_corr_session(rng, cpu, big_lists=False):
    bpa = cpu["bpa"]
    base = rng.choice(REGION_BASES)
    pool = addr_pool(rng, bpa, base)
    low_region = base < 0x100000
    syms = {}
    if rng.random() < 0.6:
        for n in rng.sample(SYM_NAMES, rng.randrange(1, 4)):
            syms[n] = rng.choice(pool)
    byval = {}
    for n, v in syms.items():
        byval.setdefault(v, []).append(n)
    lines = []
    asm_blocks = []          # (index of the 'asm' line, source text)
    nops = rng.randrange(4, 14)
    for _ in range(nops):
        k = rng.random()
        a = rng.choice(pool)
        if k < 0.32:
            width = rng.choice([8, 16, 32])
            nv = rng.choice([0, 1, 1, 2, 3, 5, 17]) if not big_lists else rng.choice([33, 64, 100])
            vals = [rng.choice(G.BOUNDARY_VALUES + [rng.getrandbits(32)]) for _ in range(nv)]
            t = G.op_text(rng, ("write", width, a, vals), byval)
            if rng.random() < 0.15:
                t += rng.choice([" 1z", " zz", " 0x", " h", "  ", " 5-3", " -h", " 12h3"])
            lines.append(t)
        elif k < 0.62:
            width = rng.choice([8, 16, 32])
            b = rng.choice([None, "open", a + rng.choice([0, 1, 2, 7, 8, 15, 16, 17, 40]), max(0, a - 1), rng.choice(pool)])
            t = G.op_text(rng, ("print", width, a, b), byval)
            if rng.random() < 0.1:
                t += rng.choice(["z", " 5", "-", " x"])
            lines.append(t)
        elif k < 0.74:
            b = rng.choice([None, "open", a + rng.choice([0, 1, 2, 9]), rng.choice(pool)])
            lines.append(G.op_text(rng, ("disasm", 8, a, b), byval))
        elif k < 0.80:
            lines.append(rng.choice(["disasm", "info", "disasm", "info "]))
        elif k < 0.88 or not low_region:
            lines.append(rng.choice(["foo", "print", "write", "write16", "registers 5", "info 3", "disasm  ", "?", "",
                                     "  ", "\tprint 0x10-0x11", "print\t0", "prin 0", "write  ", "print32", "symbols x",
                                     "step 1", "Print 0-3"]))
        else:
            org = rng.choice([None, rng.choice(pool), rng.choice(pool)])
            snips = ASM_SNIPPETS["*"] + ASM_SNIPPETS.get(cpu["name"], [])
            src = rng.choice(snips) % {"far": hex((org if org is not None else base // bpa) + rng.choice([0x20, 0x100]))}
            lines.append("asm" if org is None else "asm " + rng.choice([hex(org), str(org)]))
            asm_blocks.append((len(lines) - 1, src))
            lines += src.split("\n") + [""]
            if rng.random() < 0.5:
                lines.append(rng.choice(["disasm", "info", "print %s" % hex(org or 0)]))
    if cpu["name"] == "msp430" and rng.random() < 0.7:
        pc = rng.choice([p for p in [0x200, 0x1000, 0xf800, 0xfffc, 0xfffe, 0x7ffe] if abs(p - base) < 0x10000] or [0x200]) \
            if low_region else None
        if pc is not None:
            words = rng.choice([[0x4035, rng.getrandbits(16)], [0x4303, 0x4303], [0x5405, 0x4303], [0x4036, 0xbeef, 0x5606]])
            lines.append("write16 %s %s" % (hex(pc), " ".join(G.spell(rng, w) for w in words)))
            lines.append(rng.choice(["set pc=%s", "set PC=%s", "set r0=%s", "set  pc = %s", "set pc=%s "]) % rng.choice([hex(pc), str(pc)]))
            if rng.random() < 0.4:
                lines.append("set r%d=%s" % (rng.randrange(4, 16), rng.choice(["0x55", "077", "-1", "65536", "0x", "9"])))
            lines += ["registers", "step", "reg"]
            if rng.random() < 0.5:
                lines += ["step", "registers"]
            if rng.random() < 0.3:
                lines += ["set r99=1", "set foo", "set c=1", "reg", "reset", "reg"]
            lines.append("print16 %s-%s" % (hex(pc), hex(pc + 7)))
    return syms, lines, asm_blocks


def resolve_asm(ctx, sessions):
    """phase 1: ask the real assembler (harness `uasm`) for the image of every asm block, following the org
    bookkeeping of main(); returns the asm-result words per session"""
    results = [[] for _ in sessions]
    orgs = [0] * len(sessions)
    maxb = max([len(s["asm"]) for s in sessions] + [0])
    for rnd in range(maxb):
        q, who = [], []
        for i, s in enumerate(sessions):
            if rnd < len(s["asm"]):
                idx, src = s["asm"][rnd]
                line = s["lines"][idx].strip()
                arg = line[3:].strip()
                if arg:
                    try:
                        orgs[i] = int(arg, 0) & TOP
                    except ValueError:
                        orgs[i] = 0
                code = "".join(l.strip("\r\n\t ") + "\n" for l in src.split("\n"))
                q.append("uasm %s %x %s" % (s["cpu"]["name"], orgs[i], nvlib.hexs(code)))
                who.append(i)
        ans = impl(ctx, q)
        for i, a in zip(who, ans):
            results[i].append(a if (a == "err" or a.startswith("ok:")) else "err")
            if a.startswith("ok:"):
                _, bpa, low, high, _ = a.split(":")
                low, high = int(low, 16), int(high, 16)
                if low <= high:
                    orgs[i] = ((high + 1) & TOP) // int(bpa)
    return results


def session_line(s, asm_results):
    syms = ",".join("%s=%x" % kv for kv in s["syms"].items()) or "-"
    script = "".join(l + "\n" for l in s["lines"])
    return " ".join(["util", s["cpu"]["name"], syms, nvlib.hexs(script)] + asm_results)


def parse_impl(s, raw):
    if raw.startswith("DIED") or raw in ("MISSING", "bad-op", "bad-cpu"):
        return raw
    return G.parse_harness_transcript(s["lines"], nvlib.unhex(raw).decode("latin-1"))


REGRESSION_SESSIONS = [
    ("msp430", {}, "write 30h 7 8\nwrite 0 10 20h\nprint 0-0x31\nprint 0x30-\nprint 2fh-30h"),
    ("avr8", {"main": 0x10, "tab": 0x12}, "write main 1 2 3 4\nwrite16 tab 0xbeef 10 20h\nprint main-tab\nprint16 tab\ndisasm main-tab\n"
                                          "print 0x10-0x11\nprint 0x10-\ninfo"),
    ("avr8", {}, "asm 0x9000\nnop\nldi r16, 5\n\ndisasm\nasm\nldi r17, 2\n\ndisasm 0x9000-0x9002\nprint16 0x9000-0x9002\ninfo"),
    ("avr8", {}, "write 0x40000000 1 2\nwrite16 0x7fffffff 3\ninfo"),
    ("propeller", {}, "write32 0x3fffffff 0x11223344\nprint32 0x3fffffff\nwrite 0x20000000 1"),
    ("ps2_ee", {}, "write32 0x1004 0x12345678\nprint32 0x1004-0x1007\nwrite32 0x1002 1\nprint32 0x1002-0x1005"),
    ("riscv64", {}, "write32 0x1004 0x12345678\nprint32 0x1004-0x1007"),
    ("68000", {}, "write16 0x20 0x1234 0xabcd\nprint16 0x20-0x23\nprint 0x20-0x23\nwrite32 0x30 0x12345678\nprint 0x30-0x33\nwrite16 0x41 7"),
    ("msp430", {}, "asm\n; nothing\n\nasm\nnop\n\ninfo\nprint16 0-1"),
    ("msp430", {}, "write 0xffffffff 1\ndisasm\nwrite 0xfffffffc 1 2 3 4\nprint 0xfffffffc-0xffffffff\nprint16 0xfffffffe-0xffffffff\ndisasm"),
    ("msp430", {}, "write 0 0x80000000 ffffffffh 0xFFFFFFFF -1 4294967295 4294967296\nprint 0-5\nwrite32 8 0x80000000 ffffffffh -1\nprint32 8-19"),
]


def correspondence(ctx, corr):
    rng = ctx.rng
    reps, names = cpus(ctx)
    # 1. numbers / addresses / ranges
    ul = gen_unum(ctx)
    cp = os.path.join(nvlib.VERIF, "corpus", ID, "lines.txt")
    if os.path.exists(cp):
        ul = [l.strip() for l in open(cp) if l.strip() and not l.startswith("#")] + ul
    h, d = both(ctx, ul)
    kinds = {}
    for l, a, b in zip(ul, h, d):
        kinds[a.split(" ")[0]] = kinds.get(a.split(" ")[0], 0) + 1
        if a != b:
            corr["disagreements"].append({"line": l + "   # " + repr(nvlib.unhex(l.split(" ")[2]).decode("latin-1")), "impl": a, "model": b})
    corr["cases"] += len(ul)
    corr["streams"]["unum"] = {"lines": len(ul), "impl_answer_kinds": kinds}
    # 2. sessions; first the scripts of the defects that were repaired (fix: commits C19-1 .. C19-9)
    sessions = []
    for cpuname, syms, script in REGRESSION_SESSIONS:
        lines = script.split("\n")
        asm, i = [], 0
        words = G.script_words(lines)
        while i < len(words):
            if words[i] == "asm":
                j = i + 1
                while j < len(lines) and lines[j].strip() != "":
                    j += 1
                asm.append((i, "\n".join(lines[i + 1:j])))
                i = j
            i += 1
        sessions.append({"cpu": names[cpuname], "syms": syms, "lines": lines, "asm": asm})
    per = ctx.scale(14, 120)
    for cpu in reps:
        for i in range(per):
            syms, lines, asm = gen_corr_session(rng, cpu, big_lists=(i % 11 == 10))
            sessions.append({"cpu": cpu, "syms": syms, "lines": lines, "asm": asm})
    for i in range(ctx.scale(40, 400)):      # the simulator sessions run on the MSP430 only
        syms, lines, asm = gen_corr_session(rng, names["msp430"])
        sessions.append({"cpu": names["msp430"], "syms": syms, "lines": lines, "asm": asm})
    for s in straddle_sessions(ctx, names):           # page straddling reads (model vs code)
        sessions.append({"cpu": s["cpu"], "syms": {}, "lines": s["lines"], "asm": []})
    res = resolve_asm(ctx, sessions)
    sl = [session_line(s, r) for s, r in zip(sessions, res)]
    raw, model = both(ctx, sl)
    cmds, events, bycpu = {}, {}, {}
    for s, l, a, b in zip(sessions, sl, raw, model):
        pa = parse_impl(s, a)
        bycpu[s["cpu"]["name"]] = bycpu.get(s["cpu"]["name"], 0) + 1
        for w in G.script_words(s["lines"]):
            cmds[w or "(asm text)"] = cmds.get(w or "(asm text)", 0) + 1
        for w in pa.replace("|", " ").split():
            k = re.match(r"[a-zA-Z]+", w)
            k = k.group(0) if k else w
            events[k] = events.get(k, 0) + 1
        if pa != b:
            # narrow down to the first command that differs
            ia, ib = pa.split(" | "), b.split(" | ")
            j = next((k for k in range(min(len(ia), len(ib))) if ia[k] != ib[k]), min(len(ia), len(ib)))
            corr["disagreements"].append({
                "line": l, "script": s["lines"], "cpu": s["cpu"]["name"], "first_difference_at_line": j,
                "command": s["lines"][j] if j < len(s["lines"]) else None,
                "impl": ia[j] if j < len(ia) else None, "model": ib[j] if j < len(ib) else None})
    corr["cases"] += len(sl)
    corr["streams"]["util"] = {"sessions": len(sl), "per_cpu": bycpu, "commands": cmds, "event_kinds": events,
                               "asm_blocks": sum(len(s["asm"]) for s in sessions)}
    corr["distinct_nontrivial"] = len(set(ul)) + len(set(sl))
    corr["samples"] = [{"cpu": sessions[i]["cpu"]["name"], "script": sessions[i]["lines"][:6], "impl": parse_impl(sessions[i], raw[i])[:300],
                        "model": model[i][:300]} for i in range(0, len(sessions), max(1, len(sessions) // 4))][:4]


# ---------------------------------------------------------------------------
# oracle: the property itself on the real code
# ---------------------------------------------------------------------------

MSP_INSTR = [("mov.w #0x%04x, r5", lambda v: [0x4035, v]), ("mov.w #0x%04x, r6", lambda v: [0x4036, v])]


def gen_oracle_session(rng, cpu, with_sim=False):
    """structured, well-formed session + expectations of the reference.
    returns dict(cpu, syms, lines, asm, expect=[(line index, kind, data)])"""
    bpa = cpu["bpa"]
    pool = addr_pool(rng, bpa)
    syms = {}
    for n in rng.sample(SYM_NAMES, rng.randrange(0, 3)):
        syms[n] = rng.choice(pool)
    byval = {}
    for n, v in syms.items():
        byval.setdefault(v, []).append(n)
    lines, expect, asm = [], [], []

    def fits(a_units, nbytes):
        return a_units * bpa + nbytes <= TOP + 1

    def dump_around(a_units, nbytes):
        """print windows that cover the written range and its surroundings: the frame check"""
        start_b = a_units * bpa
        lo = max(0, start_b - 24) // bpa
        hi = min(TOP, start_b + nbytes + 24) // bpa
        if hi * bpa + bpa - 1 >= TOP:      # the byte at 0xffffffff cannot be listed (known finding): stop below it
            hi = (TOP - bpa) // bpa
        ops = []
        if hi > lo:
            ops.append(("print", 8, lo, hi))
        for pb in (0xffff, 0x10000, 0x1ffff):
            if abs(pb - start_b) < 0x200 and pb // bpa > 2:
                ops.append(("print", 8, pb // bpa - 2, pb // bpa + 2))
        return ops

    def add_print(op):
        lines.append(G.op_text(rng, op, byval))
        expect.append((len(lines) - 1, "print-op", op))

    for _ in range(rng.randrange(3, 8)):
        width = rng.choice([8, 16, 32])
        a = rng.choice(pool)
        if rng.random() < 0.3:
            a = max(0, a + rng.choice([-1, 1, 2, 3]))
        nv = rng.choice([1, 1, 2, 3, 4, 9, 17, 40])
        while nv > 1 and not fits(a, nv * G.NB[width]):
            nv -= 1
        if not fits(a, nv * G.NB[width]):
            continue
        vals = [rng.choice(G.BOUNDARY_VALUES + [rng.getrandbits(32), rng.getrandbits(8)]) for _ in range(nv)]
        windows = dump_around(a, nv * G.NB[width])
        for op in windows:
            add_print(op)
        lines.append(G.op_text(rng, ("write", width, a, vals), byval))
        aligned = (a * bpa) % G.NB[width] == 0
        expect.append((len(lines) - 1, "write", (width, a, vals, aligned)))
        for op in windows:
            add_print(op)
        # read back in the width of the write and in the other widths
        last_unit = (a * bpa + nv * G.NB[width] - 1) // bpa
        if last_unit * bpa + bpa - 1 < TOP:
            for w2 in rng.sample([8, 16, 32], 2) + [width]:
                add_print(("print", w2, a, last_unit if last_unit > a else None))
        k = rng.random()
        if k < 0.3:
            b = rng.choice(["open", min(TOP // bpa, a + rng.randrange(0, 5)), None])
            lines.append(G.op_text(rng, ("disasm", 8, a, b), byval))
            expect.append((len(lines) - 1, "disasm-op", (a, b)))
        elif k < 0.45:
            lines.append("disasm")
            expect.append((len(lines) - 1, "disasm-all", None))
        elif k < 0.6:
            lines.append("info")
            expect.append((len(lines) - 1, "info", None))
        elif k < 0.7:
            add_print(("print", rng.choice([8, 16, 32]), a, "open"))
    return {"cpu": cpu, "syms": syms, "lines": lines, "asm": asm, "expect": expect, "ref_syms": syms}


# ---------------------------------------------------------------------------
# page straddling reads: the first byte(s) of a 16/32-bit datum in a 64 KiB page that holds nothing, the rest in
# the next page, which holds data (Memory allocates pages on demand; a multi-byte read must not stop at the first one)
# ---------------------------------------------------------------------------

STRADDLE_NAMES = ["6502", "z80", "8051", "stm8", "6809", "1802", "xtensa", "65816", "msp430", "68000", "pdp11", "tms9900",
                  "tms340", "sh4", "thumb", "pic18", "avr8", "pic14", "lc3", "cp1610", "dspic", "unsp"]
STRADDLE_FIXED = [
    ("68000", ["write16 0x10000 0x1234", "print32 0xfffe-0xfffe", "print 0xfffe-0x10001"]),
    ("6502", ["write 0x20000 0xab", "print16 0x1ffff-0x1ffff", "print32 0x1fffd", "print32 0x1fffe", "print32 0x1ffff"]),
    ("msp430", ["write16 0x30000 0xbeef", "print32 0x2fffe-0x2fffe", "print16 0x2fffe-0x30001"]),
]


def straddle_cpus(names):
    return [names[n] for n in STRADDLE_NAMES if n in names and names[n]["align"] <= 2 and names[n]["bpa"] <= 2]


def straddle_starts(cpu, boundary):
    """(width, first byte) of the data that begin in the last 1..3 bytes of the page in front of `boundary` and end
    behind it, as far as the alignment rule of the CPU admits them"""
    bpa, align = cpu["bpa"], cpu["align"]
    out = []
    for width, back in ((16, 1), (32, 1), (32, 2), (32, 3)):
        b = boundary - back
        if b % bpa == 0 and b % min(align, G.NB[width]) == 0:
            out.append((width, b))
    return out


def gen_straddle_session(rng, cpu, boundary=None):
    """well-formed session: nothing is ever written into the page in front of the boundary (until the control step at
    the end), data are written at the start of the page behind it, and every straddling datum is listed - before the
    first write (all zero), after every write, and once more after a byte far away in the front page was written"""
    bpa = cpu["bpa"]
    if boundary is None:
        boundary = 0x10000 * rng.choice([1, 1, 1, 2, 3, 0x10, 0x100, 0x8000, 0xffff])
    lines, expect = [], []
    starts = straddle_starts(cpu, boundary)

    def add_print(op):
        lines.append(G.op_text(rng, op, {}))
        expect.append((len(lines) - 1, "print-op", op))

    def look():
        for width, b in starts:
            a = b // bpa
            form = rng.randrange(4)
            add_print(("print", width, a, [a, None, a + rng.choice([1, 2, 3, 8]), a + 1][form]))
        if rng.random() < 0.5:
            add_print(("print", 8, (boundary - 4) // bpa, (boundary + 7) // bpa))

    if rng.random() < 0.4:
        look()
    for k in range(rng.randrange(1, 4)):
        width = rng.choice([8, 16, 32])
        off = rng.choice([0, 0, 0, 0, 4, 8]) if (width > 8 or bpa > 1) else rng.choice([0, 0, 0, 1, 2, 3])
        nv = rng.choice([1, 1, 2, 3])
        mask = (1 << width) - 1
        vals = [((rng.getrandbits(32) | 0x01010101) & mask) for _ in range(nv)]
        a = (boundary + off) // bpa
        lines.append(G.op_text(rng, ("write", width, a, vals), {}))
        expect.append((len(lines) - 1, "write", (width, a, vals, True)))
        look()
    # control: the front page becomes allocated by a byte far from the boundary; the same data must be listed again
    far = (boundary - rng.choice([0x8000, 0x100, 0xfff0])) // bpa
    lines.append(G.op_text(rng, ("write", 8, far, [0x77]), {}))
    expect.append((len(lines) - 1, "write", (8, far, [0x77], True)))
    look()
    return {"cpu": cpu, "syms": {}, "lines": lines, "asm": [], "expect": expect, "ref_syms": {}, "class": "straddle"}


def fixed_straddle_sessions(names):
    out = []
    for cpuname, script in STRADDLE_FIXED:
        cpu = names[cpuname]
        expect = []
        for i, l in enumerate(script):
            w = l.split()
            if w[0].startswith("write"):
                width = int(w[0][5:] or 8)
                expect.append((i, "write", (width, int(w[1], 16) // cpu["bpa"], [int(x, 16) for x in w[2:]], True)))
            else:
                width = int(w[0][5:] or 8)
                a, _, b = w[1].partition("-")
                expect.append((i, "print-op", ("print", width, int(a, 16), int(b, 16) if b else None)))
        out.append({"cpu": cpu, "syms": {}, "lines": list(script), "asm": [], "expect": expect, "ref_syms": {}, "class": "straddle"})
    return out


def straddle_sessions(ctx, names):
    rng = ctx.rng
    out = fixed_straddle_sessions(names)
    for cpu in straddle_cpus(names):
        out.append(gen_straddle_session(rng, cpu, 0x10000))
        for _ in range(ctx.scale(1, 12)):
            out.append(gen_straddle_session(rng, cpu))
    return out


def judge_session(s, per_cmd, orc, engine):
    """per_cmd: list of event-word lists, one per script line.  Replays the reference along the script."""
    cpu = s["cpu"]
    bpa = cpu["bpa"]
    ref = G.RefSession(cpu, s["syms"])
    script = "\n".join(s["lines"])

    def fail(cls, line, expected, observed, what):
        orc["failures"].append({
            "sig": "C19:%s:%s:%s" % (cls, cpu["name"], line.strip()), "input": script, "expected": str(expected)[:400],
            "observed": str(observed)[:400], "what": what + " [%s]" % engine,
            "replay": {"cpu": cpu["name"], "syms": s["syms"], "lines": s["lines"], "engine": engine}})

    for idx, kind, data in s["expect"]:
        if idx >= len(per_cmd):
            fail("transcript", s["lines"][idx], "output for every line", "%d of %d" % (len(per_cmd), len(s["lines"])),
                 "naken_util stopped answering")
            return
        got = per_cmd[idx]
        line = s["lines"][idx]
        orc["cases"] += 1
        if kind == "skip":
            continue
        if kind == "write":
            width, a, vals, aligned = data
            exp = ["w%d@%x" % (len(vals), a)]
            if got == ["unal"] and not aligned:
                orc["stats"]["unaligned_refused"] = orc["stats"].get("unaligned_refused", 0) + 1
                continue                       # refusing a misaligned write is allowed; the image must stay as it is
            if got != exp:
                fail("write", line, exp, got, "write did not report the values/address it was given")
            if got == ["unal"] or "bad" in got:
                continue                       # refused: nothing was stored
            ref.do_write(width, a, vals)
            orc["stats"]["writes"] = orc["stats"].get("writes", 0) + 1
        elif kind == "print-op":
            _, width, a, b = data
            start, count = ref.print_span(width, a, b)
            if start + count * G.NB[width] > TOP + 1 or count > 4096:
                continue
            exp = ref.listing(width, start, count)
            if got == ["unal"] and start % G.NB[width] != 0:
                continue
            if got != exp:
                # which aspect is wrong?
                gv, ev = [w for w in got if w[0] == "v"], [w for w in exp if w[0] == "v"]
                gr, er = [w for w in got if w[0] == "r"], [w for w in exp if w[0] == "r"]
                cls = "print-count" if len(gv) != len(ev) else "print-values" if gv != ev else "print-labels" if gr != er else "print"
                if start + count * G.NB[width] == TOP + 1 and got == exp[:len(got)]:
                    # a listing that ends at 0xffffffff: the 32-bit end bound wraps to 0, so the loop stops one value
                    # early (explicit range) or never starts (default length: `print a` with a + 128 = 2^32)
                    cls = "print-top"
                fail(cls, line, " ".join(exp), " ".join(got), "listing differs from the image the commands built")
            orc["stats"]["prints"] = orc["stats"].get("prints", 0) + 1
        elif kind == "disasm-op":
            a, b = data
            sb = a * bpa
            eb = sb if b is None else ref.high() if b == "open" else b * bpa
            if engine == "harness":
                exp = ["d%x-%x" % (sb, eb)]
                if got != exp:
                    fail("disasm-range", line, exp, got, "disasm handed another byte range to the disassembler")
            orc["stats"]["disasm"] = orc["stats"].get("disasm", 0) + 1
        elif kind == "disasm-all":
            if engine == "harness":
                rngs = [tuple(int(x, 16) for x in w[1:].split("-")) for w in got if w[0] == "d"]
                bad = "interr" in got or not all(any(lo <= x <= hi for lo, hi in rngs) for x in ref.written)
                if bad and ref.written and ref.low() == TOP:
                    fail("top-sentinel", line, "a range covering ffffffff", got,
                         "an image whose only byte is at 0xffffffff counts as empty (low_address sentinel)")
                elif bad and ref.written:
                    fail("disasm-all", line, "ranges covering %x..%x" % (ref.low(), ref.high()), got,
                         "disasm without a range does not cover the image")
        elif kind == "info":
            if ref.written:
                exp = ["info=%x-%x" % (ref.low() // bpa, ref.high() // bpa)]
                if got != exp:
                    fail("info", line, exp, got, "low/high address of the image")


def run_process(ctx, s, extra_args=None, timeout=60):
    exe = ctx.repo["naken_util"]
    script = "".join(l + "\n" for l in s["lines"]) + "quit\n"
    r = nvlib.run_util(exe, ["-" + s["cpu"]["name"]] + list(extra_args or []), script, timeout=timeout, cwd=ctx.tmpdir())
    return r


def oracle(ctx, orc, focus=None):
    rng = ctx.rng
    reps, names = cpus(ctx)
    orc["stats"] = {}
    # ---- A. structured sessions, in process ----
    sessions = []
    for cpu in reps:
        for _ in range(ctx.scale(10, 80)):
            sessions.append(gen_oracle_session(rng, cpu))
    straddle = straddle_sessions(ctx, names)
    sessions += straddle
    orc["stats"]["straddle_sessions"] = len(straddle)
    orc["stats"]["straddle_reads"] = sum(1 for s in straddle for (_, k, d) in s["expect"] if k == "print-op" and d[1] > 8)
    lines = [session_line(s, []) for s in sessions]
    raw = impl(ctx, lines)
    for s, a in zip(sessions, raw):
        if a.startswith("DIED") or a in ("MISSING", "bad-op", "bad-cpu"):
            orc["failures"].append({"sig": "C19:crash:%s:%s" % (s["cpu"]["name"], a[:60]), "input": "\n".join(s["lines"]),
                                    "expected": "a transcript", "observed": a, "what": "the command layer died",
                                    "replay": {"cpu": s["cpu"]["name"], "syms": s["syms"], "lines": s["lines"], "engine": "harness"}})
            orc["cases"] += 1
            continue
        text = nvlib.unhex(a).decode("latin-1")
        parts = text.split("@@\n")[1:]
        words = G.script_words(s["lines"])
        per_cmd = [G.parse_command_output(w, p) for w, p in zip(words, parts)]
        judge_session(s, per_cmd, orc, "harness")
    # ---- B. the same kind of sessions through the real executable (the real command loop of main()) ----
    # (symbols cannot be given to the executable without an ELF file; the disassemblers of the other CPUs are C08's
    # business — several do not return on arbitrary bytes — so `disasm` stays in the sessions of the MSP430 only)
    def proc_view(s):
        if s["cpu"]["name"] == "msp430":
            return s
        keep = [i for i, l in enumerate(s["lines"]) if not l.startswith("disasm")]
        remap = {old: new for new, old in enumerate(keep)}
        return dict(s, lines=[s["lines"][i] for i in keep],
                    expect=[(remap[i], k, d) for (i, k, d) in s["expect"] if i in remap])
    psessions = [proc_view(s) for s in sessions if not s["syms"] and s.get("class") != "straddle"]
    psessions = psessions[:: max(1, len(psessions) // ctx.scale(40, 300))][:ctx.scale(40, 300)]
    # the straddling reads through the real executable: the fixed ones and one or two per CPU
    seen_cpu = {}
    for s in straddle:
        n = seen_cpu.get(s["cpu"]["name"], 0)
        if n < ctx.scale(2, 6):
            seen_cpu[s["cpu"]["name"]] = n + 1
            psessions.append(s)
    from concurrent.futures import ThreadPoolExecutor
    with ThreadPoolExecutor(8) as ex:
        outs = list(ex.map(lambda s: run_process(ctx, s), psessions))
    for s, r in zip(psessions, outs):
        if r["rc"] != 0:
            orc["failures"].append({"sig": "C19:process-exit:%s:rc=%d" % (s["cpu"]["name"], r["rc"]), "input": "\n".join(s["lines"]),
                                    "expected": "exit 0", "observed": (r["err"] or r["out"])[-400:], "what": "naken_util died",
                                    "replay": {"cpu": s["cpu"]["name"], "syms": {}, "lines": s["lines"], "engine": "process"}})
            orc["cases"] += 1
            continue
        per_cmd, n = G.parse_process_transcript(s["lines"], r["out"])
        judge_session(s, per_cmd, orc, "process")
    orc["stats"]["process_sessions"] = len(psessions)
    # ---- C. special runs ----
    special_asm(ctx, orc, names)
    special_sim(ctx, orc, names)
    special_bin(ctx, orc, reps)
    special_top(ctx, orc, names)
    orc["distinct_nontrivial"] = len(set(lines))
    orc["samples"] = [{"cpu": sessions[i]["cpu"]["name"], "script": sessions[i]["lines"][:5]} for i in range(0, len(sessions), max(1, len(sessions) // 4))][:4]


def _proc(ctx, cpu, script_lines, args=None):
    s = {"cpu": cpu, "lines": script_lines}
    r = run_process(ctx, s, args)
    per_cmd, _ = G.parse_process_transcript(script_lines, r["out"])
    return r, per_cmd


def special_asm(ctx, orc, names):
    """asm, then print / disasm: the bytes of the source at the addresses of the source; everything else unchanged"""
    rng = ctx.rng
    for cpuname in ["msp430", "avr8", "68000", "6502", "propeller"]:
        cpu = names.get(cpuname)
        if not cpu:
            continue
        bpa, big = cpu["bpa"], cpu["big"]
        for variant in range(ctx.scale(3, 12)):
            org = rng.choice([0x10, 0x200, 0x1000, 0x8000 // bpa, 0xfff8 // bpa])
            b1 = [rng.getrandbits(8) for _ in range(rng.choice([2, 4, 6]) * bpa)]
            gap = 4 if variant == 0 else rng.choice([0, 0, 4, 0x20])      # every run probes the known gap finding
            b2 = [rng.getrandbits(8) for _ in range(2 * bpa)] if gap else []
            w3 = [rng.getrandbits(16) for _ in range(2 * max(1, bpa // 2))]
            src = [".db " + ", ".join(str(x) for x in b1)]
            org2 = org + len(b1) // bpa + gap
            if gap:
                src += [".org 0x%x" % org2, ".db " + ", ".join(str(x) for x in b2)]
            # a second block without an address continues behind the first one
            src2 = [".dw " + ", ".join("0x%x" % x for x in w3)]
            end1 = (org2 + len(b2) // bpa) if gap else org + len(b1) // bpa
            pre = [0x11, 0x22, 0x33, 0x44, 0x55, 0x66, 0x77, 0x88]
            lo_u = max(0, org - 4)
            fill = [0xa0 + (i & 15) for i in range((end1 - lo_u + 12) * bpa)]
            lines = []
            for off in range(0, len(fill), 64):             # lines stay far below the 1023 byte buffer of main()
                lines.append("write %s %s" % (hex(lo_u + off // bpa), " ".join(hex(x) for x in fill[off:off + 64])))
            nfill = len(lines)
            lines += ["asm %s" % rng.choice([hex(org), str(org)])] + src + [""]
            lines += ["asm"] + src2 + [""]
            lines += ["print %s-%s" % (hex(lo_u), hex(end1 + 11))]
            ref = G.RefImage(big, bpa)
            ref.write(8, lo_u, [0xa0 + (i & 15) for i in range((end1 - lo_u + 12) * bpa)])
            ref.write(8, org, b1)
            if gap:
                ref.write(8, org2, b2)
            ref.write(16, end1, w3)
            exp_bytes = [ref.cells.get(a, 0) for a in range(lo_u * bpa, (end1 + 12) * bpa)]
            for engine in ("harness", "process"):
                if engine == "harness":
                    s = {"cpu": cpu, "syms": {}, "lines": lines,
                         "asm": [(nfill, "\n".join(src)), (nfill + len(src) + 2, "\n".join(src2))]}
                    res = resolve_asm(ctx, [s])[0]
                    a = impl(ctx, [session_line(s, res)])[0]
                    if a.startswith("DIED") or not re.fullmatch(r"[0-9a-f]+", a):
                        got = [a]
                    else:
                        parts = nvlib.unhex(a).decode("latin-1").split("@@\n")[1:]
                        got = G.parse_command_output("print", parts[-1])
                else:
                    r, per = _proc(ctx, cpu, lines)
                    got = per[-1] if per else ["rc=%d" % r["rc"]]
                orc["cases"] += 1
                gv = [int(w[1:], 16) for w in got if w[0] == "v"]
                if gv != exp_bytes:
                    diff = [i for i in range(min(len(gv), len(exp_bytes))) if gv[i] != exp_bytes[i]]
                    in_gap = gap and diff and all(len(b1) <= i - (org - lo_u) * bpa < len(b1) + gap * bpa for i in diff) \
                        and all(gv[i] == 0 for i in diff)
                    cls = "asm-gap" if in_gap else "asm-bytes"
                    orc["failures"].append({
                        "sig": "C19:%s:%s:org=%x gap=%d" % (cls, cpuname, org, gap), "input": "\n".join(lines),
                        "expected": bytes(exp_bytes).hex(), "observed": bytes(x & 255 for x in gv).hex() + " " + " ".join(got[:3]),
                        "what": ("asm zero-filled the gap between two .org sections of one block [%s]" % engine) if in_gap else
                                ("after asm the image does not hold the bytes of the source at the addresses of the source [%s]" % engine),
                        "replay": {"cpu": cpuname, "syms": {}, "lines": lines, "engine": engine}})
    # asm then disasm on the MSP430: the text of the source comes back
    cpu = names["msp430"]
    for _ in range(ctx.scale(3, 20)):
        org = rng.choice([0x200, 0x1000, 0xf800, 0x7ffc])     # (from 0xffe0 on the MSP430 disassembler lists vectors)
        v1, v2 = rng.getrandbits(16) | 0x100, rng.getrandbits(16) | 0x100
        lines = ["asm %s" % hex(org), "mov.w #0x%04x, r5" % v1, "mov.w #0x%04x, r6" % v2, "", "disasm %s-%s" % (hex(org), hex(org + 7)),
                 "print16 %s-%s" % (hex(org), hex(org + 7))]
        r, per = _proc(ctx, cpu, lines)
        orc["cases"] += 1
        exp_words = [0x4035, v1, 0x4036, v2]
        got_i = [w for w in per[4] if w[0] == "i"] if len(per) > 4 else []
        got_v = [int(w[1:], 16) for w in (per[5] if len(per) > 5 else []) if w[0] == "v"]
        exp_i = ["i%x:%x" % (org + 2 * i, w) for i, w in enumerate(exp_words)]
        if got_i != exp_i or got_v != exp_words or "mov.w #0x%04x, r5" % v1 not in r["out"] or "mov.w #0x%04x, r6" % v2 not in r["out"]:
            orc["failures"].append({"sig": "C19:asm-disasm:msp430:org=%x" % org, "input": "\n".join(lines), "expected": " ".join(exp_i),
                                    "observed": " ".join(got_i) + " / " + " ".join("%x" % v for v in got_v),
                                    "what": "asm then disasm/print16 does not show the assembled instructions",
                                    "replay": {"cpu": "msp430", "syms": {}, "lines": lines, "engine": "process"}})


def special_sim(ctx, orc, names):
    """write16 then step on the MSP430 simulator: the fetch at PC sees the written word"""
    rng = ctx.rng
    cpu = names["msp430"]
    for _ in range(ctx.scale(6, 40)):
        pc = rng.choice([0x200, 0x202, 0x1000, 0x7ffe, 0x8000, 0xf800, 0xfff0, 0xfffc])
        imm = rng.getrandbits(16)
        reg = rng.choice([5, 6, 7, 12, 15])
        word = 0x4030 | reg
        use_opt = rng.random() < 0.5
        lines = ["write16 %s %s %s" % (G.spell(rng, pc), G.spell(rng, word), G.spell(rng, imm))]
        if not use_opt:
            lines.append("set pc=%s" % rng.choice([hex(pc), str(pc)]))
        lines += ["registers", "step", "registers", "print16 %s-%s" % (hex(pc), hex(pc + 3))]
        args = ["-set_pc", rng.choice([hex(pc), str(pc)])] if use_opt else []
        r, per = _proc(ctx, cpu, lines, args)
        orc["cases"] += 1
        k = 1 if use_opt else 2
        try:
            before = [int(x, 16) for x in per[k][0][5:].split(",")]
            fetch = [w for w in per[k + 1] if w[0] == "f"]
            after = [int(x, 16) for x in per[k + 2][0][5:].split(",")]
            ok = before[0] == pc and fetch == ["f%x:%x" % (pc, word)] and after[0] == (pc + 4) & 0xffff and after[reg] == imm
        except (IndexError, ValueError):
            ok, before, fetch, after = False, None, None, per
        if not ok:
            orc["failures"].append({"sig": "C19:sim-fetch:msp430:%s pc=%x" % ("set_pc-option" if use_opt else "set", pc),
                                    "input": " ".join(args) + "\n" + "\n".join(lines),
                                    "expected": "PC=%x, fetch %x, then r%d=%x PC=%x" % (pc, word, reg, imm, (pc + 4) & 0xffff),
                                    "observed": "before=%s fetch=%s after=%s" % (before, fetch, after),
                                    "what": "the simulator did not fetch/execute the word that write16 stored at PC",
                                    "replay": {"cpu": "msp430", "syms": {}, "lines": lines, "engine": "process", "args": args}})


def special_bin(ctx, orc, reps):
    """-bin -address a: the file is listed at address a"""
    rng = ctx.rng
    tmp = ctx.tmpdir()
    seen = set()
    for cpu in reps:
        if (cpu["bpa"], cpu["big"]) in seen:
            continue
        seen.add((cpu["bpa"], cpu["big"]))
        bpa = cpu["bpa"]
        for addr in [0, 0x100, 0x8000, 0xfff8, 0x10000][: ctx.scale(3, 5)]:
            data = bytes(rng.getrandbits(8) | 1 for _ in range(16 * bpa))
            path = os.path.join(tmp, "c19_%s_%x.bin" % (cpu["name"], addr))
            open(path, "wb").write(data)
            last = addr + len(data) // bpa - 1
            lines = ["print %s-%s" % (hex(addr), hex(last)), "info"]
            r, per = _proc(ctx, cpu, lines, ["-bin", "-address", rng.choice([hex(addr), str(addr)]), path])
            orc["cases"] += 1
            gv = bytes(int(w[1:], 16) & 255 for w in (per[0] if per else []) if w[0] == "v")
            if gv != data:
                in_bytes = bpa > 1 and addr != 0
                orc["failures"].append({
                    "sig": "C19:%s:%s:address=%x" % ("bin-address-units" if in_bytes else "bin-address", cpu["name"], addr),
                    "input": "-bin -address %x + %s" % (addr, lines), "expected": data.hex(), "observed": gv.hex(),
                    "what": "-address places the file at a byte address, the commands count in address units" if in_bytes
                            else "the file loaded with -bin -address is not listed at that address",
                    "replay": {"cpu": cpu["name"], "syms": {}, "lines": lines, "engine": "process",
                               "args": ["-bin", "-address", hex(addr)], "file_hex": data.hex()}})


def special_top(ctx, orc, names):
    """top of memory: the last bytes of the address space"""
    for cpuname in ["msp430", "68000"]:
        cpu = names[cpuname]
        lines = ["write 0xfffffffc 0x11 0x22 0x33 0x44", "print 0xfffffffc-0xffffffff", "print 0xfffffffc-0xfffffffe"]
        a = impl(ctx, [session_line({"cpu": cpu, "syms": {}, "lines": lines}, [])])[0]
        orc["cases"] += 1
        if not re.fullmatch(r"[0-9a-f]+", a):
            orc["failures"].append({"sig": "C19:crash:%s:top" % cpuname, "input": "\n".join(lines), "expected": "transcript", "observed": a,
                                    "what": "died at the top of memory", "replay": {"cpu": cpuname, "syms": {}, "lines": lines, "engine": "harness"}})
            continue
        parts = nvlib.unhex(a).decode("latin-1").split("@@\n")[1:]
        g1 = [w for w in G.parse_command_output("print", parts[1]) if w[0] == "v"]
        g2 = [w for w in G.parse_command_output("print", parts[2]) if w[0] == "v"]
        if g2 != ["v11", "v22", "v33"]:
            orc["failures"].append({"sig": "C19:print-values:%s:%s" % (cpuname, lines[2]), "input": "\n".join(lines), "expected": "11 22 33",
                                    "observed": " ".join(g2), "what": "listing below the top of memory",
                                    "replay": {"cpu": cpuname, "syms": {}, "lines": lines, "engine": "harness"}})
        # the image whose only byte is at 0xffffffff (known finding: low_address sentinel)
        l2 = ["write 0xffffffff 0x5a", "disasm"]
        a2 = impl(ctx, [session_line({"cpu": cpu, "syms": {}, "lines": l2}, [])])[0]
        orc["cases"] += 1
        if re.fullmatch(r"[0-9a-f]+", a2):
            p2 = nvlib.unhex(a2).decode("latin-1").split("@@\n")[1:]
            if [w for w in G.parse_command_output("disasm", p2[1])] != ["dffffffff-ffffffff"]:
                orc["failures"].append({"sig": "C19:top-sentinel:%s:%s" % (cpuname, l2[1]), "input": "\n".join(l2),
                                        "expected": "dffffffff-ffffffff", "observed": p2[1][:100],
                                        "what": "an image whose only byte is at 0xffffffff counts as empty (low_address sentinel)",
                                        "replay": {"cpu": cpuname, "syms": {}, "lines": l2, "engine": "harness"}})
        if g1 != ["v11", "v22", "v33", "v44"]:
            orc["failures"].append({"sig": "C19:print-top:%s:%s" % (cpuname, lines[1]), "input": "\n".join(lines), "expected": "11 22 33 44",
                                    "observed": " ".join(g1), "what": "the byte at address 0xffffffff is never listed (32-bit loop bound)",
                                    "replay": {"cpu": cpuname, "syms": {}, "lines": lines, "engine": "harness"}})


def replay(ctx, rec):
    f = rec.get("failure") or {}
    rp = f.get("replay")
    if not rp:
        return {"fails": False, "note": "no replay data recorded", "record": rec}
    reps, names = cpus(ctx)
    cpu = names[rp["cpu"]]
    s = {"cpu": cpu, "syms": rp.get("syms", {}), "lines": rp["lines"], "asm": []}
    # asm blocks of the script
    words = G.script_words(rp["lines"])
    i = 0
    while i < len(words):
        if words[i] == "asm":
            j = i + 1
            src = []
            while j < len(words) and rp["lines"][j].strip() != "":
                src.append(rp["lines"][j]); j += 1
            s["asm"].append((i, "\n".join(src)))
            i = j
        i += 1
    if rp.get("engine") == "process":
        args = list(rp.get("args", []))
        if "file_hex" in rp:
            path = os.path.join(ctx.tmpdir(), "replay.bin")
            open(path, "wb").write(bytes.fromhex(rp["file_hex"]))
            args.append(path)
        r = run_process(ctx, s, args)
        per, _ = G.parse_process_transcript(rp["lines"], r["out"])
        return {"fails": True, "engine": "process", "rc": r["rc"], "transcript": [" ".join(p) for p in per],
                "expected": f.get("expected"), "note": "compare the transcript with 'expected' of the record"}
    res = resolve_asm(ctx, [s])[0]
    a = impl(ctx, [session_line(s, res)])[0]
    return {"fails": True, "engine": "harness", "transcript": parse_impl(s, a), "expected": f.get("expected"),
            "note": "compare the transcript with 'expected' of the record"}
