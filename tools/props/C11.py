"""C11 — every symbol reference resolves to the definition the scoping rules select."""
import os, struct
import nvlib, gen_prog as G

ID = "C11"
LEAN_MODULES = ["NakenVerif.Props.C11"]
THEOREMS = [
    "NakenVerif.Symbols.reachable_wf",
    "NakenVerif.Symbols.find_scoped",
    "NakenVerif.Symbols.find_independent_of_order",
    "NakenVerif.Symbols.reachable_unique",
    "NakenVerif.Symbols.resolution_order_free",
    "NakenVerif.Symbols.append_duplicate_rejected",
    "NakenVerif.Symbols.append_shadow_allowed",
    "NakenVerif.Symbols.label_duplicate_is_error",
    "NakenVerif.Symbols.func_duplicate_rejected",
    "NakenVerif.Symbols.scopes_do_not_interfere",
    "NakenVerif.Symbols.local_definition_invisible_elsewhere",
    "NakenVerif.Symbols.set_latest",
    "NakenVerif.Symbols.set_on_label_is_error",
    "NakenVerif.Symbols.scope_numbering_stable",
    "NakenVerif.Symbols.scope_ids_count_up",
    "NakenVerif.Symbols.iterate_complete",
    "NakenVerif.Symbols.appendNew_abs",
    "NakenVerif.Symbols.count_eq_length",
    "NakenVerif.Symbols.pool_no_overflow",
    "NakenVerif.Symbols.locked_append_unchanged",
    "NakenVerif.Symbols.moved_label_is_error",
    "NakenVerif.Symbols.unmoved_label_accepted",
    "NakenVerif.Symbols.scope_counter_wraps_at_2_32",
    "NakenVerif.Symbols.unterminated_scope_rejected_in_pass2",
]
RULE = ("programs: random arrangements of .scope/.func blocks, label definitions, forward/backward `.dc32 name` uses, "
        "local/global shadowing, .set sequences, .export, names of length 1..254 (255+ as malformed), single-point "
        "corruptions (duplicate, undefined, .set of a label, .func of a defined name); bulk programs with > 32 KiB of "
        "labels (>= 3 pools).  `sym` operation sequences on a real Symbols object.  Non-trivial = program with a "
        "scope and a shadowed or forward-referenced name, or > 1 pool; distinct = distinct source texts / op lines.")
MODELLED = ("Symbols::find/append (incl. the pass-2 moved-label check)/set/export_symbol/lookup/iterate/count/export_count/"
            "scope_start/scope_end/scope_reset/lock, MemoryPool chain with SYMBOLS_HEAP_SIZE pools and len+sizeof(Entry) "
            "strides, field widths from the regenerated layout; the callers' error propagation (label, .set, .func, .scope) "
            "as dirLabel/dirSet/dirFunc/dirScope")
NOT_MODELLED = ("the tokeniser's replacement of a known symbol by its decimal value (tokens.cpp) and the directive parsers "
                "are covered by the program-level oracle only; write_elf symbol table is checked by parsing its output, "
                "not modelled (C03 owns the ELF writer)")
ASSUMPTIONS = ["name limit: a label of 254 characters is the longest accepted one (uint8 length field incl. NUL); longer "
               "names must be rejected", "a `.set` whose name is visible as a label must be rejected "
               "(docs/directives.md: 'Create or modify symbol's value (excluding labels)')"]
TRUSTED_BASE = ["tools/gen_prog.py reference of the scoping rules (written from the property text)",
                "ELF32/64 section/symbol parser in tools/props/C11.py"]


# ---------------------------------------------------------------------------------------------
# sym operation streams (model vs implementation; also used by the oracle)
# ---------------------------------------------------------------------------------------------

def generated_limits():
    """(SYMBOLS_HEAP_SIZE, sizeof(Symbols::Entry)) as re-emitted by the translator on this run"""
    import re
    txt = open(os.path.join(nvlib.LEAN, "NakenVerif", "Generated", "Limits.lean")).read()
    return (int(re.search(r"symbolsHeapSize : Nat := (\d+)", txt).group(1)),
            int(re.search(r"symbolEntryHeader : Nat := (\d+)", txt).group(1)))


def gen_sym_lines(ctx):
    rng = ctx.rng
    lines = []
    names = ["a", "b", "c", "x", "y", "lab", "Lab", "loop", "v1"]
    for _ in range(ctx.scale(400, 6000)):
        n = rng.randrange(3, 40)
        ops = []
        for _ in range(n):
            r = rng.random()
            nm = rng.choice(names)
            if r < 0.25: ops.append("a:%s:%d" % (nm, rng.choice([0, 1, 0x200, 0xffff, 0x12345, 0xffffffff, rng.getrandbits(32)])))
            elif r < 0.35: ops.append("s:%s:%d" % (nm, rng.getrandbits(rng.choice([4, 16, 32]))))
            elif r < 0.42: ops.append("e:" + nm)
            elif r < 0.57: ops.append("l:" + nm)
            elif r < 0.67: ops.append("f:" + nm)
            elif r < 0.77: ops.append("S")
            elif r < 0.85: ops.append("E")
            elif r < 0.88: ops.append("R")
            elif r < 0.91: ops.append("L")
            elif r < 0.95: ops.append("I")
            elif r < 0.98: ops.append("C")
            else: ops.append("X")
        ops += ["I", "C"]
        lines.append("sym " + " ".join(ops))
    # two-pass shaped sequences: pass 1, lock, reset, pass 2 lookups
    for _ in range(ctx.scale(100, 1500)):
        p = []
        for _ in range(rng.randrange(2, 12)):
            r = rng.random()
            nm = rng.choice(names)
            if r < 0.4: p.append(("a", nm))
            elif r < 0.6: p.append(("l", nm))
            elif r < 0.75: p.append(("S",))
            elif r < 0.9: p.append(("E",))
            else: p.append(("s", nm))
        ops = []
        moved = rng.random() < 0.5
        for pas in (1, 2):
            for i, o in enumerate(p):
                if o[0] == "a": ops.append("a:%s:%d" % (o[1], 0x100 + 2 * i + (2 if pas == 2 and moved and i >= len(p) // 2 else 0)))
                elif o[0] == "l": ops.append("l:" + o[1])
                elif o[0] == "s": ops.append("s:%s:%d" % (o[1], i + pas * 100))
                else: ops.append(o[0])
            if pas == 1:
                ops += ["L", "R"]
        ops += ["I"]
        lines.append("sym " + " ".join(ops))
    # name length limit and pool boundaries
    for n in (1, 2, 7, 8, 100, 253, 254, 255, 256, 300, 511):
        lines.append("sym a:%s:1 l:%s C I" % ("n" * n, "n" * n))
    # a name at the limit FOLLOWED by further definitions: looked up, found, redefined (must be refused), exported,
    # counted and enumerated; globally, inside a scope, and with the long name stored second / in the second pool
    for n in (250, 251, 252, 253, 254, 255):
        L = "n" * n
        lines.append("sym a:%s:1 a:after:2 a:tail:3 l:%s l:after l:tail f:after f:tail a:after:9 a:tail:9 a:%s:9 e:after e:%s X C I" % (L, L, L, L))
        lines.append("sym a:first:7 a:%s:1 a:after:2 l:first l:after f:after a:after:9 a:first:9 s:v:5 l:v s:v:6 l:v C I" % L)
        lines.append("sym a:g:1 S a:%s:2 a:loc:3 l:loc f:loc a:loc:9 l:g E l:loc a:loc:4 l:loc S a:loc:5 l:loc l:%s E C I" % (L, L))
        lines.append("sym B:p:130:250:0 a:%s:1 a:after:2 a:tail:3 l:after l:tail a:after:9 e:tail X C I" % L)
        lines.append("sym a:%s:1 a:%s:2 a:%s:3 a:after:4 l:after f:after a:after:9 l:%s C I" % (L, "m" * n, "k" * (n - 1), "m" * n))
    heap, hdr = generated_limits()
    for pad in (8, 12, 23, 24, 56, 120, 247, 254):
        stride = pad + 1 + hdr
        per_pool = heap // stride
        for cnt in (per_pool - 1, per_pool, per_pool + 1, 2 * per_pool, 2 * per_pool + 1, 3 * per_pool + 2):
            lines.append("sym B:p:%d:%d:0x100 C a:tail:7 l:tail l:%s l:%s I" % (
                cnt, pad, ("p%d" % (cnt - 1)).ljust(pad, "_"), ("p%d" % (per_pool)).ljust(pad, "_")))
    # fill the first pool almost completely, then names of every length: which pool takes them
    for last in range(1, 40, 3):
        lines.append("sym B:p:%d:56:0 a:%s:5 a:%s:6 a:s:7 C I" % (heap // (57 + hdr) - 1, "z" * last, "y" * (last + 13)))
    # scope counter beyond 16 bits
    lines.append("sym T:65534 S a:g:1 l:g E l:g f:g S a:h:2 l:h E l:h f:h S a:q:4 f:q l:q E f:q I")
    lines.append("sym a:x:9 T:65535 S a:x:1 f:x E f:x S a:x:2 f:x E I")
    lines.append("sym T:65536 S s:w:5 f:w")
    lines.append("sym S a:one:1 E T:65535 S l:one a:one:2 l:one E I")
    # pass 2: a moved label is an error, an unmoved one and a .set symbol are not
    lines.append("sym a:x:16 S a:x:32 a:y:48 E s:v:1 L R a:x:16 a:x:18 S a:x:32 a:x:34 a:x:16 a:y:48 a:y:50 E a:y:48 a:v:7 a:zz:9 s:v:2 l:v")
    return lines


def norm_sym(ans):
    return "fault" if ans.startswith("DIED") and "SEGV" in ans else ans


def correspondence(ctx, corr):
    lines = gen_sym_lines(ctx)
    cp = os.path.join(nvlib.VERIF, "corpus", ID, "lines.txt")
    if os.path.exists(cp):
        lines = [l.strip() for l in open(cp) if l.strip() and not l.startswith("#")] + lines
    h, d = ctx.both(lines)
    ctx.notes["sym_lines"], ctx.notes["sym_impl"] = lines, h
    corr["cases"] += len(lines)
    kinds = {}
    for l, a, b in zip(lines, h, d):
        for op in l.split(" ")[1:]:
            kinds[op[0]] = kinds.get(op[0], 0) + 1
        a2 = norm_sym(a)
        if a2 != b and not (a2 == "fault" and b.endswith("fault")):
            corr["disagreements"].append({"line": l[:2000], "impl": a[:600], "model": b[:600]})
    corr["streams"]["sym"] = {"lines": len(lines), "operations": kinds,
                              "multi_pool_lines": sum(1 for l in lines if " B:" in l)}
    corr["distinct_nontrivial"] = len(set(l for l in lines if l.count(" ") >= 6))
    corr["samples"] = [{"line": lines[i][:300], "impl": h[i][:300], "model": d[i][:300]}
                       for i in range(0, len(lines), max(1, len(lines) // 5))][:5]


# ---------------------------------------------------------------------------------------------
# ELF symbol table (parsed from the file the real naken_asm writes)
# ---------------------------------------------------------------------------------------------

def elf_symbols(data):
    """-> {name: value} of the symbols with binding GLOBAL (st_info >> 4 == 1) in .symtab; None if unparsable"""
    if data is None or len(data) < 52 or data[:4] != b"\x7fELF":
        return None
    is64 = data[4] == 2
    e = "<" if data[5] == 1 else ">"
    if is64:
        shoff, = struct.unpack_from(e + "Q", data, 0x28)
        shentsize, shnum, shstrndx = struct.unpack_from(e + "HHH", data, 0x3a)
    else:
        shoff, = struct.unpack_from(e + "I", data, 0x20)
        shentsize, shnum, shstrndx = struct.unpack_from(e + "HHH", data, 0x2e)
    secs = []
    for i in range(shnum):
        o = shoff + i * shentsize
        if o + shentsize > len(data):
            break        # e_shnum larger than what was written (avr8; owned by C03): read what is there
        if is64:
            name, typ, flags, addr, off, size, link, info, align, entsize = struct.unpack_from(e + "IIQQQQIIQQ", data, o)
        else:
            name, typ, flags, addr, off, size, link, info, align, entsize = struct.unpack_from(e + "IIIIIIIIII", data, o)
        secs.append(dict(name=name, type=typ, off=off, size=size, link=link, entsize=entsize))
    if shstrndx >= len(secs):
        return None
    sh = secs[shstrndx]
    shstr = data[sh["off"]:sh["off"] + sh["size"]]

    def cstr(tab, o):
        end = tab.find(b"\0", o)
        return tab[o:end if end >= 0 else len(tab)].decode("latin-1")
    byname = {cstr(shstr, s["name"]): s for s in secs}
    if ".symtab" not in byname or ".strtab" not in byname:
        return None
    st, sy = byname[".strtab"], byname[".symtab"]
    strtab = data[st["off"]:st["off"] + st["size"]]
    ent = 24 if is64 else 16
    out = {}
    for o in range(sy["off"], sy["off"] + sy["size"], ent):
        if is64:
            nm, info, other, shndx, value, size = struct.unpack_from(e + "IBBHQQ", data, o)
        else:
            nm, value, size, info, other, shndx = struct.unpack_from(e + "IIIBBH", data, o)
        if info >> 4 == 1:
            out.setdefault(cstr(strtab, nm), []).append(value)
    return out


# ---------------------------------------------------------------------------------------------
# property oracle
# ---------------------------------------------------------------------------------------------

def parse_answer(ans):
    """nvlib.parse_prog, but a symbol dump that is not of the form name=hex@scope (a derailed pool walk prints heap bytes)
    is kept as evidence instead of stopping the oracle"""
    try:
        return nvlib.parse_prog(ans)
    except ValueError:
        # syms= (and p1=) are the last fields of the answer; heap bytes may contain blanks
        res = nvlib.parse_prog(ans[:ans.find(" syms=")] + " syms=-")
        res["garbled"] = True
        return res


def long_name_programs(rng):
    """label names at the length limit (250..255 characters; 254 is the longest accepted one) FOLLOWED by further
    definitions that are then referenced (forwards and backwards), shadowed in a scope, redefined (must be an error),
    assigned with .set and exported: an entry whose length field is wrong derails the pool walk for everything stored
    behind it."""
    out = []
    for n in (250, 251, 252, 253, 254, 255):
        c = rng.choice("LQnZ_")
        L = c * n
        L2 = (c + "x") * (n // 2) + ("y" if n % 2 else "")
        cpu = rng.choice(["msp430", "msp430", "68000", "z80"])
        out.append([("cpu", cpu), ("org", 0x1000), ("ref", L), ("ref", "after"), ("ref", "tail"), ("label", L), ("db", 2),
                    ("label", "after"), ("db", 2), ("label", "tail"), ("ref", "after"), ("ref", L), ("ref", "tail"),
                    ("export", "after"), ("export", "tail"), ("export", L)])
        out.append([("cpu", cpu), ("label", L), ("db", 1), ("label", "again"), ("db", 2), ("label", "again"), ("db", 3)])
        out.append([("cpu", cpu), ("label", "first"), ("db", 1), ("label", L), ("db", 1), ("label", "again"), ("db", 2),
                    ("label", "first"), ("db", 3)])
        out.append([("cpu", cpu), ("label", L), ("db", 3), ("scope",), ("label", L), ("db", 1), ("label", "after"), ("ref", "after"),
                    ("ref", L), ("ends",), ("db", 5), ("label", "after"), ("ref", "after"), ("ref", L), ("export", "after")])
        out.append([("cpu", cpu), ("label", L), ("db", 2), ("set", "v", 5), ("ref", "v"), ("set", "v", 6), ("ref", "v"),
                    ("label", "w"), ("ref", "w"), ("ref", L)])
        out.append([("cpu", cpu), ("label", L), ("db", 1), ("label", L2), ("db", 2), ("label", "s1"), ("db", 3), ("label", "s2"),
                    ("ref", "s1"), ("ref", "s2"), ("ref", L2), ("ref", L), ("export", "s2"), ("export", L2)])
        out.append([("cpu", cpu), ("label", L), ("db", 1), ("func", "f"), ("label", "inner"), ("ref", "inner"), ("ref", L), ("endf",),
                    ("ref", "f"), ("label", "g"), ("ref", "g"), ("export", "f")])
        out.append([("cpu", cpu), ("label", L), ("db", 1), ("func", "f"), ("endf",), ("db", 2), ("func", "f"), ("endf",)])
        out.append([("cpu", cpu), ("func", L), ("label", "inner"), ("ref", "inner"), ("endf",), ("label", "after"), ("ref", "after"),
                    ("ref", L), ("scope",), ("label", "after"), ("ref", "after"), ("ends",), ("ref", "after")])
    return out


def shape(prog):
    """normalised description of a (small) program for signatures"""
    return G.render(prog).replace("\n", "|")[:160]


def judge_prog(prog, fault, res, ref):
    """-> list of (sig, expected, observed, what)"""
    out = []
    src_shape = shape(prog)
    if res.get("died"):
        return [("C11:crash:" + (fault or "valid"), "exit 0/1", res["raw"][:200], "assembler crashed")]
    st = res["st"]
    if ref["status"] is None:
        return out
    if ref["status"] == 1:
        if st == 0:
            out.append(("C11:accepted:%s" % ref["why"], "rejected (%s)" % ref["why"], "st=0 err=%d" % res["err"],
                        "program that violates the scoping rules was assembled"))
        return out
    if st != 0:
        out.append(("C11:rejected-valid:%s" % (fault or "valid"), "st=0", "st=%d err=%d" % (st, res["err"]),
                    "valid program rejected"))
        return out
    img = res["image"]
    big = res["end"] == "b"
    for addr, val, name, sc in ref["refs"]:
        bs = [img.get(addr + i) for i in range(4)]
        if None in bs:
            out.append(("C11:ref-missing", "4 bytes at %x" % addr, str(bs), "no data for .dc32 " + name))
            break
        got = int.from_bytes(bytes(bs), "big" if big else "little")
        if got != val:
            kind = "local" if (sc != 0 and any(n == name and s == sc for n, _, s in ref["symbols"])) else "global"
            out.append(("C11:ref-value:%s" % kind, "%s = %x (scope %d)" % (name, val, sc), "%x" % got,
                        "reference resolved to another definition/value"))
            break
    if res.get("garbled"):
        out.append(("C11:symbols:garbled", "%d symbols name=addr@scope" % len(ref["symbols"]), res["raw"][-200:],
                    "the symbol table walk printed bytes that are no symbol entries"))
        return out
    # the property does not fix an enumeration order: compare as sorted lists (multisets)
    want = sorted((n, v, s) for n, v, s in ref["symbols"])
    got = sorted((n, a, s) for n, a, s, ex in res["syms_list"])
    if want != got:
        k = next((i for i in range(min(len(want), len(got))) if want[i] != got[i]), min(len(want), len(got)))
        out.append(("C11:symbols:%s" % ("count" if len(want) != len(got) else "entry"),
                    "%d symbols, #%d=%r" % (len(want), k, want[k] if k < len(want) else None),
                    "%d symbols, #%d=%r" % (len(got), k, got[k] if k < len(got) else None),
                    "symbol table differs from the definitions of the program"))
    exp = {n for n, a, s, ex in res["syms_list"] if ex and s == 0}
    if exp != set(ref["exports"]):
        out.append(("C11:export-flag", str(sorted(ref["exports"]))[:200], str(sorted(exp))[:200], "exported set differs"))
    return out


def oracle(ctx, orc, focus=None):
    rng = ctx.rng
    progs = []     # (prog, fault)
    for _ in range(ctx.scale(500, 8000)):
        progs.append(G.gen_scoped(rng, rng.randrange(4, 60)))
    for _ in range(ctx.scale(40, 300)):
        progs.append(G.gen_scoped(rng, rng.randrange(100, 400), faults=0.1))
    # dedicated shapes
    D = [
        [("cpu", "msp430"), ("label", "x"), ("db", 2), ("scope",), ("ref", "x"), ("label", "x"), ("ref", "x"), ("ends",), ("ref", "x")],
        [("cpu", "msp430"), ("scope",), ("label", "x"), ("ends",), ("scope",), ("ref", "x"), ("db", 1), ("label", "x"), ("ends",), ("db", 4)],
        [("cpu", "msp430"), ("scope",), ("label", "x"), ("ends",), ("ref", "x")],
        [("cpu", "msp430"), ("label", "x"), ("set", "x", 5), ("ref", "x")],
        [("cpu", "msp430"), ("set", "x", 5), ("label", "x"), ("ref", "x")],
        [("cpu", "msp430"), ("set", "x", 5), ("scope",), ("label", "x"), ("db", 2), ("ref", "x"), ("ends",), ("ref", "x")],
        [("cpu", "msp430"), ("set", "x", 5), ("scope",), ("set", "x", 6), ("db", 2), ("label", "x"), ("ends",), ("ref", "x")],
        [("cpu", "msp430"), ("label", "f"), ("db", 2), ("func", "f"), ("endf",)],
        [("cpu", "msp430"), ("func", "f"), ("endf",), ("db", 2), ("func", "f"), ("endf",)],
        [("cpu", "msp430"), ("func", "f"), ("label", "f"), ("ref", "f"), ("endf",), ("ref", "f")],
        [("cpu", "msp430"), ("set", "a", 1), ("ref", "a"), ("set", "a", 2), ("ref", "a"), ("set", "a", 3), ("ref", "a")],
        [("cpu", "avr8"), ("org", 0x100), ("label", "w"), ("db", 6), ("label", "v"), ("ref", "w"), ("ref", "v"), ("export", "v")],
        [("cpu", "msp430"), ("label", "g"), ("scope",), ("label", "loc"), ("export", "g"), ("ends",), ("export", "g")],
    ]
    for n in (253, 254, 255, 256, 400):
        D.append([("cpu", "msp430"), ("ref", "N" * n), ("db", 3), ("label", "N" * n), ("ref", "N" * n)])
    progs += [(p, "dedicated") for p in D]
    progs += [(p, "longname") for p in long_name_programs(rng)]
    # > 32 KiB of labels
    bulk = [G.gen_many_labels(rng, 1300, 20), G.gen_many_labels(rng, 3000, 12, scoped=True),
            G.gen_many_labels(rng, 420, 250), G.gen_many_labels(rng, 270, rng.choice([252, 253])), G.gen_many_labels(rng, 270, 254, scoped=True)]
    if not ctx.quick():
        bulk += [G.gen_many_labels(rng, 9000, 9, scoped=True), G.gen_many_labels(rng, 2000, 100)]
    progs += [(p, "bulk") for p in bulk]
    # more than 65535 scopes
    many = [("cpu", "msp430")] + [("scope",), ("ends",)] * 65535
    progs.append((many + [("scope",), ("label", "x"), ("ref", "x"), ("ends",), ("db", 2), ("ref", "x")], "scopes>65535"))
    progs.append((many + [("scope",), ("label", "x"), ("ref", "x"), ("ends",), ("db", 2), ("label", "x"), ("ref", "x")], "scopes>65535"))
    progs.append(([("cpu", "msp430"), ("label", "y"), ("db", 2)] + [("scope",), ("ends",)] * 65536 +
                  [("scope",), ("label", "y"), ("ref", "y"), ("ends",), ("ref", "y")], "scopes>65535"))

    lines = [nvlib.prog_line(G.render(p), "1") for p, _ in progs]
    answers = ctx.impl(lines)
    stats = {"accepted": 0, "rejected": 0, "unspecified": 0, "faults": {}, "with_scope": 0, "max_symbols": 0}
    seen = set()
    for (prog, fault), line, ans in zip(progs, lines, answers):
        orc["cases"] += 1
        res = parse_answer(ans)
        ref = G.reference(prog)
        stats["faults"][fault or "none"] = stats["faults"].get(fault or "none", 0) + 1
        if ref["status"] is None: stats["unspecified"] += 1
        elif ref["status"] == 0: stats["accepted"] += 1
        else: stats["rejected"] += 1
        if ref["nscopes"]: stats["with_scope"] += 1
        stats["max_symbols"] = max(stats["max_symbols"], len(ref["symbols"]))
        for sig, exp, obs, what in judge_prog(prog, fault, res, ref):
            if fault == "scopes>65535":
                sig = "C11:scopes>65535:" + sig.split(":", 1)[1]
            elif fault == "bulk":
                sig = "C11:bulk:" + sig.split(":", 1)[1]
            elif fault == "longname":
                sig = "C11:longname:" + sig.split(":", 1)[1]
            orc["failures"].append({"sig": sig, "input": G.render(prog)[:1500], "expected": exp, "observed": obs,
                                    "what": what, "replay_line": line if len(line) < 20000 else None,
                                    "stmts": [list(x) for x in prog] if len(line) < 20000 else None, "fault": fault})
    # sym streams: results of the real object against the scoped-map reading
    sl = ctx.notes.get("sym_lines")
    si = ctx.notes.get("sym_impl")
    if sl is None:
        sl = gen_sym_lines(ctx)
        si = ctx.impl(sl)
    for l, a in zip(sl, si):
        orc["cases"] += 1
        for f in judge_sym(l, a):
            orc["failures"].append({"sig": f[0], "input": l[:1500], "expected": f[1], "observed": f[2][:300],
                                    "what": f[3], "replay_line": l if len(l) < 20000 else None})
    # ELF symbol table of the real executable
    exe = ctx.repo["naken_asm"]
    tmp = ctx.tmpdir()
    elf_cases = [(p, f) for p, f in progs if any(s[0] == "export" for s in p) and f in (None, "dedicated", "bulk")]
    elf_cases = elf_cases[:ctx.scale(40, 300)] + [(p, f) for p, f in progs if f == "bulk"] + [
        (p, f) for p, f in progs if f == "longname" and any(s[0] == "export" for s in p)]
    stats["elf_cases"] = 0
    for n, (prog, fault) in enumerate(elf_cases):
        ref = G.reference(prog)
        if ref["status"] != 0:
            continue
        r = nvlib.run_asm(exe, G.render(prog), tmp, name="e%d" % n, outtype="elf")
        orc["cases"] += 1
        stats["elf_cases"] += 1
        cls = "bulk" if fault == "bulk" else "longname" if fault == "longname" else "prog"
        if r["rc"] != 0:
            orc["failures"].append({"sig": "C11:elf:%s:exit" % cls, "input": G.render(prog)[:1500], "expected": "exit 0",
                                    "observed": "exit %d %s" % (r["rc"], (r["err"] or r["out"])[-300:]), "what": "elf run failed"})
            continue
        syms = elf_symbols(r["data"])
        if syms is None:
            orc["failures"].append({"sig": "C11:elf:%s:unparsable" % cls, "input": G.render(prog)[:1500], "expected": "ELF with .symtab",
                                    "observed": "unparsable", "what": "cannot parse ELF"})
            continue
        want = {k: [v] for k, v in ref["exports"].items()}
        if syms != want:
            missing = sorted(set(want) - set(syms))
            extra = sorted(set(syms) - set(want))
            wrong = sorted(k for k in want if k in syms and syms[k] != want[k])
            orc["failures"].append({"sig": "C11:elf:%s:%s" % (cls, "missing" if missing else "extra" if extra else "value"),
                                    "input": G.render(prog)[:1500], "expected": str(sorted(want.items()))[:300],
                                    "observed": "missing %s extra %s wrong %s" % (missing[:5], extra[:5], [(k, syms[k]) for k in wrong[:5]]),
                                    "what": "exported symbols in .symtab differ"})
        try:
            os.unlink(r["path"])
        except OSError:
            pass
    orc["stats"] = stats
    orc["distinct_nontrivial"] = len(set(G.render(p) for p, f in progs if any(s[0] in ("scope", "func") for s in p)))
    orc["samples"] = [{"source": G.render(progs[i][0])[:300], "impl": answers[i][:200]}
                      for i in range(0, len(progs), max(1, len(progs) // 4))][:4]


def judge_sym(line, ans):
    """Scoped finite map reading of an operation sequence (without lock/reset subtleties: the
    reference stops judging at the first L or R, and at scope counters beyond 65535 it still
    demands separation of scopes)."""
    ops = line.split(" ")[1:]
    if ans.startswith("DIED") and "L" in ops:
        # set() of a new name on a locked table dereferences nullptr; no program the property
        # quantifies over reaches it (pass 2 repeats pass 1's .set names) -> robustness, C16
        return []
    if ans.startswith("DIED"):
        return [("C11:sym:crash:" + ("scopes>65535" if any(o.startswith("T:6553") for o in ops) else "other"),
                 "results", ans[:200], "Symbols crashed")]
    res = ans.split(" ")
    if len(res) != len(ops):
        return [("C11:sym:protocol", "%d results" % len(ops), "%d" % len(res), "protocol")]
    table = {}       # (name, scope) -> [value, rw, export]
    order = []
    scope, counter, in_scope = 0, 0, False
    out = []
    wide = False
    for o, r in zip(ops, res):
        p = o.split(":")
        k = p[0]
        cur = counter if in_scope else 0

        def vis(name):
            if in_scope and (name, counter) in table: return (name, counter)
            if (name, 0) in table: return (name, 0)
            return None
        if k in ("L", "R"):
            break
        if k == "T":
            counter += int(p[1]); wide = wide or counter > 65535
        elif k == "S":
            if in_scope:
                if r != "S-1": out.append(("C11:sym:nested-scope", "S-1", r, "nested scope accepted"))
            else:
                in_scope = True; counter += 1; wide = wide or counter > 65535
        elif k == "E":
            in_scope = False
        elif k == "B":
            n, pad, base = int(p[2]), int(p[3]), int(p[4], 0)
            okc = 0
            for i in range(n):
                nm = (p[1] + str(i)).ljust(pad, "_")
                if (nm, cur) not in table and len(nm) <= 254:
                    table[(nm, cur)] = [(base + i) & 0xffffffff, False, False]; order.append((nm, cur)); okc += 1
            if r != "B%d" % okc: out.append(("C11:sym:bulk-append", "B%d" % okc, r, "bulk append count"))
        elif k == "a":
            nm, v = p[1], int(p[2], 0) & 0xffffffff
            if (nm, cur) in table or len(nm) > 254:
                if r != "a-1": out.append(("C11:sym:duplicate-accepted" + (":scopes>65535" if wide else ""), "a-1", r, "duplicate/too long name accepted: " + o))
            else:
                if r != "a0": out.append(("C11:sym:append-rejected" + (":scopes>65535" if wide else ""), "a0", r, "fresh definition rejected: " + o))
                table[(nm, cur)] = [v, False, False]; order.append((nm, cur))
        elif k == "s":
            nm, v = p[1], int(p[2], 0) & 0xffffffff
            e = vis(nm)
            if e is None:
                table[(nm, 0)] = [v, True, False]; order.append((nm, 0))
                if r != "s0": out.append(("C11:sym:set-rejected", "s0", r, o))
            elif table[e][1]:
                table[e][0] = v
                if r != "s0": out.append(("C11:sym:set-rejected", "s0", r, o))
            elif r != "s-1":
                out.append(("C11:sym:set-on-label-accepted", "s-1", r, o))
        elif k == "e":
            e = vis(p[1])
            if e is None or e[1] != 0:
                if r != "e-1": out.append(("C11:sym:export-accepted", "e-1", r, o))
            else:
                table[e][2] = True
                if r != "e0": out.append(("C11:sym:export-rejected", "e0", r, o))
        elif k == "l":
            e = vis(p[1])
            want = "l-1:0" if e is None else "l0:%x" % table[e][0]
            if r != want: out.append(("C11:sym:lookup" + (":scopes>65535" if wide else ""), want, r, o))
        elif k == "f":
            e = vis(p[1])
            want = "f-" if e is None else "f%x@%d%s%s" % (table[e][0], e[1], "w" if table[e][1] else "", "!" if table[e][2] else "")
            if r != want and not (wide and e is not None and r.split("@")[0] == want.split("@")[0] and False):
                out.append(("C11:sym:find" + (":scopes>65535" if wide else ""), want, r, o))
        elif k == "C":
            if r != "C%d" % len(order): out.append(("C11:sym:count", "C%d" % len(order), r, "count"))
        elif k == "X":
            want = "X%d" % sum(1 for e in order if table[e][2])
            if r != want: out.append(("C11:sym:export-count", want, r, "export_count"))
        elif k == "I":
            want = sorted("%s=%x@%d%s" % (e[0], table[e][0], e[1], "!" if table[e][2] else "") for e in order)
            body, _, cnt = r[2:].rpartition("]#")
            got = sorted(body.split(",")) if body else []
            if got != want or cnt != str(len(order)):
                d = [x for x in want if x not in set(got)][:3] + [x for x in got if x not in set(want)][:3]
                out.append(("C11:sym:iterate" + (":scopes>65535" if wide else ""), "%d entries" % len(want),
                            "%d entries, count %s, first differences %s" % (len(got), cnt, d), "iterate does not enumerate exactly the definitions"))
        if out:
            break
    return out[:1]


def replay(ctx, rec):
    f = rec.get("failure") or {}
    line = f.get("replay_line")
    if not line:
        return {"fails": False, "note": "no replay line recorded (input too large); source is in the record", "record": f}
    ans = ctx.impl([line])[0]
    if line.startswith("sym "):
        j = judge_sym(line, ans)
        return {"fails": bool(j), "line": line[:500], "impl": ans[:500], "verdict": j}
    if f.get("stmts"):
        prog = [tuple(x) for x in f["stmts"]]
        j = judge_prog(prog, f.get("fault"), parse_answer(ans), G.reference(prog))
        return {"fails": bool(j), "source": G.render(prog)[:1500], "impl": ans[:500], "verdict": j[:3]}
    return {"fails": False, "line": line[:500], "impl": ans[:500], "note": "no statement list recorded"}
