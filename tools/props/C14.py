"""C14 — the MSP430 simulator executes every instruction as the architecture defines."""
import os, re, subprocess
import nvlib, gen_msp430 as G, msp430_ref as R

ID = "C14"
LEAN_MODULES = ["NakenVerif.Props.C14"]
THEOREMS = [
    "NakenVerif.C14.sim_refines_arch",
    "NakenVerif.C14.exec_refines",
    "NakenVerif.C14.step_ok_or_exit",
    "NakenVerif.C14.run_returns_at_final_ret",
    "NakenVerif.C14.ret_lowers_depth",
    "NakenVerif.C14.break_io_exits_with_value",
    "NakenVerif.Msp430.SimProofs.twoOp_refines",
    "NakenVerif.Msp430.SimProofs.twoOp_dadd",
    "NakenVerif.Msp430.SimProofs.oneOp_rrc",
    "NakenVerif.Msp430.SimProofs.oneOp_swpb",
    "NakenVerif.Msp430.SimProofs.oneOp_rra",
    "NakenVerif.Msp430.SimProofs.oneOp_sxt",
]
RULE = ("sim: one step of the real SimulateMsp430 from (16 registers, memory cells) against the Lean model, over all "
        "65,536 first opcode words (thorough) or a seeded stratified subset covering every (class, As, Ad, B/W, "
        "source-register kind, destination-register kind) stratum (quick), states biased to 0/1/0x7f/0x80/0xff/0x7fff/"
        "0x8000/0xffff, SP and effective addresses at 0/0xfffe/0xffff, odd addresses, armed break_io; dislen: all 65,536 "
        "first words; a case is non-trivial when its opcode is an executable instruction; distinct = distinct lines.")
MODELLED = ("SimulateMsp430::run (one iteration and the auto-run loop), one_operand_exe, relative_jump_exe, two_operand_exe, "
            "get_data, update_reg, put_data, flag helpers of msp430.h, Simulate::ram_read*/ram_write* incl. break_io, "
            "Memory read8/16 write8/16, get_cycle_count, length/cycles computed by disasm_msp430 over the regenerated table_msp430")
NOT_MODELLED = ("interactive display (dump_registers text, disassembly window), serial port emulation, usleep pacing, "
                "SIGINT handling; MSP430X (20-bit) instructions are reported illegal by the simulator and are outside the property")
ASSUMPTIONS = [
    "Arch (lean/NakenVerif/Msp430/SimArch.lean, tools/msp430_ref.py) transcribes SLAU049/SLAU144 chapter 3 from DESIGN.md A.3 and "
    "the author's knowledge of the instruction set; the PDF is not available offline",
    "states the guides leave undefined are excluded (SimArch.Defined, list U1-U10 in the file); V after DADD is left unchanged",
    "refinement (sim_refines_arch) is proved for every instruction class: jumps, the 12 double-operand and the 7 single-operand "
    "instructions in all addressing modes, .B/.W; nothing is left to the streams alone",
]
TRUSTED_BASE = ["tools/msp430_ref.py (Python reference of the architecture used by the search; compared with the Lean "
                "specification on every run by the 'arch' self-test stream)"]


def _lines_for(ctx, opcodes, per, tame, armed):
    rng = ctx.rng
    cases = []
    for w in opcodes:
        for _ in range(per):
            regs, cells = G.make_state(rng, w, tame=tame)
            bio = "-"
            if rng.random() < armed:
                bio = rng.choice(["ffffffff", "0", "%x" % rng.choice(sorted(cells)), "%x" % ((regs[1] - 2) & 0xffff),
                                  "%x" % regs[rng.randrange(4, 16)]])
            cases.append((w, regs, cells, bio))
    return cases


def gen_cases(ctx):
    if ctx.quick():
        ops, nstrata = G.stratified_opcodes(ctx.rng, 2)
        ops += [ctx.rng.randrange(0, 0x1000) for _ in range(150)] + [ctx.rng.randrange(0x1380, 0x2000) for _ in range(150)]
        per = 1
    else:
        ops, nstrata = G.stratified_opcodes(ctx.rng, 2)
        ops = list(range(65536)) + ops
        per = 2
    ops += [0x2000 + ctx.rng.randrange(0x2000) for _ in range(300)]
    ops += [0x4130, 0x4303, 0x1300, 0x12b0, 0x1122, 0x1204, 0x40f2, 0x4292, 0xc312, 0xd232, 0x3fff, 0x3c00]
    pcsp = G.pcsp_cases(ctx.rng)
    ctx.notes["pcsp"] = len(pcsp)
    return _lines_for(ctx, ops, per, 0.55, 0.05) + G.flag_boundary_cases(ctx.rng) + pcsp, nstrata


def _line(case):
    w, regs, cells, bio = case
    return G.line(regs, cells, bio)


def _dislen_lines(ctx):
    rng = ctx.rng
    out = []
    for w in range(65536):
        w1 = rng.choice([0x4303, 0x1005, 0x12b0, 0x0000, 0x5f1f, rng.getrandbits(16)])
        out.append("dislen msp430 %x %02x%02x%02x%02x3412" % (rng.choice([0xf000, 0, 0xfffc, 0x200]), w & 255, w >> 8, w1 & 255, w1 >> 8))
    return out


def _simrun_lines(ctx):
    # small routines for the auto-run loop: nested call/ret, final ret, illegal word, cycle limit
    def prog(words, at=0xf000):
        cells = {a: 0 for a in range(0x7f0, 0x800)}      # the stack area (the model reports given cells only)
        for i, w in enumerate(words):
            cells[at + 2 * i] = w & 255
            cells[at + 2 * i + 1] = w >> 8
        return cells
    regs = [0xf000, 0x0800] + [0] * 14
    out = []
    progs = [[0x4035, 0x1234, 0x5315, 0x4130],                        # mov #0x1234,r5; add #1,r5; ret
             [0x12b0, 0xf006, 0x4130, 0x5315, 0x4130],                # call #f006; ret; f006: add #1,r5; ret
             [0x4303, 0x0000],                                        # nop; illegal
             [0x3fff],                                                # jmp $ (cycle limit)
             [0x12b0, 0xf004, 0x12b0, 0xf008, 0x4130, 0x4130]]
    for p in progs:
        for mc in (-1, 50) if p != [0x3fff] else (50,):
            out.append(G.line(regs, prog(p), "-", cmd="simrun").replace("simrun msp430 -", "simrun msp430 - %d" % mc, 1))
    out.append(G.line(regs, prog([0x40f2, 0x0005, 0x0000, 0x4130]), "0", cmd="simrun").replace("simrun msp430 0", "simrun msp430 0 -1", 1))
    # call trees: every source addressing mode of CALL (the auto-run depth bookkeeping must count each of them)
    trees = []
    for i in range(ctx.scale(40, 400)):
        words, cells, want = call_tree(ctx.rng, single_mode=CALL_MODES[i] if i < len(CALL_MODES) else None)
        c = prog(words)
        c.update(cells)
        for a in range(0x7c0, 0x7f0):
            c.setdefault(a, 0)
        out.append(G.line(regs, c, "-", cmd="simrun").replace("simrun msp430 -", "simrun msp430 - -1", 1))
        trees.append((out[-1], want))
    ctx.notes["call_trees"] = trees
    return out


CALL_MODES = ["imm", "reg", "ind", "indinc", "idx", "abs", "sym"]
TABLE = 0x0200     # pointer table used by the indirect call modes: word j = address of function j


def call_tree(rng, single_mode=None, at=0xf000):
    """A routine (function 0) that calls functions 1..n (acyclic, i calls only j > i) through random CALL source modes;
    each function adds a distinct power of two to r6 once per activation.  Returns (words, extra cells, expected r6)."""
    n = rng.choice([1, 2, 2, 3, 4])
    bodies = []
    for i in range(n + 1):
        calls = []
        if i < n:
            for j in sorted(rng.sample(range(i + 1, n + 1), rng.randrange(1, min(3, n - i) + 1))) if i else [1] + [
                    j for j in range(2, n + 1) if rng.random() < 0.4]:
                calls.append((j, single_mode or rng.choice(CALL_MODES)))
        bodies.append(calls)
    size = {"imm": 2, "abs": 2, "sym": 2, "reg": 3, "ind": 3, "indinc": 3, "idx": 4}
    addr, a = [], at
    for calls in bodies:
        addr.append(a)
        a += 2 * (2 + sum(size[m] for _, m in calls) + 1)      # add #k,r6 (2 words), calls, ret
    words = []
    for i, calls in enumerate(bodies):
        words += [0x5036, 1 << i]                                   # add #(1<<i), r6
        for j, m in calls:
            here = at + 2 * len(words)
            ptr = TABLE + 2 * j
            if m == "imm": words += [0x12b0, addr[j]]
            elif m == "abs": words += [0x1292, ptr]
            elif m == "sym": words += [0x1290, (ptr - (here + 2)) & 0xffff]
            elif m == "reg": words += [0x4035, addr[j], 0x1285]
            elif m == "ind": words += [0x4035, ptr, 0x12a5]
            elif m == "indinc": words += [0x4035, ptr, 0x12b5]
            elif m == "idx": words += [0x4035, (ptr - 6) & 0xffff, 0x1295, 0x0006]
        words.append(0x4130)
    cells = {}
    for j in range(n + 1):
        cells[TABLE + 2 * j] = addr[j] & 255
        cells[TABLE + 2 * j + 1] = addr[j] >> 8
    act = [0] * (n + 1)
    def visit(i):
        act[i] += 1
        for j, _ in bodies[i]:
            visit(j)
    visit(0)
    want = sum(act[i] << i for i in range(n + 1)) & 0xffff
    return words, cells, want


def correspondence(ctx, corr):
    cases, nstrata = gen_cases(ctx)
    lines = [_line(c) for c in cases]
    cp = os.path.join(nvlib.VERIF, "corpus", ID, "lines.txt")
    corpus = [l.strip() for l in open(cp) if l.strip() and not l.startswith("#")] if os.path.exists(cp) else []
    dl = _dislen_lines(ctx)
    sr = _simrun_lines(ctx)
    allz = corpus + lines + dl + sr
    h, d = ctx.both(allz)
    off = len(corpus)
    ctx.notes["cases"], ctx.notes["impl"] = cases, h[off:off + len(lines)]
    ctx.notes["dislen"] = list(zip(dl, h[off + len(lines):off + len(lines) + len(dl)]))
    kinds = {}
    for l, a, b in zip(allz, h, d):
        k = l.split(" ")[0] + ":" + re.split(r"[ =]", a)[0]
        kinds[k] = kinds.get(k, 0) + 1
        if a != b:
            corr["disagreements"].append({"line": l[:2000], "impl": a[:600], "model": b[:600]})
    corr["cases"] += len(allz)
    classes = {}
    for c in cases:
        k = G.classify(c[0])[0]
        classes[k] = classes.get(k, 0) + 1
    corr["streams"]["sim"] = {"lines": len(lines), "strata": nstrata, "per_class": classes,
                              "armed_break_io": sum(1 for c in cases if c[3] != "-"),
                              "pc_sp_grid": ctx.notes.get("pcsp", 0)}
    corr["streams"]["dislen"] = {"lines": len(dl), "exhaustive_first_words": 65536}
    corr["streams"]["simrun"] = {"lines": len(sr)}
    corr["streams"]["answer_kinds"] = kinds
    # self-test of the specification: Lean SimArch.step / defined against the Python reference
    sub = cases[:: max(1, len(cases) // ctx.scale(3000, 20000))]
    alines, exp = [], []
    for (w, regs, cells, bio) in sub:
        cells = {a: v for a, v in cells.items() if a <= 0xffff}
        ref = R.arch_step(regs, cells)
        extra = sorted(set(ref[2]) - set(cells)) if ref[0] == "ok" else []
        alines.append("arch msp430 %s %s %s" % (",".join("%x" % r for r in regs),
                                                ",".join("%x:%02x" % (a, cells[a]) for a in sorted(cells)) or "-",
                                                ",".join("%x" % a for a in extra) or "-"))
        if ref[0] == "undefined":
            exp.append("undefined")
        else:
            keys = sorted(set(cells) | set(ref[2]))
            mem = ",".join("%x:%02x" % (k, ref[2].get(k, 0)) for k in keys if k in cells or ref[2].get(k, 0) != 0) or "-"
            exp.append("regs=" + ",".join("%x" % r for r in ref[1]) + " mem=" + mem)
    got = ctx.model(alines)
    bad = 0
    for l, a, b in zip(alines, got, exp):
        if a != b:
            bad += 1
            corr["disagreements"].append({"line": l[:2000], "impl": "python-reference: " + b[:500], "model": "lean-arch: " + a[:500]})
    corr["cases"] += len(alines)
    corr["streams"]["arch-selftest"] = {"lines": len(alines), "undefined": exp.count("undefined"), "mismatches": bad}
    corr["distinct_nontrivial"] = len(set(l for l, c in zip(lines, cases) if not G.classify(c[0])[0].startswith("X")))
    step = max(1, len(lines) // 5)
    corr["samples"] = [{"line": lines[i][:300], "impl": h[off + i][:300], "model": d[off + i][:300]} for i in range(0, len(lines), step)][:5]


MNEMONIC = {"D4": "mov", "D5": "add", "D6": "addc", "D7": "subc", "D8": "sub", "D9": "cmp", "Da": "dadd", "Db": "bit",
            "Dc": "bic", "Dd": "bis", "De": "xor", "Df": "and", "S0": "rrc", "S1": "swpb", "S2": "rra", "S3": "sxt",
            "S4": "push", "S5": "call", "S6": "reti"}


def judge(case, ans):
    """property oracle for one step; None, ('skip', reason) or (sig, expected, what)"""
    w, regs, cells, bio = case
    ref = R.arch_step(regs, {k: v for k, v in cells.items() if k <= 0xffff})
    if ref[0] == "undefined":
        return ("skip", ref[1])
    cl = G.classify(w)
    name = MNEMONIC.get(cl[0], cl[0])
    tag = "C14:step:%s:as%d:ad%d:bw%d:s%d:d%d" % ((name,) + cl[1:])
    p = G.parse_answer(ans)
    if "exit" in p:
        if bio == "-":
            return (tag + ":exit", "normal return", "simulator exited with status %d" % p["exit"])
        # the write that hit break_io must be the architecture's write of that byte
        a = int(bio, 16)
        if a <= 0xffff and ref[2].get(a, 0) & 0xff == p["exit"] and (a not in cells or True):
            return None
        return (tag + ":break-value", "exit status = byte written at break_io", "exit %d" % p["exit"])
    if "regs" not in p:
        return (tag + ":crash", "a result", ans[:200])
    diffs = []
    if p["ret"] != 0:
        diffs.append("ret")
    for i in range(16):
        if p["regs"][i] != ref[1][i]:
            diffs.append(["pc", "sp", "sr"][i] if i < 3 else "reg")
    for adr in set(p["mem"]) | set(cells) | set(ref[2]):
        if p["mem"].get(adr, 0) != ref[2].get(adr, 0):
            diffs.append("mem")
            break
    if diffs:
        d = "+".join(sorted(set(diffs)))
        return (tag + ":" + d, "regs %s" % ",".join("%x" % r for r in ref[1]),
                "differs in %s: %s" % (d, ans[:300]))
    return None


def _run_prog(ctx, name, source, extra_args, tmp):
    src = os.path.join(tmp, name + ".asm")
    hexf = os.path.join(tmp, name + ".hex")
    open(src, "w").write(source)
    r = subprocess.run([ctx.repo["naken_asm"], "-type", "hex", "-o", hexf, src], stdout=subprocess.PIPE, stderr=subprocess.PIPE,
                       env=nvlib.SAN_ENV, timeout=60, cwd=tmp)
    if r.returncode != 0 or not os.path.exists(hexf):
        return None, "assembly failed: " + r.stdout.decode(errors="replace")[-300:]
    u = nvlib.run_util(ctx.repo["naken_util"], ["-msp430"] + extra_args + ["-run", hexf], timeout=120, cwd=tmp)
    return u, None


def _final_dump(out):
    """registers / cycles of the last dump_registers() block"""
    regs = {}
    i = out.rfind("Simulation Register Dump")
    tail = out[i:] if i >= 0 else out
    for name, val in re.findall(r"(PC|SP|SR|CG|r\d+): 0x([0-9a-f]{4})", tail):
        regs[name.lower()] = int(val, 16)
    m = re.search(r"(\d+) clock cycles have passed", tail)
    return regs, int(m.group(1)) if m else None


def oracle(ctx, orc, focus=None):
    if "cases" in ctx.notes:
        cases, impl = ctx.notes["cases"], ctx.notes["impl"]
    else:
        cases, _ = gen_cases(ctx)
        impl = ctx.impl([_line(c) for c in cases])
    stats = {"defined_compared": 0, "undefined_skipped": {}, "exits": 0}
    for c, a in zip(cases, impl):
        orc["cases"] += 1
        j = judge(c, a)
        if j is None:
            stats["defined_compared"] += 1
            if a.startswith("exit="):
                stats["exits"] += 1
        elif j[0] == "skip":
            stats["undefined_skipped"][j[1]] = stats["undefined_skipped"].get(j[1], 0) + 1
        else:
            orc["failures"].append({"sig": j[0], "input": _line(c)[:1500], "expected": j[1], "observed": a[:400], "what": j[2],
                                    "replay_line": _line(c)})
    # auto-run over call trees (every CALL source mode): the run must end at the routine's own final ret with r6 = the
    # sum the call tree defines (the guide's CALL/RET semantics), not earlier and not by the cycle limit
    trees = ctx.notes.get("call_trees")
    if trees is None:
        _simrun_lines(ctx)
        trees = ctx.notes["call_trees"]
    tans = ctx.impl([l for l, _ in trees])
    stats["call_trees"] = len(trees)
    for (l, want), a in zip(trees, tans):
        orc["cases"] += 1
        pa = G.parse_answer(a)
        if pa.get("regs") is None or pa["regs"][6] != want or pa["regs"][1] != 0x0802:
            orc["failures"].append({"sig": "C14:run:calltree", "input": l[:1500], "expected": "r6=%#x sp=0x802 at the final ret" % want,
                                    "observed": a[:300], "what": "-run (auto_run) did not stop at the routine's final ret",
                                    "replay_line": l})
    # process level: naken_util -run and -break_io (docs/simulating.md)
    tmp = ctx.tmpdir()
    progs = [
        ("p1", ".msp430\n.org 0xf000\nstart:\n  mov.w #0x1234, r5\n  add.w #1, r5\n  ret\n.org 0xfffe\n  dw start\n",
         {"r5": 0x1235, "sp": 0x0802}, [0x4035, 0x5315, 0x4130]),
        ("p2", ".msp430\n.org 0xf000\nstart:\n  mov.w #5, r6\n  call #sub\n  call #sub\n  ret\nsub:\n  add.w r6, r6\n  ret\n.org 0xfffe\n  dw start\n",
         {"r6": 20, "sp": 0x0802}, [0x4036, 0x12b0, 0x5606, 0x4130, 0x12b0, 0x5606, 0x4130, 0x4130]),
        ("p3", ".msp430\n.org 0xf000\nstart:\n  mov.w #0x8000, r7\n  mov.w #0x0200, r8\n  mov.w r7, 0(r8)\n  add.w @r8+, r7\n  addc.w #0, r9\n  ret\n.org 0xfffe\n  dw start\n",
         {"r7": 0, "r8": 0x0202, "r9": 1, "sp": 0x0802}, None),
        # PUSH with SP as the operand register in every source mode: "SP - 2 -> SP, src -> @SP" (the source is evaluated
        # with the decremented SP); S = 0x0800 is the SP -run starts with
        ("p4", ".msp430\n.org 0xf000\nstart:\n  mov.w sp, r10\n  push.w sp\n  pop r4\n  push.w #0x3333\n  push.w #0x2222\n"
               "  mov.w #0x1111, -2(sp)\n  push.w 2(sp)\n  pop r5\n  mov.w #0x1111, -2(sp)\n  push.w @sp\n  pop r6\n"
               "  mov.w #0x1111, -2(sp)\n  push.w @sp+\n  mov.w sp, r7\n  sub.w r10, r7\n  mov.w @sp, r8\n  add.w #4, sp\n  ret\n"
               ".org 0xfffe\n  dw start\n",
         {"r4": 0x07fe, "r5": 0x2222, "r6": 0x1111, "r7": 0xfffc, "r8": 0x1111, "sp": 0x0802}, None),
    ]
    for name, src, want, words in progs:
        u, err = _run_prog(ctx, name, src, [], tmp)
        orc["cases"] += 1
        if err:
            orc["failures"].append({"sig": "C14:run:%s:assemble" % name, "input": src, "expected": "hex file", "observed": err, "what": err})
            continue
        regs, cyc = _final_dump(u["out"])
        bad = [k for k, v in want.items() if regs.get(k) != v]
        if u["rc"] != 0 or bad:
            orc["failures"].append({"sig": "C14:run:%s:registers" % name, "input": src, "expected": str(want),
                                    "observed": "rc=%d regs=%s" % (u["rc"], {k: regs.get(k) for k in want}),
                                    "what": "-run did not report the registers of the final ret"})
        if words is not None:
            expc = sum(R.cycles(w) for w in words)
            if cyc != expc:
                orc["failures"].append({"sig": "C14:run:%s:cycles" % name, "input": src, "expected": str(expc), "observed": str(cyc),
                                        "what": "cycle count reported by -run differs from the guide's tables"})
    for name, ins, want in (("b1", "mov.b #5, &0", 5), ("b2", "mov.w #0x0107, &0", 7), ("b3", "mov.b #0, &0", 0)):
        src = ".msp430\n.org 0xf000\nstart:\n  mov.w #1, r5\n  %s\n  mov.w #2, r5\n  ret\n.org 0xfffe\n  dw start\n" % ins
        u, err = _run_prog(ctx, name, src, ["-break_io", "0x0000"], tmp)
        orc["cases"] += 1
        if err or u["rc"] != want or (want == 0 and "r5: 0x0002" in u["out"][u["out"].rfind("Register Dump"):]):
            orc["failures"].append({"sig": "C14:break_io:%s" % ins.replace(" ", "_"), "input": src, "expected": "exit status %d" % want,
                                    "observed": err or ("rc=%d" % u["rc"]), "what": "-break_io exit status"})
    orc["stats"] = stats
    orc["distinct_nontrivial"] = stats["defined_compared"]
    orc["samples"] = [{"line": _line(cases[i])[:200], "impl": impl[i][:200]} for i in range(0, len(cases), max(1, len(cases) // 4))][:4]


def replay(ctx, rec):
    f = rec.get("failure") or {}
    line = f.get("replay_line")
    if not line:
        return {"fails": False, "note": "no replay line recorded", "record": rec}
    ans = ctx.impl([line])[0]
    parts = line.split(" ")
    regs = [int(x, 16) for x in parts[3].split(",")]
    cells = {} if parts[4] == "-" else {int(a, 16): int(b, 16) for a, b in (it.split(":") for it in parts[4].split(","))}
    pc = regs[0]
    w = cells.get(pc, 0) | (cells.get(pc + 1, 0) << 8)
    j = judge((w, regs, cells, parts[2]), ans)
    return {"fails": j is not None and j[0] != "skip", "line": line, "impl": ans, "verdict": j}
