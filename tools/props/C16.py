"""C16 — naken_asm never crashes, hangs or corrupts memory, whatever the source text."""
import os, re, subprocess, time, glob
from concurrent.futures import ThreadPoolExecutor
import nvlib, gen_hostile as G

ID = "C16"
LEAN_MODULES = ["NakenVerif.Props.C16"]
THEOREMS = ["NakenVerif.C16." + t for t in (
    "reader_never_faults", "tokens_get_never_faults", "token_fits_buffer", "unget_bounded", "unget_stack_bounded",
    "macro_nesting_too_deep_is_error", "token_too_long_is_error", "get_char_consumes", "token_loop_terminates",
    "expansion_budget_partial", "macro_name_never_faults", "macro_params_never_fault", "macro_params_too_long_is_error",
    "macro_body_never_faults", "macro_body_too_long_is_error", "macro_args_never_fault", "macro_args_too_long_is_error",
    "assemble_depth_bounded", "too_many_conditionals_is_error", "too_many_includes_is_error", "expression_depth_bounded",
    "ifdef_parens_bounded", "exit_status_01")] + [
    "NakenVerif.Reader.caps_fit", "NakenVerif.Reader.macro_caps_fit", "NakenVerif.Reader.Nest.limits_sane"]
RULE = ("tk/mp/mx: the real tokens_get / macros_parse / macros_expand_params run in-process (sanitised) on the same bytes as "
        "the Lean model: tokens at every buffer length -4..+9 for 16 token kinds x 8 buffer lengths x 3 flag sets, random "
        "lexer soup incl. bytes 0x00/0x80..0xff, macro tables nested to MAX_NESTED_MACROS-2..+2, self/mutual reference, "
        "arguments and parameter lists at the limits -6..+1, arena fill; answers compared byte for byte.  Oracle: every "
        "in-process answer (a sanitizer report, a signal or a timeout is a failure), one garbage instruction per source for "
        "every CPU of cpu_list, every directive with missing/garbage operands, and process-level runs of the sanitised "
        "naken_asm on the hostile classes of the property text with a CPU-time limit linear in the input size "
        "(conditionals nested through every entry path: taken branch, .else part of a false .if/.ifdef/.ifndef, mixed, from "
        "include files and .repeat, at MAX-1/MAX/MAX+1/5000/50000).  nest: event sequences (both recursion sites of the "
        "conditionals, include, repeat, macro) rendered to sources: recursion depth reported by the NV_TRACE hook and the "
        "way the run ends against Reader/Nest.lean.  "
        "distinct = distinct lines / sources; non-trivial = longer than 8 bytes.")
MODELLED = ("tokens_get_char, tokens_unget_char, tokens_get (accumulation loop, post-processing, macro entry, expansion budget), "
            "tokens_push, macros_get_char, macros_push_define, macros_parse_token, macros_parse (parameter list, body loop), "
            "macros_expand_params (argument loop, arena substitution); nesting counters of assemble/.if/.include/.repeat, "
            "eval_expression depth, .if parenthesis depth; exit status of main")
NOT_MODELLED = ("the symbol table inside tokens_get (a reader without labels), the 68 asm/<cpu>.cpp parsers, directives other "
                "than the ones named, Memory, the file writers, the heap (MemoryPool, MemoryPage), wall-clock time: all of "
                "these only by sanitised exploration on generated hostile inputs, never as proof")
ASSUMPTIONS = ["callers pass len >= 1 and a buffer of at least len bytes to tokens_get (audited by a scan of all call sites: "
               "every call passes TOKENLEN and a char[TOKENLEN])",
               "tokens_get_char / tokens_unget_char are called only from core/tokens.cpp, core/Macros.cpp and the `equ` loop "
               "of core/AsmContext.cpp (audited by a scan on every run)",
               "expansion_budget_partial: that a whole pass of tokens_get satisfies PassOk is by inspection of its two "
               "primitives (proved for tokens_get_char), not a Lean proof"]
TRUSTED_BASE = ["harness/nv_dump_reader.cpp reads extents of local arrays and literals of bound tests from the source text "
                "by anchored patterns (fails when a pattern no longer matches)",
                "tools/gen_hostile.py", "source-scan audits in tools/props/C16.py"]


def _clean_exit(ans):
    """exit(1) after an 'Internal Error' diagnostic is an allowed outcome"""
    return ans.startswith("DIED rc=1 ") and "Sanitizer" not in ans and "runtime error" not in ans


def _canon(ans):
    return "exit" if _clean_exit(ans) else ans


def gen_all(ctx):
    L = G.limits()
    tk, d1 = G.tk_lines(ctx, L)
    mp, d2 = G.mp_lines(ctx, L)
    mx, d3 = G.mx_lines(ctx, L)
    return L, tk, mp, mx, {"tk": d1, "mp": d2, "mx": d3}


def correspondence(ctx, corr):
    L, tk, mp, mx, dist = gen_all(ctx)
    lines = tk + mp + mx
    cp = os.path.join(nvlib.VERIF, "corpus", ID, "lines.txt")
    if os.path.exists(cp):
        lines = [l.strip() for l in open(cp) if l.strip() and not l.startswith("#")] + lines
    h, d = ctx.both(lines)
    ctx.notes["lines"], ctx.notes["impl"], ctx.notes["L"] = lines, h, L
    kinds = {}
    for l, a, b in zip(lines, h, d):
        a2 = _canon(a)
        k = "exit" if a2 == "exit" else ("died" if a.startswith("DIED") else "ok")
        kinds[k] = kinds.get(k, 0) + 1
        if a2 != b:
            corr["disagreements"].append({"line": l[:3000], "impl": a[:600], "model": b[:600]})
    corr["cases"] += len(lines)
    corr["streams"]["reader"] = {"lines": len(lines), "by_command": {k: sum(v.values()) for k, v in dist.items()},
                                 "classes": dist, "impl_outcomes": kinds}
    corr["distinct_nontrivial"] = len(set(l for l in lines if len(l) > 40))
    step = max(1, len(lines) // 6)
    corr["samples"] = [{"line": lines[i][:200], "impl": h[i][:200], "model": d[i][:200]} for i in range(0, len(lines), step)][:6]
    nest_stream(ctx, corr, L)


def run_nest(exe, tmp, idx, events):
    """the real (sanitised) naken_asm on the rendering of an event sequence, with the NV_TRACE hook on: how deep did
    assemble() recurse, and how did the run end"""
    src, files = G.render_nest(events)
    d = os.path.join(tmp, "nest%d" % idx)
    os.makedirs(d, exist_ok=True)
    for fn, c in list(files.items()) + [("t.asm", src)]:
        with open(os.path.join(d, fn), "w") as f:
            f.write(c)
    env = dict(nvlib.SAN_ENV)
    env["NV_TRACE"] = "1"
    try:
        r = subprocess.run([exe, "-o", "t.out", "t.asm"], cwd=d, stdout=subprocess.PIPE, stderr=subprocess.PIPE, env=env, timeout=120)
        rc, out, err = r.returncode, r.stdout.decode("latin-1"), r.stderr.decode("latin-1")
    except subprocess.TimeoutExpired:
        rc, out, err = -999, "", ""
    for fn in os.listdir(d):
        os.unlink(os.path.join(d, fn))
    os.rmdir(d)
    depths = [int(x) for x in re.findall(r"^NVT enter (\d+)", err, re.M)]
    mx = max(depths) if depths else 0
    if rc == 0:
        return "ok max=%d" % mx
    if rc == 1:
        kind = ("ifs" if "Conditionals nested too deep" in out else "includes" if "Includes nested too deep" in out
                else "repeat" if re.search(r"Unexpected token 'repeat'", out) else "other:" + out.strip().split("\n")[-3:][0][:60])
        return "err=%s max=%d" % (kind, mx)
    san = re.search(r"(ERROR: AddressSanitizer: \S+)", err)
    return "DIED rc=%d max=%d %s" % (rc, mx, san.group(1) if san else "")


def nest_stream(ctx, corr, L):
    """model Reader/Nest.lean (both recursion sites of the conditionals, include, repeat) against the recursion depth
    the trace hook reports and the way the run ends"""
    seqs = G.nest_sequences(ctx, L)
    exe, tmp = ctx.repo["naken_asm"], ctx.tmpdir()
    with ThreadPoolExecutor(min(12, nvlib.NPROC)) as ex:
        impl = list(ex.map(lambda a: run_nest(exe, tmp, a[0], a[1][1]), enumerate(seqs)))
    lines = ["nest " + ev.replace("M", "").replace("m", "") for _, ev in seqs]
    model = [re.sub(r" at=\d+", "", m) for m in ctx.model(lines)]
    ctx.notes["nest"] = list(zip(seqs, impl))
    dist, outcomes = {}, {}
    for (cls, ev), a, b in zip(seqs, impl, model):
        dist[cls] = dist.get(cls, 0) + 1
        outcomes[a.split(" ")[0]] = outcomes.get(a.split(" ")[0], 0) + 1
        if a != b:
            corr["disagreements"].append({"line": ("nest[%s] " % cls + ev)[:3000], "impl": a[:300], "model": b[:300]})
    corr["cases"] += len(lines)
    corr["streams"]["nest"] = {"sequences": len(seqs), "classes": dist, "impl_outcomes": outcomes,
                               "deepest": max([len(ev) for _, ev in seqs] + [0])}


# ---------------------------------------------------------------------------
# process level
# ---------------------------------------------------------------------------

DIAG = re.compile(r"rror|annot|nknown|nexpected|xpect|nvalid| at |ailed|Too many|not ")


def run_asm(exe, src, tmp, name, args=(), files=None, timeout=60):
    d = os.path.join(tmp, name)
    os.makedirs(d, exist_ok=True)
    for fn, c in (files or {}).items():
        with open(os.path.join(d, fn), "wb") as f:
            f.write(c if isinstance(c, bytes) else c.encode("latin-1"))
    with open(os.path.join(d, "t.asm"), "wb") as f:
        f.write(src if isinstance(src, bytes) else src.encode("latin-1"))
    cmd = [exe, "-o", "t.out"] + list(args) + ["t.asm"]
    p = subprocess.Popen(cmd, cwd=d, stdout=subprocess.PIPE, stderr=subprocess.PIPE, env=nvlib.SAN_ENV)
    t0 = time.time()
    out = err = b""
    try:
        out, err = p.communicate(timeout=timeout)
        timed_out = False
    except subprocess.TimeoutExpired:
        p.kill()
        out, err = p.communicate()
        timed_out = True
    wall = time.time() - t0
    rc = p.returncode
    for fn in os.listdir(d):
        try:
            os.unlink(os.path.join(d, fn))
        except OSError:
            pass
    m = re.search(r"(ERROR: AddressSanitizer: \S+|runtime error: [^\n]{0,80})", err.decode("latin-1"))
    loc = re.search(r"/((?:asm|core|common|table|disasm|fileio|main)/[\w.]+:\d+)", err.decode("latin-1"))
    return {"rc": rc, "timeout": timed_out, "wall": wall, "out": out.decode("latin-1"),
            "san": (m.group(1) if m else "") + (" " + loc.group(1) if loc else "")}


def time_limit(nbytes):
    """seconds of wall-clock allowed for an input of nbytes (sanitised build, loaded machine): linear in the input"""
    return 20.0 + 40e-6 * nbytes


def judge_run(cls, src, r, nbytes):
    """property oracle for one process-level run; returns None or (sig, expected, observed, what)"""
    if r["timeout"]:
        return ("C16:hang:" + cls, "termination within %.0f s" % time_limit(nbytes), "still running",
                "naken_asm did not finish in time proportional to the input")
    if r["rc"] not in (0, 1):
        return ("C16:crash:" + cls + ":" + (r["san"] or "rc=%d" % r["rc"]), "exit status 0 or 1",
                "exit %d %s" % (r["rc"], r["san"]), "naken_asm died")
    if r["rc"] == 1 and not DIAG.search(r["out"]):
        return ("C16:no-diagnostic:" + cls, "a diagnostic", r["out"][-200:], "exit status 1 without a diagnostic")
    return None


# ---------------------------------------------------------------------------
# audits of the source text (closed-world assumptions of the model)
# ---------------------------------------------------------------------------

def audits():
    fails = []
    srcs = []
    for d in ("core", "asm", "common", "main", "fileio", "disasm", "simulate", "table"):
        srcs += glob.glob(os.path.join(nvlib.REPO, d, "*.cpp"))
    char_api = {}
    for p in srcs:
        rel = os.path.relpath(p, nvlib.REPO)
        text = open(p, errors="replace").read()
        code = re.sub(r"//[^\n]*", "", text)
        for m in re.finditer(r"\b(tokens_get_char|tokens_unget_char)\s*\(", code):
            char_api.setdefault(rel, set()).add(m.group(1))
        # every tokens_get call: buffer declared char x[TOKENLEN] (or handed in), length TOKENLEN
        for m in re.finditer(r"\btokens_get\s*\(\s*(\w+)\s*,\s*(\w+)\s*,\s*([^)]+?)\s*\)", code):
            ctxname, buf, ln = m.groups()
            if rel == "core/tokens.cpp":
                continue
            if ln == "TOKENLEN":
                decl = re.search(r"char\s+%s\s*\[\s*TOKENLEN(\s*\+\s*\d+)?\s*\]" % re.escape(buf), code)
                param = re.search(r"char\s*\*\s*%s\b" % re.escape(buf), code)
                if not decl and not param:
                    fails.append(("tokens_get-buffer:%s:%s" % (rel, buf), "buffer of TOKENLEN bytes", "no such declaration"))
            elif ln in ("len", "length", "sizeof(%s)" % buf, "token_len"):
                pass
            else:
                fails.append(("tokens_get-length:%s:%s" % (rel, ln), "TOKENLEN", ln))
        for m in re.finditer(r"\bexit\s*\(\s*([^)]*)\)", code):
            if m.group(1).strip() not in ("0", "1", "EXIT_SUCCESS", "EXIT_FAILURE"):
                if rel.startswith(("core/", "asm/", "common/", "main/naken_asm", "fileio/")):
                    fails.append(("exit-status:%s:%s" % (rel, m.group(1).strip()), "exit(0) or exit(1)", m.group(0)))
    allowed = {"core/tokens.cpp", "core/Macros.cpp", "core/AsmContext.cpp"}
    for rel in sorted(set(char_api) - allowed):
        fails.append(("char-api-caller:" + rel, "only tokens.cpp, Macros.cpp, AsmContext.cpp", ",".join(sorted(char_api[rel]))))
    # the model knows exactly one tokens_unget_char in AsmContext.cpp (the `equ` loop) and none in the param loops
    n_unget = {rel: len(re.findall(r"\btokens_unget_char\s*\(", re.sub(r"//[^\n]*", "", open(os.path.join(nvlib.REPO, rel)).read())))
               for rel in allowed}
    expect = {"core/tokens.cpp": None, "core/Macros.cpp": 2, "core/AsmContext.cpp": 1}
    for rel, n in expect.items():
        if n is not None and n_unget[rel] != n:
            fails.append(("unget-sites:%s" % rel, "%d calls of tokens_unget_char" % n, str(n_unget[rel])))
    return fails


def oracle(ctx, orc, focus=None):
    L = ctx.notes.get("L") or G.limits()
    stats = {"inproc_died": 0, "inproc_exit1": 0}
    # 1. the in-process answers of the correspondence stream
    if "lines" in ctx.notes:
        lines, impl = ctx.notes["lines"], ctx.notes["impl"]
    else:
        _, tk, mp, mx, _ = gen_all(ctx)
        lines = tk + mp + mx
        impl = ctx.impl(lines)
    for l, a in zip(lines, impl):
        orc["cases"] += 1
        if a.startswith("DIED") or a == "MISSING":
            if _clean_exit(a):
                stats["inproc_exit1"] += 1
                continue
            stats["inproc_died"] += 1
            what = re.sub(r"0x[0-9a-f]+", "X", a)[:160]
            orc["failures"].append({"sig": "C16:inproc:%s:%s" % (l.split(" ")[0], what), "input": l[:400],
                                    "expected": "an answer (token stream, error or exit 1)", "observed": a[:400],
                                    "what": "the real reader/macro code died in-process", "replay_line": l})
    # 2. one statement per source, in-process: every CPU with garbage operands, every directive with garbage
    sweep = G.cpu_garbage(ctx, ctx.scale(150, 800)) + G.directive_garbage(ctx, ctx.scale(6000, 30000))
    sl = ["c16asm " + nvlib.hexs(s) for _, s in sweep]
    ans = nvlib.run_lines(ctx.harness, sl, timeout=60, shards=64)
    sw = {}
    for (cls, src), l, a in zip(sweep, sl, ans):
        orc["cases"] += 1
        sw[cls.split(":")[0]] = sw.get(cls.split(":")[0], 0) + 1
        if a.startswith("st="):
            # (whether the rejection carried a specific diagnostic is C12's question; main() always adds its own)
            continue
        if _clean_exit(a):
            stats["inproc_exit1"] += 1
            continue
        what = re.sub(r"0x[0-9a-f]+", "X", a)[:120]
        orc["failures"].append({"sig": "C16:sweep:%s:%s" % (cls, what), "input": src[:300], "expected": "st=0|1",
                                "observed": a[:300], "what": "assembling one garbage statement died", "replay_line": l,
                                "source_hex": nvlib.hexs(src)})
    stats["sweep"] = sw
    # 3. hostile source files, process level, sanitised naken_asm
    exe = ctx.repo["naken_asm"]
    tmp = ctx.tmpdir()
    hostile = G.hostile_sources(ctx, L)
    # the writers walk every address between low and high: keep that cost out of the classes that are not about it
    def job(i):
        cls, src, args, files = hostile[i]
        nbytes = len(src) + sum(len(v) for v in files.values())
        r = run_asm(exe, src, tmp, "h%d" % i, args=args, files=files, timeout=time_limit(nbytes))
        return i, r, nbytes
    with ThreadPoolExecutor(min(12, nvlib.NPROC)) as ex:
        res = list(ex.map(job, range(len(hostile))))
    pc = {}
    slowest = (0, "")
    for i, r, nbytes in res:
        cls, src, args, files = hostile[i]
        orc["cases"] += 1
        pc[cls] = pc.get(cls, 0) + 1
        if r["wall"] > slowest[0]:
            slowest = (round(r["wall"], 2), cls)
        f = judge_run(cls, src, r, nbytes)
        if f:
            orc["failures"].append({"sig": f[0], "input": (src if isinstance(src, str) else src.decode("latin-1"))[:300],
                                    "expected": f[1], "observed": f[2], "what": f[3], "args": args,
                                    "source_hex": nvlib.hexs(src), "files": {k: nvlib.hexs(v) for k, v in files.items()}})
    stats["process_classes"] = pc
    stats["slowest_process_run"] = slowest
    # 3b. the nesting sequences of the correspondence stream: a run that dies is a failure by itself
    nest = ctx.notes.get("nest")
    if nest is None:
        seqs = G.nest_sequences(ctx, L)
        with ThreadPoolExecutor(min(12, nvlib.NPROC)) as ex:
            nest = list(zip(seqs, ex.map(lambda a: run_nest(exe, tmp, a[0], a[1][1]), enumerate(seqs))))
    stats["nest_runs"] = len(nest)
    for (cls, ev), a in nest:
        orc["cases"] += 1
        if a.startswith("DIED"):
            src, files = G.render_nest(ev)
            orc["failures"].append({"sig": "C16:crash:nest-%s:%s" % (cls, re.sub(r"max=\d+ ?", "", a)[5:60].strip()), "input": src[:300],
                                    "expected": "exit status 0 or 1", "observed": a, "what": "naken_asm died on nested blocks",
                                    "args": [], "source_hex": nvlib.hexs(src), "files": {k: nvlib.hexs(v) for k, v in files.items()}})
    # 4. closed-world audits of the source text
    for sig, exp, obs in audits():
        orc["cases"] += 1
        orc["failures"].append({"sig": "C16:audit:" + sig, "input": sig, "expected": exp, "observed": obs,
                                "what": "an assumption of the model about the callers no longer holds"})
    # 5. known findings: time that is not proportional to the input
    for name, src, args in canaries(ctx):
        t0 = time.time()
        r = run_asm(exe, src, tmp, "canary_" + name, args=args, timeout=600)
        orc["cases"] += 1
        stats["canary_" + name] = round(r["wall"], 1)
        if r["rc"] not in (0, 1) or r["timeout"]:
            orc["failures"].append({"sig": "C16:crash:canary-%s:%s" % (name, r["san"] or r["rc"]), "input": name,
                                    "expected": "exit 0/1", "observed": str(r["rc"]), "what": "canary died"})
        elif r["wall"] > canary_limit(name, len(src)):
            orc["failures"].append({"sig": "C16:time:" + name, "input": src[:80] if isinstance(src, str) else name,
                                    "expected": "time proportional to the %d input bytes" % len(src),
                                    "observed": "%.1f s" % r["wall"],
                                    "what": "run time grows with the address span / the square of the symbol count, not with the input"})
    orc["stats"] = stats
    orc["distinct_nontrivial"] = len(set(s if isinstance(s, str) else s.decode("latin-1") for _, s, _, _ in hostile if len(s) > 8)) + \
        len(set(s for _, s in sweep))
    orc["samples"] = [{"class": hostile[i][0], "bytes": len(hostile[i][1]), "rc": r["rc"], "wall": round(r["wall"], 2)}
                      for i, r, _ in res[:: max(1, len(res) // 6)]][:6]


def canaries(ctx):
    """inputs that reproduce the listed findings (run time not proportional to the input)"""
    # an image spanning 2^30 addresses: every writer walks all of them (srec prints nothing for the gap)
    yield "wide-span", ".msp430\n.db 1\n.org 0x3fffffff\n.db 1\n", ["-type", "srec"]
    # n labels: every definition and every lookup walks the list
    n = 22000
    yield "quadratic-symbols", "".join("l%d:\n" % i for i in range(n)), []
    # .repeat copies everything between the location counter at .repeat and at .endr, byte by byte through the page list
    yield "repeat-org", ".msp430\n.repeat 2\n.org 0x300000\n.endr\n", ["-type", "srec"]


def canary_limit(name, nbytes):
    # the same linear rule as for every other input, without the fixed allowance for a loaded machine
    return 2.0 + 4e-6 * nbytes


def replay(ctx, rec):
    f = rec.get("failure") or {}
    if f.get("replay_line"):
        a = ctx.impl([f["replay_line"]])[0]
        bad = (a.startswith("DIED") and not _clean_exit(a)) or a in ("MISSING", "st=1 diag=0")
        return {"fails": bad, "line": f["replay_line"][:300], "impl": a[:400]}
    if f.get("source_hex"):
        src = nvlib.unhex(f["source_hex"])
        files = {k: nvlib.unhex(v) for k, v in (f.get("files") or {}).items()}
        r = run_asm(ctx.repo["naken_asm"], src, ctx.tmpdir(), "replay", args=f.get("args") or [], files=files,
                    timeout=time_limit(len(src)))
        j = judge_run("replay", src, r, len(src))
        return {"fails": j is not None, "rc": r["rc"], "san": r["san"], "verdict": j}
    return {"fails": False, "note": "nothing to replay", "record": rec}
