"""Structured mutations of an ELF file for the C03 `rd` stream (field aware: header, section header table, symbol
table), plus truncations.  Only `rng` is used."""
import struct


def _layout(data):
    if len(data) < 52 or data[:4] != b"\x7fELF":
        return None
    cls, big = data[4], data[5] == 2
    e = ">" if big else "<"
    try:
        if cls == 1:
            shoff, = struct.unpack(e + "I", data[32:36])
            shentsize, shnum, shstrndx = struct.unpack(e + "HHH", data[46:52])
            off = {"shoff": (32, 4), "shentsize": (46, 2), "shnum": (48, 2), "shstrndx": (50, 2), "machine": (18, 2)}
            sh = {"name": (0, 4), "type": (4, 4), "flags": (8, 4), "addr": (12, 4), "offset": (16, 4), "size": (20, 4)}
            sym = {"name": (0, 4), "value": (4, 4), "info": (12, 1)}
            symsize = 16
        else:
            shoff, = struct.unpack(e + "Q", data[40:48])
            shentsize, shnum, shstrndx = struct.unpack(e + "HHH", data[58:64])
            off = {"shoff": (40, 8), "shentsize": (58, 2), "shnum": (60, 2), "shstrndx": (62, 2), "machine": (18, 2)}
            sh = {"name": (0, 4), "type": (4, 4), "flags": (8, 8), "addr": (16, 8), "offset": (24, 8), "size": (32, 8)}
            sym = {"name": (0, 4), "info": (4, 1), "value": (8, 8)}
            symsize = 24
    except struct.error:
        return None
    return {"e": e, "big": big, "cls": cls, "shoff": shoff, "shentsize": shentsize, "shnum": shnum, "hdr": off, "sh": sh,
            "sym": sym, "symsize": symsize}


def _put(b, pos, n, v, big):
    v &= (1 << (8 * n)) - 1
    b[pos:pos + n] = v.to_bytes(n, "big" if big else "little")


def _get(b, pos, n, big):
    return int.from_bytes(b[pos:pos + n], "big" if big else "little")


MACHINES = [4, 8, 10, 20, 23, 40, 71, 83, 94, 105, 118, 165, 186, 220, 243, 247, 0x1223, 0, 1, 3, 62, 183, 0xffff]


def mutants(rng, data, n):
    L = _layout(data)
    out = []
    for _ in range(n):
        b = bytearray(data)
        k = rng.randrange(12)
        if L is None or k == 0:
            out.append(bytes(b[:rng.randrange(len(b) + 1)]))
            continue
        big = L["big"]
        if k == 1:       # truncate inside the section header table / just before it
            lo = max(0, L["shoff"] - 8)
            out.append(bytes(b[:rng.randrange(lo, len(b) + 1)]))
            continue
        if k == 2:
            pos, n_ = L["hdr"]["machine"]
            _put(b, pos, n_, rng.choice(MACHINES), big)
        elif k == 3:
            f = rng.choice(["shnum", "shstrndx", "shentsize", "shoff"])
            pos, n_ = L["hdr"][f]
            v = _get(b, pos, n_, big)
            _put(b, pos, n_, max(0, v + rng.choice([-1, 1, 2, -2, 4, 40, 64])) if f != "shstrndx" else rng.randrange(0, 9), big)
        elif k == 4:
            # EI_DATA.  An ELF64 file read in the other byte order has offsets above 2^40: whether fseek() accepts those
            # depends on the file system (ext4: EINVAL above 16 TiB), which is outside the model
            b[5] = rng.choice([0, 1, 2, 3] if L["cls"] == 1 else [0, 3, b[5]])
        elif k == 5:
            # EI_CLASS: an ELF32 header read as ELF64 gives such offsets too
            b[4] = rng.choice([0, 1, 3] if L["cls"] == 1 else [0, 1, 2, 3])
        elif k in (6, 7, 8) and L["shnum"]:
            i = rng.randrange(L["shnum"])
            f = rng.choice(["name", "type", "flags", "addr", "offset", "size", "size", "flags"])
            pos, n_ = L["sh"][f]
            pos += L["shoff"] + i * L["shentsize"]
            if pos + n_ <= len(b):
                v = _get(b, pos, n_, big)
                if f == "flags":
                    v ^= rng.choice([4, 2, 1, 6])
                elif f == "type":
                    v = rng.choice([0, 1, 2, 3, 8, 2, 3])
                elif f == "size":
                    v = max(0, v + rng.choice([-1, 1, 3, 16, 24, -16, 100, 1000]))
                elif f == "addr":
                    v = rng.choice([0, 1, 0xffff, 0x10000, 0x7fffffff, 0x80000000, 0xfffffff0, v + 1])
                elif f == "offset":
                    v = max(0, v + rng.choice([-1, 1, 4, -4, 100, len(b)]))
                else:
                    v = rng.choice([0, 1, 11, 19, 27, 36, 37, 42, v + 1, 1000])
                _put(b, pos, n_, v, big)
        else:
            # a symbol table entry: find the SYMTAB section
            done = False
            for i in range(L["shnum"]):
                p = L["shoff"] + i * L["shentsize"]
                if p + L["shentsize"] > len(b):
                    break
                if _get(b, p + 4, 4, big) == 2:
                    so = _get(b, p + L["sh"]["offset"][0], L["sh"]["offset"][1], big)
                    ss = _get(b, p + L["sh"]["size"][0], L["sh"]["size"][1], big)
                    cnt = ss // L["symsize"]
                    if cnt:
                        j = rng.randrange(cnt)
                        f = rng.choice(["name", "value", "info"])
                        pos, n_ = L["sym"][f]
                        pos += so + j * L["symsize"]
                        if pos + n_ <= len(b):
                            v = _get(b, pos, n_, big)
                            v = {"name": rng.choice([0, 1, 2, v + 1, 5]), "value": rng.randrange(1 << 32),
                                 "info": rng.choice([0, 1, 2, 3, 4, 16, 17, 18, 19, 20, 0xff])}[f]
                            _put(b, pos, n_, v, big)
                            done = True
                    break
            if not done:
                b = b[:rng.randrange(len(b) + 1)]
        out.append(bytes(b))
    return out
