"""C18 — the listing file tells the truth about the output."""
import os, json, collections
from concurrent.futures import ThreadPoolExecutor
import nvlib, gen_listing as GL, gen_src as S, lst_parse as LP

ID = "C18"
QUICK_K = 1      # the stream sizes below already give a quick tier of about a minute
THOROUGH_K = 2   # ... and a thorough tier of about five minutes (x8 took 26 minutes)
LEAN_MODULES = ["NakenVerif.Props.C18"]
THEOREMS = ["NakenVerif.Listing." + t for t in (
    "dump_shows_exactly_the_data", "dump_true", "dump_complete_once", "dump_range_finite", "cpu_list_units_fit_dump",
    "walk_lines_tile", "listing_walk_is_common_walk", "exact_of_walk", "line_is_disasm_of_shown_bytes",
    "msp430_line_cells_exact", "riscv_line_cells_exact", "msp430_len_local", "msp430_advance_is_count", "riscv_len_local",
    "msp430_adjust_skips_exactly_the_pad", "riscv_call_exact_of_len4",
    "listing_bytes_true", "listing_complete_once", "listing_low_high_match", "listing_symbols_match",
    "overwrite_counterexample", "top_of_memory_counterexample", "include_code_counterexample",
    "unaligned_code_counterexample", "repeat_gap_counterexample")]
RULE = ("programs: one program per case from tools/gen_listing.py (CPU from corpus/statements x shape: plain, instruction after "
        "odd-length data, .repeat of code/data/mixed/with a gap/behind odd data, reservations and alignments, several .org "
        "segments, 64 KiB page boundaries, page geometry (a data / code run that ends on the last byte of a page or a few bytes "
        "in front of it, run lengths 1..17 and 31..33, 0-3 never allocated pages, the next run on the first byte of a later "
        "page or inside it, bytes_per_address 1/2/4, fixed grid + random), macro bodies, .include files, data only (both byte orders), data runs that start "
        "inside an address unit, code only, empty program, labels everywhere, a second .org over assembled bytes, program "
        "ending at 2^32); each is assembled by the real naken_asm with -l (process level), the .lst is parsed, the output "
        "file decoded by tools/fileio_spec.py, and compared byte by byte.  A case is non-trivial when the program has >= 3 "
        "statements; distinct = distinct source texts.")
MODELLED = ("the marks (source line / DL_DATA / DL_NO_CG) every statement leaves per address: data directives (Core.Directives), "
            "instructions as their emitted bytes (pad byte, code bytes with marks), .repeat (body once, copy loop of parse_repeat "
            "with data copied as data and everything else as code, listing of the copies run by run); "
            "AsmContext::assemble's list_output(start_address, address) call; the generic formatter loop "
            "`while (start < end) { count = disasm(); print count bytes; start += count; }`, list_output_msp430 (odd pad skip, "
            "word lines + continuation lines, length and cycles from the regenerated table), list_output_riscv (16/32-bit "
            "lines); the 'data sections' dump of main() (runs of DL_DATA bytes, 16 columns, address units, blank columns in "
            "front of a run that starts inside a unit); Symbols::print; the low/high summary of print_info")
NOT_MODELLED = ("the text of the MSP430 disassembly (length and cycles only; the text is checked by re-running the real formatter "
                "on the shown bytes alone); the other 60-odd list_output_<cpu> functions (covered by the generic-loop theorem "
                "for any decoder with length >= 1 plus the exploration streams, not by a per-CPU proof); source echo; "
                "macro/include expansion (C09: the statement sequence after expansion is the input); link() imports")
ASSUMPTIONS = ["the per-CPU table tools/lst_parse.py FORMATS (which columns of an instruction line are the address and the "
               "bytes, in which order a printed word lies in memory) is read off the listing's appearance and is trusted",
               "instruction encodings are input of the listing model (taken from the real assembler's image through labels "
               "around every instruction); that they decode to the same length is C01/C07 for MSP430 and RISC-V and is "
               "checked case by case (class walk-mismatch) for the others"]
TRUSTED_BASE = ["tools/lst_parse.py (listing parser, ~250 lines)", "tools/fileio_spec.py decode_ihex"]

TIMEOUT = 40

CPUS_WORD_UNITS = "avr8|cp1610|dspic|lc3|pdk13|pdk14|pdk15|pic14|propeller|propeller2|unsp|msp430|msp430x"


# ---------------------------------------------------------------- running programs

def fixed_programs():
    N = GL.N
    out = []
    for cpu in ("msp430", "riscv", "avr8", "6502", "68000", "z80", "pic14"):
        out.append({"cpu": cpu, "items": [], "shape": "empty"})
    out.append({"cpu": "msp430", "shape": "odd-data", "items": [("org", N(0x8000)), ("lab", "start"), ("ins", "mov.w #0x1234, r5"),
                ("db", "db", [N(1), N(2), N(3)]), ("ins", "add.w r5, r6"), ("dc16", "dw", [N(0x5566)]),
                ("rep", 2, [("ins", "nop"), ("db", "db", [N(9)])]), ("resb", N(3)), ("db", "db", [("s", list(b"hello"))]),
                ("lab", "loop"), ("ins", "jmp loop")]})
    out.append({"cpu": "riscv", "shape": "plain", "items": [("org", N(0x100)), ("ins", "c.addi a0, 1"), ("ins", "addi a1, a1, 2"),
                ("ins", "c.nop"), ("db", "db", [N(1), N(2), N(3), N(4), N(5), N(6)]), ("ins", "c.nop"), ("ins", "lui a0, 0x12345")]})
    out.append({"cpu": "dspic", "shape": "plain", "items": [("org", N(0x100)), ("ins", "goto 0x123456"), ("ins", "call 0x7654")]})
    out.append({"cpu": "86000", "shape": "plain", "items": [("org", N(0x10)), ("ins", "mov #0x63,@r3"), ("db", "db", [N(200), N(201)])]})
    out.append({"cpu": "6502", "shape": "repeat", "items": [("org", N(0x200)), ("rep", 3, [("ins", "lda #1"), ("ins", "sta $4400")])]})
    out.append({"cpu": "65816", "shape": "repeat", "items": [("org", N(0x8000)), ("rep", 3, [("ins", "ldy $44,x"), ("ins", "trb $44"),
                ("ins", "cmp $4444,x")]), ("db", "db", [N(65), N(33)])]})
    out.append({"cpu": "m8c", "shape": "repeat", "items": [("org", N(0x100)), ("rep", 3, [("ins", "mov REG[34], A"), ("ins", "cmp [123], 13")])]})
    out.append({"cpu": "xtensa", "shape": "repeat", "items": [("org", N(0x100)), ("rep", 2, [("ins", "maxu a14, a6, a5"), ("ins", "ssa8b a2")])]})
    # one witness per known finding (the KNOWN-FINDING lines do not depend on the seed)
    out.append({"cpu": "msp430", "shape": "include", "items": [("org", N(0x200)), ("inc", "a.inc", [("lab", "l1"), ("ins", "mov.w #1234, r5"),
                ("db", "db", [N(1), N(2)]), ("ins", "add.w r5, r6")]), ("ins", "nop")]})
    out.append({"cpu": "pic14", "shape": "odd-data", "items": [("org", N(0x100)), ("ins", "sleep"), ("db", "db", [N(1), N(2), N(3)]),
                ("ins", "retfie"), ("ins", "sleep")]})
    out.append({"cpu": "msp430", "shape": "overwrite", "items": [("org", N(0x100)), ("ins", "mov.w #0x1234, r5"), ("org", N(0x100)),
                ("db", "db", [N(0xaa), N(0xbb)])]})
    out.append({"cpu": "powerpc", "shape": "repeat", "items": [("org", N(0x1000)), ("rep", 2, [("ins", "nor. r4, r21, r24"), ("resb", N(2)),
                ("ins", "nor. r4, r21, r24")]), ("db", "db", [N(0x56)])]})
    out.append({"cpu": "68000", "shape": "plain", "items": [("org", N(0x1000)), ("ins", "subi.w #4, (a3)"), ("ins", "andi.l #5, (50,a3)")]})
    out.append({"cpu": "riscv", "shape": "top", "fit_top": 0, "items": [("org", N(0x1000)), ("ins", "addi a0, a0, 1"),
                ("db", "db", [N(1), N(2), N(3), N(4)]), ("ins", "addi a1, a1, 2"), ("db", "db", [N(1), N(2), N(3), N(4)])]})
    out.append({"cpu": "riscv", "shape": "top", "fit_top": 0, "items": [("org", N(0x1000)), ("ins", "addi a0, a0, 1"),
                ("db", "db", [N(1), N(2), N(3), N(4)]), ("ins", "addi a1, a1, 2")]})
    out += GL.pages_fixed()
    return out


def build_programs(ctx):
    g = GL.Gen(ctx.rng)
    progs = fixed_programs()
    n = ctx.scale(900, 9000)
    for _ in range(n):
        progs.append(g.program())
    for _ in range(ctx.scale(12, 60)):
        progs.append(g.program(shape="top"))
    # page geometry: runs that end on the last byte / start on the first byte of a 64 KiB page, untouched pages between
    for _ in range(ctx.scale(100, 1200)):
        progs.append(g.program(shape="pages"))
    # the two modelled CPUs get a denser stream
    for cpu in ("msp430", "riscv"):
        for _ in range(ctx.scale(150, 1500)):
            progs.append(g.program(cpu=cpu))
    return progs


def fit_top(ctx, progs):
    """programs of shape 'top': move the origin so that the image ends fit_top bytes below 2^32"""
    idx = [i for i, p in enumerate(progs) if p.get("shape") == "top" and "fit_top" in p and p["items"] and p["items"][0][0] == "org"]
    if not idx:
        return
    lines = []
    for i in idx:
        src, inc = GL.render(progs[i])
        lines.append(nvlib.prog_line(src, includes=inc))
    ans = nvlib.run_lines(ctx.harness, lines, timeout=TIMEOUT)
    for i, a in zip(idx, ans):
        pr = nvlib.parse_prog(a)
        p = progs[i]
        if pr["died"] or pr["st"] != 0 or not pr["image"]:
            continue
        bpa = pr["bpa"]
        size = max(pr["image"]) + 1 - p["items"][0][1][1] * bpa
        size = (size + bpa - 1) // bpa * bpa
        org = (0x100000000 - p["fit_top"] // bpa * bpa - size) // bpa
        p["items"][0] = ("org", GL.N(org))
        p["fitted"] = True


def fit_pages(ctx, progs):
    """programs of shape 'pages' with fit_end: move the first .org so that segment 1 ends at byte address fit_end"""
    idx = [i for i, p in enumerate(progs) if p.get("shape") == "pages" and "fit_end" in p]
    if not idx:
        return
    lines = []
    for i in idx:
        src, inc = GL.render({"cpu": progs[i]["cpu"], "items": progs[i]["items"][:progs[i]["seg1"]]})
        lines.append(nvlib.prog_line(src, includes=inc))
    ans = nvlib.run_lines(ctx.harness, lines, timeout=TIMEOUT)
    for i, a in zip(idx, ans):
        pr = nvlib.parse_prog(a)
        p = progs[i]
        if pr["died"] or pr["st"] != 0 or not pr["image"]:
            p["geometry"] += " (unfitted)"
            continue
        bpa = pr["bpa"]
        size = max(pr["image"]) + 1 - p["items"][0][1][1] * bpa
        if size <= 0 or (p["fit_end"] - size) % bpa or p["fit_end"] - size < 0:
            p["geometry"] += " (unfitted)"
            continue
        p["items"][0] = ("org", GL.N((p["fit_end"] - size) // bpa))


def run_programs(ctx, progs):
    """-> list of dicts: src, inc, proc (run_asm result), pr (in-process image/marks/symbols), ext (statement extents)"""
    exe = ctx.repo["naken_asm"]
    tmp = ctx.tmpdir()
    fit_top(ctx, progs)
    fit_pages(ctx, progs)
    for p in progs:
        if p.get("shape") == "top" and not p.get("fitted"):
            p["shape"] = "plain"              # could not be measured (rejected): stays where it is
    rendered = [GL.render(p) for p in progs]

    def run(i):
        src, inc = rendered[i]
        return nvlib.run_asm(exe, src, os.path.join(tmp, "p%d" % i), args=["-l"], name="t", outtype="hex", extra_files=inc, timeout=TIMEOUT)
    with ThreadPoolExecutor(nvlib.NPROC) as ex:
        procs = list(ex.map(run, range(len(progs))))
    ans = nvlib.run_lines(ctx.harness, [nvlib.prog_line(s, includes=i) for s, i in rendered], timeout=TIMEOUT * 3)
    lines2 = []
    for p in progs:
        s2, i2 = GL.render({"cpu": p["cpu"], "items": GL.instrument(p["items"])})
        lines2.append(nvlib.prog_line(s2, includes=i2))
    ans2 = nvlib.run_lines(ctx.harness, lines2, timeout=TIMEOUT * 3)
    out = []
    for p, (src, inc), proc, a, a2 in zip(progs, rendered, procs, ans, ans2):
        pr, pr2 = nvlib.parse_prog(a), nvlib.parse_prog(a2)
        ext = GL.extents(p, pr2) if not pr2["died"] and pr2["st"] == 0 else None
        out.append({"prog": p, "src": src, "inc": inc, "proc": proc, "pr": pr, "ext": ext})
    return out


def iso_runner(ctx, cpu):
    def iso(reqs):
        out = nvlib.run_lines(ctx.harness, ["lstiso %s %x %s" % (cpu, a, bytes(bs).hex() or "-") for a, bs in reqs], shards=1, timeout=TIMEOUT)
        return [nvlib.unhex(x).decode("latin-1") if not x.startswith(("DIED", "bad", "MISS")) else x for x in out]
    return iso


def get_runs(ctx):
    if "runs" not in ctx.notes:
        progs = build_programs(ctx)
        ctx.notes["runs"] = run_programs(ctx, progs)
    return ctx.notes["runs"]


# ---------------------------------------------------------------- the property itself against the real code

def page_class(p, pr):
    """what the image of a 'pages' program looks like, measured on the image: kind of the last byte in front of the
    first untouched stretch that spans a page boundary, whether that byte is the last of its page, number of untouched
    pages, kind / page offset of the first byte behind"""
    image, kinds = pr["image"], pr["kinds"]
    addrs = sorted(image)
    for x, y in zip(addrs, addrs[1:]):
        if (y >> 16) != (x >> 16):
            run = 1
            while x - run in image and kinds.get(x - run) == kinds.get(x):
                run += 1
            gap = (y >> 16) - (x >> 16) - 1
            return "%s %s, run length %s | %s | %s %s" % (
                "data" if kinds.get(x) == "d" else "code", "ends its page" if x & 0xffff == 0xffff else "ends inside its page",
                "= 0 mod 16" if run % 16 == 0 else "!= 0 mod 16", "no untouched page" if gap == 0 else "1 untouched page" if gap == 1 else ">= 2 untouched pages",
                "data" if kinds.get(y) == "d" else "code", "starts its page" if y & 0xffff == 0 else "starts inside its page")
    return "single page"


def sig_of(cls, cpu, src):
    return "C18:%s:%s:%s" % (cls, cpu, nvlib.sha(src.encode("latin-1"))[:10])


def oracle(ctx, orc, focus=None):
    runs = get_runs(ctx)
    stats = collections.Counter()
    shapes = collections.Counter()
    cpus = collections.Counter()
    classes = collections.Counter()
    geometry = collections.Counter()
    nontrivial = set()
    for r in runs:
        p, proc, pr = r["prog"], r["proc"], r["pr"]
        orc["cases"] += 1
        cpu = p["cpu"]
        if proc["rc"] not in (0, 1):
            stats["crash"] += 1
            orc["failures"].append({"sig": sig_of("crash", cpu, r["src"]), "input": r["src"], "expected": "exit 0 or 1",
                                    "observed": "exit %d %s" % (proc["rc"], proc["err"][-300:]),
                                    "what": "naken_asm -l died / hung / sanitizer report", "includes": r["inc"]})
            continue
        if pr["died"]:
            stats["harness-died"] += 1
            orc["failures"].append({"sig": sig_of("harness-crash", cpu, r["src"]), "input": r["src"], "expected": "an answer",
                                    "observed": pr["raw"][:300], "what": "in-process assembly died", "includes": r["inc"]})
            continue
        if proc["rc"] != 0 or pr["st"] != 0:
            stats["rejected"] += 1        # the program is not valid for this CPU at this address: no output, nothing to compare
            if proc["rc"] == 0 or pr["st"] == 0:
                stats["status-differs"] += 1
            continue
        if proc["lst"] is None or proc["data"] is None:
            stats["no-files"] += 1
            orc["failures"].append({"sig": sig_of("no-listing", cpu, r["src"]), "input": r["src"], "expected": ".lst and .hex",
                                    "observed": "missing", "what": "exit 0 without listing / output file", "includes": r["inc"]})
            continue
        stats["compared"] += 1
        shapes[p.get("shape", "?")] += 1
        cpus[cpu] += 1
        if p.get("shape") == "pages":
            geometry[page_class(p, pr)] += 1
        if len(GL.flatten(p["items"])) >= 3:
            nontrivial.add(r["src"])
        try:
            img = GL.decode_hex(proc["data"])
        except Exception as e:
            orc["failures"].append({"sig": sig_of("bad-hex", cpu, r["src"]), "input": r["src"], "expected": "Intel HEX",
                                    "observed": repr(e), "what": "output file does not decode", "includes": r["inc"]})
            continue
        fails, L = GL.judge(p, proc["lst"].decode("latin-1"), img, pr, ext=r["ext"], iso=iso_runner(ctx, cpu))
        stats["instruction_lines"] += len(L["lines"])
        stats["dump_lines"] += len(L["dump"])
        stats["symbols"] += len(L["symbols"])
        seen = set()
        for cls, detail in fails:
            if cls in seen:
                continue
            seen.add(cls)
            classes[cls.split("/")[0] + ":" + cpu] += 1
            orc["failures"].append({"sig": sig_of(cls, cpu, r["src"]), "input": r["src"], "expected": "listing = output",
                                    "observed": detail, "what": cls, "includes": r["inc"], "cpu": cpu})
    orc["stats"] = {"runs": dict(stats), "shapes": dict(shapes), "cpus": dict(cpus), "failure_classes": dict(classes),
                    "page_geometry": dict(sorted(geometry.items()))}
    orc["distinct_nontrivial"] = len(nontrivial)
    ok = [r for r in runs if r["proc"]["rc"] == 0 and r["proc"]["lst"]]
    k = max(1, len(ok) // 4)
    orc["samples"] = [{"source": r["src"][:300], "listing": r["proc"]["lst"].decode("latin-1")[:400]} for r in ok[::k]][:4]


# ---------------------------------------------------------------- model vs implementation

MODEL_CPUS = ("msp430", "riscv")


def wire(prog, pr, ext, enc=None):
    """`lst` protocol line of the model driver for a program, or None when the program is outside the model
    (instructions of a CPU without formatter model, statement extents unknown).  Instruction encodings (bytes, pad and
    mark kinds) are taken from the real image between the labels of the instrumented copy; `enc` (statement index ->
    bytes, from the harness command asm1) replaces the image where later statements overwrite it."""
    cpu = prog["cpu"]
    image, kinds = pr["image"], pr["kinds"]
    ins = list(ext["ins"]) if ext else []
    pos = [0]
    bad = [False]

    def one(it, toks, quiet):
        k = it[0]
        if k == "ins":
            if cpu not in MODEL_CPUS or pos[0] >= len(ins):
                bad[0] = True
                return
            s, e, text = ins[pos[0]]
            n = pos[0]
            pos[0] += 1
            if e < s or e - s > 64:
                bad[0] = True
                return
            em = []
            if enc is not None:
                if enc.get(n) is None:
                    bad[0] = True
                    return
                bs = enc[n]
                if len(bs) != e - s:
                    bad[0] = True
                    return
                if cpu == "msp430" and s % 2 == 1:
                    em.append("d%02x" % bs[0])           # the pad byte
                    bs = bs[1:]
                em += ["c%02x" % b for b in bs]
            else:
                for a in range(s, e):
                    kd = kinds.get(a)
                    if kd is None:
                        bad[0] = True
                        return
                    em.append({"d": "d", "c": "c", "n": "n"}[kd] + "%02x" % image[a])
            toks.append(("inq:1:" if quiet else "ins:1:") + (",".join(em) or "-"))
        elif k == "rep":
            toks.append(("req:1:%x" if quiet else "rep:1:%x") % it[1])
            for x in it[2]:
                one(x, toks, quiet)
            toks.append("endr")
        elif k == "mac":
            for x in it[2]:
                one(x, toks, quiet)
        elif k == "inc":
            for x in it[2]:
                one(x, toks, True)
        else:
            w = GL.G.wire({"name": cpu}, [it if k != "lab" else ("lab", it[1])])
            toks += w.split(" ")[2:]
    toks = []
    for it in prog["items"]:
        one(it, toks, False)
    if bad[0]:
        return None
    return "lst " + cpu + (" " + " ".join(toks) if toks else "")


def fields(ans):
    d = {}
    for kv in ans.split(" "):
        k, _, v = kv.partition("=")
        d[k] = v
    return d


def canon_model(ans):
    if not ans.startswith("st=0"):
        return ans, None
    d = fields(ans)
    lines = []
    if d["lines"] != "-":
        for l in d["lines"].split(";"):
            a, n, ws, cyc, text = l.split("/")
            lines.append((int(a, 16), int(n), tuple(int(w, 16) for w in ws.split(",") if w), int(cyc),
                          None if text == "-" else bytes.fromhex(text).decode("latin-1")))
    out = {"lines": lines, "dump": d["dump"], "syms": d["syms"], "ulow": int(d["ulow"], 16), "uhigh": int(d["uhigh"], 16),
           "img": d["img"], "dbg": d["dbg"], "low": d["low"], "high": d["high"]}
    return out, d


def canon_real(cpu, L, pr):
    """the same fields from the parsed real listing and the in-process image"""
    lines = []
    for l in L["lines"]:
        bs = l["bytes"]
        if cpu == "msp430":
            words = tuple(bs[i] | (bs[i + 1] << 8) for i in range(0, len(bs) - 1, 2))
            m = LP.re.search(r"cycles: (\?|-?\d+)$", l["raw"][0])
            cyc = -1 if (m is None or m.group(1) == "?") else int(m.group(1))
            text = None
        else:
            v = 0
            for i, b in enumerate(bs):
                v |= b << (8 * i)
            words = (v,)
            cyc = 0
            parts = l["raw"][0].split(None, 2)
            text = parts[2] if len(parts) > 2 else ""
        lines.append((l["addr"], len(bs), words, cyc, text))
    dump = ";".join("%x:%s" % (d["unit"], "".join("__" if c is None else "%02x" % c for c in d["cols"][:d["used"]])) for d in L["dump"]) or "-"
    syms = ",".join("%s=%x@%d" % (n, a, sc) for (n, a, sc, ex) in L["symbols"]) or "-"
    f = fields(pr["raw"])
    return {"lines": lines, "dump": dump, "syms": syms, "ulow": L["low"], "uhigh": L["high"], "img": f["img"], "dbg": f["dbg"],
            "low": f["low"], "high": f["high"]}


def compare(cpu, mo, re_, skip=()):
    """first differing field, or None"""
    for k in ("img", "dbg", "low", "high", "syms", "dump", "ulow", "uhigh"):
        if k in skip:
            continue
        if mo[k] != re_[k]:
            return k, str(mo[k])[:200], str(re_[k])[:200]
    ml, rl = mo["lines"], re_["lines"]
    if len(ml) != len(rl):
        return "lines", "%d lines %r" % (len(ml), ml[:4]), "%d lines %r" % (len(rl), rl[:4])
    for x, y in zip(ml, rl):
        if x[:3] != y[:3]:
            return "line", repr(x), repr(y)
        if cpu == "msp430" and x[3] != y[3]:
            return "cycles", repr(x), repr(y)
        if x[4] is not None and y[4] is not None and x[4] != y[4].rstrip():
            return "text", repr(x), repr(y)
    return None


def correspondence(ctx, corr):
    runs = get_runs(ctx)
    cases, lines = [], []
    skipped = collections.Counter()
    for r in runs:
        p, proc, pr = r["prog"], r["proc"], r["pr"]
        if proc["rc"] != 0 or pr["died"] or pr["st"] != 0 or proc["lst"] is None:
            skipped["rejected"] += 1
            continue
        if p.get("shape") == "top":
            skipped["top (statement extents wrap)"] += 1
            continue
        enc = None
        if p.get("shape") == "overwrite" and p["cpu"] in MODEL_CPUS and r["ext"]:
            # later statements overwrite earlier code: the encodings come from single-statement assemblies
            q = ["asm1 %s %x - %s" % (p["cpu"], s_, nvlib.hexs(t)) for (s_, e_, t) in r["ext"]["ins"]]
            enc = {}
            for n, a in enumerate(nvlib.run_lines(ctx.harness, q, shards=1, timeout=TIMEOUT)):
                if a.startswith("ok "):
                    enc[n] = list(nvlib.unhex(a[3:]))
                elif a.startswith("ok@ ") and ";" not in a and ":" in a:
                    enc[n] = list(nvlib.unhex(a[4:].split(":")[1]))
        r["enc"] = enc
        w = wire(p, pr, r["ext"], enc)
        if w is None:
            skipped["outside the model (instructions of an unmodelled CPU)"] += 1
            continue
        cases.append(r)
        lines.append(w)
    model = nvlib.run_lines(ctx.driver, lines, env=dict(os.environ), timeout=TIMEOUT * 3)
    by_cpu = collections.Counter()
    by_shape = collections.Counter()
    nontrivial = set()
    flags = collections.Counter()
    for r, w, a in zip(cases, lines, model):
        p, proc, pr = r["prog"], r["proc"], r["pr"]
        cpu = p["cpu"]
        corr["cases"] += 1
        by_cpu[cpu] += 1
        by_shape[p.get("shape", "?")] += 1
        if w.count(" ") >= 4:
            nontrivial.add(w)
        mo, d = canon_model(a)
        if d is None:
            corr["disagreements"].append({"line": w, "source": r["src"], "impl": "st=0", "model": str(mo)[:200]})
            continue
        L = LP.parse(proc["lst"].decode("latin-1"), cpu, bpa=pr["bpa"], big=pr["end"] == "b")
        diff = compare(cpu, mo, canon_real(cpu, L, pr), skip=("dbg",) if r.get("enc") is not None else ())
        if diff:
            corr["disagreements"].append({"line": w, "source": r["src"], "field": diff[0], "model": diff[1], "impl": diff[2]})
        r["model"] = d
        flags["exact=%s nodup=%s nowrap=%s" % ("all" if "0" not in d["exact"] else "not-all", d["nodup"], d["nowrap"])] += 1
    corr["streams"]["lst-vs-model"] = {"programs": len(cases), "by_cpu": dict(by_cpu), "by_shape": dict(by_shape),
                                       "skipped": dict(skipped), "theorem_hypotheses": dict(flags)}
    corr["distinct_nontrivial"] = len(nontrivial)
    k = max(1, len(cases) // 4)
    corr["samples"] = [{"line": lines[i][:300], "model": model[i][:300]} for i in range(0, len(cases), k)][:4]


def replay(ctx, rec):
    f = rec.get("failure") or {}
    src = f.get("input")
    if not src:
        return {"fails": False, "note": "no input recorded"}
    cpu = f.get("cpu") or src.split("\n")[0].lstrip(".")
    inc = f.get("includes") or {}
    proc = nvlib.run_asm(ctx.repo["naken_asm"], src, ctx.tmpdir(), args=["-l"], name="replay", outtype="hex", extra_files=inc, timeout=TIMEOUT)
    ans = nvlib.run_lines(ctx.harness, [nvlib.prog_line(src, includes=inc)], shards=1)[0]
    pr = nvlib.parse_prog(ans)
    if proc["rc"] not in (0, 1) or pr["died"]:
        return {"fails": True, "rc": proc["rc"], "stderr": proc["err"][-500:]}
    if proc["rc"] != 0:
        return {"fails": False, "note": "program rejected"}
    fails, L = GL.judge({"cpu": cpu, "items": []}, proc["lst"].decode("latin-1"), GL.decode_hex(proc["data"]), pr, iso=iso_runner(ctx, cpu))
    return {"fails": bool(fails), "failures": fails[:10], "listing": proc["lst"].decode("latin-1")[:2000]}
