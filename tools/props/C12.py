"""C12 — failure is atomic: diagnostics, exit status and output file always agree."""
import os, re, subprocess
from concurrent.futures import ThreadPoolExecutor
import nvlib, gen_src as S

ID = "C12"
LEAN_MODULES = ["NakenVerif.Props.C12"]
P = "NakenVerif.Core.Driver."
THEOREMS = [P + n for n in [
    "assemble_first_failure", "assemble_zero_flag_clear", "assemble_zero_no_failure",
    "if_taken_error_propagates", "if_else_error_propagates", "if_missing_endif_is_error",
    "if_bad_condition_is_error", "if_missing_endif_after_else_is_error", "if_unterminated_taken_is_error",
    "if_second_else_is_error", "if_ok_means_closed", "include_error_propagates",
    "repeat_error_propagates", "dir_error_fails_enclosing", "main_status_iff", "main_status_01",
    "main_success_writes", "main_no_output_on_error", "main_unopenable_output", "reported_error_reaches_exit",
    "assembleRet_eq_loop", "end_leaves_through_flag_test", "end_with_error_flag_fails", "eof_with_error_flag_fails",
    "end_with_clear_flag_succeeds", "deferred_error_reaches_exit"]]
RULE = ("valid programs of every CPU in the statement corpus (instructions, data, labels, define/macro/if/repeat/equ) "
        "x single-point corruptions of 21 kinds (unknown mnemonic, undefined symbol, out-of-range value, malformed "
        "directive/conditional, unterminated macro/quote/comment, ...) and 8 DEFERRED kinds (errors that set the sticky "
        "asm_context->error flag and let the loop go on: dsPIC unknown mnemonic / operand combination, a macro call that "
        "fails to expand as the last item of a .db/.dw/.dc16/.dc32/.dc64 list) at random positions and inside "
        "taken-if/else/macro/repeat contexts x source terminators (none, `end`, `end` + text behind it, `end` directly "
        "behind the erroneous statement inside its context, `.end`, `END`) x output types, each run with a stale output "
        "file in place; "
        "non-trivial = corrupted or >= 4 statements; distinct = distinct source text")
MODELLED = ("the statement loop of AsmContext::assemble() (return-code threading), parse_ifdef_ignore/parse_if/"
            "parse_repeat/include result handling, main() of naken_asm.cpp from pass 1 to exit (error_flag, link, "
            "file_write, unlink)")
NOT_MODELLED = ("the statement handlers themselves (68 instruction parsers, directive parsers): whether each prints "
                "'Error' exactly when it reports failure is searched by the oracle, not proved; file_write errors "
                "after the file was opened; an output path that cannot be opened leaves a stale file (stated as theorem "
                "main_unopenable_output)")
ASSUMPTIONS = ["trace lines come from the NAKEN_ASM_VERIF hook in core/AsmContext.cpp and main/naken_asm.cpp"]
TRUSTED_BASE = ["the trace hook (add-only, guarded) and tools/props/C12.py's trace parser"]

TYPES = ["hex", "bin", "srec", "elf", "wdc", "uf2"]


def run_one(exe, tmp, idx, src, otype, args=()):
    d = os.path.join(tmp, "r%d" % idx)
    os.makedirs(d, exist_ok=True)
    srcp = os.path.join(d, "p.asm")
    outp = os.path.join(d, "p.out")
    open(srcp, "wb").write(src.encode("latin-1"))
    open(outp, "wb").write(b"STALE-OUTPUT-FROM-AN-EARLIER-RUN")
    env = dict(nvlib.SAN_ENV)
    env["NV_TRACE"] = "1"
    try:
        r = subprocess.run([exe, "-type", otype, "-o", outp] + list(args) + [srcp], stdout=subprocess.PIPE,
                           stderr=subprocess.PIPE, env=env, timeout=60, cwd=d)
        rc, so, se = r.returncode, r.stdout.decode("latin-1"), r.stderr.decode("latin-1")
    except subprocess.TimeoutExpired:
        rc, so, se = -999, "", "timeout"
    data = open(outp, "rb").read() if os.path.exists(outp) else None
    for f in os.listdir(d):
        os.unlink(os.path.join(d, f))
    os.rmdir(d)
    return {"rc": rc, "out": so, "err": se, "data": data,
            "errors": len([l for l in so.split("\n") if "Error" in l]),
            "stale": data is not None and data.startswith(b"STALE-OUTPUT")}


# Errors of the DEFERRED kind: the handler prints the diagnostic, sets the sticky flag asm_context->error and reports
# success, so the statement loop goes on; the flag is tested once, behind the loop (core/AsmContext.cpp).  Found by
# `grep -n "error = 1" asm/*.cpp core/*.cpp`: asm/dspic.cpp (unknown instruction / operand combination, returns 4) and
# the five failure exits of macros_expand_params() in core/Macros.cpp (the lexer then returns TOKEN_EOF, which the
# data directives take for the end of their operand list).
DEFERRED = {
    "dspic-unknown-mnemonic": (["  frobnicate w2, w3"], "dspic"),
    "dspic-bad-operand-combo": (["  mov w0, w1, w2, w3"], "dspic"),
    "dspic-bad-combo-in-data": (["  add w0"], "dspic"),
    "macro-arg-count-in-data": ([".macro DSUM(a, b)", "  a + b", ".endm", "  %s 5, DSUM(1)"], None),
    "macro-too-many-args-in-data": ([".macro DSUM(a, b)", "  a + b", ".endm", "  %s DSUM(1, 2, 3)"], None),
    "macro-missing-paren-in-data": ([".macro DSUM(a, b)", "  a + b", ".endm", "  %s 1, 2, DSUM(1, 2"], None),
    "macro-without-params-in-data": ([".macro DSUM(a, b)", "  a + b", ".endm", "  %s 7, DSUM"], None),
    "macro-params-too-long-in-data": ([".macro DSUM(a, b)", "  a + b", ".endm", "  %s 7, DSUM(1" + " + 1" * 300 + ", 2)"], None),
}
DATA_DIRS = [".db", ".dw", ".dc16", ".dc32", ".dc64", "db", "dw", "dc32"]
# how the source ends: (name, lines behind the last statement, `end` also directly behind the erroneous statement)
TERMINATORS = [("none", [], False), ("end", ["end"], False), ("end-indented", ["  end"], False),
               ("end+text", ["end", "this text is behind end and is never read", "  .qqzz 1"], False),
               ("end-in-context", ["end"], True), ("dot-end", [".end"], False), ("END", ["END"], False)]
_uid = [0]


def deferred_lines(rng, kind):
    lines, cpu = DEFERRED[kind]
    _uid[0] += 1
    d = rng.choice(DATA_DIRS)
    return [(l % d if "%s" in l else l).replace("DSUM", "DSUM%d" % _uid[0]) for l in lines], cpu


def gen(ctx):
    rng = ctx.rng
    cpus = S.cpus()
    progs = []       # (label, source, otype, expect_error)
    n_valid = ctx.scale(60, 600)
    for i in range(n_valid):
        cpu = cpus[i % len(cpus)] if i < len(cpus) else rng.choice(cpus)
        lines = S.base_program(rng, cpu)
        tname = "none"
        if rng.random() < 0.3 and cpu != "webasm":
            tname, tl, _ = rng.choice(TERMINATORS[1:5])
            lines = lines + tl
        progs.append(("valid:%s:%s" % (cpu, tname), "\n".join(lines) + "\n", TYPES[i % len(TYPES)], False))
    kinds = S.corruptions() + sorted(DEFERRED)
    n_bad = ctx.scale(140, 2500)
    for i in range(n_bad):
        cpu = rng.choice(["msp430", "msp430", "riscv", "6502", "z80", "mips", "avr8", "68000"] + cpus)
        kind = kinds[i % len(kinds)]
        deferred = kind in DEFERRED
        if deferred:
            bad, force = deferred_lines(rng, kind)
            cpu = force or cpu
        lines = S.base_program(rng, cpu, features=rng.random() < 0.5)
        tname, tl, inctx = rng.choice(TERMINATORS) if (deferred or rng.random() < 0.3) and cpu != "webasm" else TERMINATORS[0]
        if deferred:
            if inctx:
                bad = bad + ["end"]
            if rng.random() < 0.5:
                lines, ctxname = S.wrap_context(rng, lines, bad)
            else:
                # top-level positions only (as gen_src.corrupt): never inside the base program's own conditional,
                # macro or repeat block, whose body may be skipped
                feat = [k for k, l in enumerate(lines) if l.startswith((".if", ".macro", ".repeat", ".define"))]
                first = feat[0] if feat else len(lines) - 2
                at = rng.choice(list(range(2, first + 1)) + [len(lines) - 2])
                lines, ctxname = lines[:at] + bad + lines[at:], "plain"
            label = "bad:%s:%s:%s" % (kind, ctxname, cpu)
        elif rng.random() < 0.35 and kind in ("unknown-mnemonic", "undefined-symbol", "db-out-of-range", "dw-out-of-range",
                                              "unknown-directive", "org-without-operand", "stray-token",
                                              "expression-trailing-operator", "divide-by-zero"):
            bad, _ = S.corrupt(rng, [], kind, where=0)
            if inctx:
                bad = bad + ["end"]
            lines, ctxname = S.wrap_context(rng, lines, bad)
            label = "bad:%s:%s:%s" % (kind, ctxname, cpu)
        else:
            lines, _ = S.corrupt(rng, lines, kind)
            label = "bad:%s:plain:%s" % (kind, cpu)
        lines = lines + tl
        progs.append((label + ":" + tname, "\n".join(lines) + "\n", rng.choice(TYPES), True))
    return progs


def parse_trace(err):
    """-> (invocations, main) ; invocation = dict(depth, steps[list of str], ret, ec, e)"""
    stack, done, main = [], [], {}
    pending = None
    for line in err.split("\n"):
        if line.startswith("NVM "):
            w = line.split()
            if w[1] in ("pass1", "pass2", "write", "exit"):
                main[w[1]] = int(w[2])
            elif w[1] == "link2":
                main["link2fail"] = True
            elif w[1] in ("bail1", "final"):
                main.setdefault("unlinks", []).append(w[1])
            continue
        if not line.startswith("NVT "):
            continue
        w = line.split()
        k = w[1]
        if k == "enter":
            stack.append({"depth": int(w[2]), "steps": [], "cur": None})
        elif k == "loop":
            inv = stack[-1]
            if inv["cur"] is not None:
                inv["steps"].append(inv["cur"] + ":eol")
            inv["cur"] = w[3].split("=")[1]
        elif k == "leave":
            inv = stack.pop()
            if inv["cur"] is not None:
                # a pass that returned without an event line: error_count > 0 at the loop head, or EOL...
                inv["steps"].append(inv["cur"] + ":eol")
                inv["cur"] = None
            inv["ret"] = int(w[3].split("=")[1]); inv["ec"] = int(w[4].split("=")[1]); inv["e"] = int(w[5].split("=")[1])
            done.append(inv)
        else:
            inv = stack[-1]
            ec = inv["cur"] if inv["cur"] is not None else "0"
            if k == "eof": inv["steps"].append(ec + ":eof"); inv["cur"] = None
            elif k == "other": inv["steps"].append(ec + ":other"); inv["cur"] = None
            elif k == "label": inv["steps"].append("%s:label:%s" % (ec, w[3].split("=")[1])); inv["cur"] = None
            elif k == "dir": inv["steps"].append("%s:dir:%s" % (ec, w[3].split("=")[1])); inv["cur"] = None
            elif k == "word":
                inv["pendword"] = (ec, w[3].split("=")[1]); inv["steps"].append("%s:word:%s" % inv["pendword"]); inv["cur"] = None
            elif k == "instr":
                inv["steps"][-1] = "%s:word:%s:%s" % (inv["pendword"][0], inv["pendword"][1], w[3].split("=")[1])
            elif k == "equ":
                inv["steps"][-1] = "%s:word:%s:equ" % inv["pendword"]
    return done, main


def correspondence(ctx, corr):
    exe = ctx.repo["naken_asm"]
    tmp = ctx.tmpdir()
    progs = gen(ctx)
    with ThreadPoolExecutor(nvlib.NPROC) as ex:
        results = list(ex.map(lambda a: run_one(exe, tmp, a[0], a[1][1], a[1][2]), enumerate(progs)))
    ctx.notes["progs"], ctx.notes["results"] = progs, results
    lines, expect, where = [], [], []
    n_inv = 0
    kinds = {}
    for (label, src, otype, bad), r in zip(progs, results):
        if r["rc"] not in (0, 1):
            continue
        invs, main = parse_trace(r["err"])
        for inv in invs:
            n_inv += 1
            for s in inv["steps"]:
                k = s.split(":")[1]
                kinds[k] = kinds.get(k, 0) + 1
            # the loop returned while ec>0 at its head shows up as the last pass
            lines.append("asmret %d %s" % (inv["e"], " ".join(inv["steps"])))
            expect.append("ret %d" % inv["ret"])
            where.append(label)
        if "pass1" in main:
            p1 = main["pass1"]
            p2 = main.get("pass2", 0)
            l2 = 0 if main.get("link2fail") else 1
            w = main.get("write", 0)
            lines.append("mainflow %d 1 %d %d %d 1" % (p1, p2, l2, w))
            unl = 1 if ("final" in main.get("unlinks", []) or "bail1" in main.get("unlinks", [])) else 0
            present = 1 if r["data"] is not None else 0
            wrote = 1 if (r["data"] is not None and not r["stale"]) else 0
            expect.append("status=%d ran2=%d wrote=%d unlinked=%d present=%d" % (
                r["rc"], 1 if "pass2" in main else 0, wrote, unl, present))
            where.append(label)
    model = ctx.model(lines)
    corr["cases"] += len(lines)
    for l, e, m, wlab in zip(lines, expect, model, where):
        if e != m:
            corr["disagreements"].append({"line": l[:600], "impl": e, "model": m, "program": wlab})
    corr["streams"]["trace-replay"] = {"programs": len(progs), "assemble_invocations": n_inv, "event_kinds": kinds}
    corr["distinct_nontrivial"] = len(set(lines))
    corr["samples"] = [{"line": lines[i][:200], "impl": expect[i], "model": model[i]} for i in range(0, len(lines), max(1, len(lines) // 4))][:4]


def statement_sweep(ctx, orc):
    """Seed-independent: every statement of the corpus and variants of its numeric literals (cpu_sweep.variants: the
    literal +1, ^2, and in the thorough tier 0, 1, -1, x2, 0x7f, 0x80, 0xff, 0x100, 0x7fff, 0x8000, 0xffff), each as
    a one-statement program through the real two passes in-process: an 'Error' line printed with status 0 means an
    erroneous statement was assembled as if valid; a failing status without any diagnostic is a silent failure."""
    import cpu_sweep
    lines, meta = [], []
    for cpu in S.cpus():
        for st in S.statements(cpu):
            for v in cpu_sweep.variants(st, not ctx.quick()):
                v = v[0] if isinstance(v, tuple) else v      # variants() yields (text, position, value)
                lines.append(nvlib.prog_line(".%s\n.org 0x1000\n  %s\n" % (cpu, v)))
                meta.append((cpu, st, v))
    ans = ctx.impl(lines)
    seen = set()
    n_err = n_ok = 0
    for (cpu, st, v), a in zip(meta, ans):
        orc["cases"] += 1
        d = nvlib.parse_prog(a)
        if d["died"]:
            continue        # crashes are C16's business
        kind = None
        if d["st"] == 0 and d["err"] > 0:
            kind, exp, what = "error-printed-exit-0", "a failing status", "an Error diagnostic was printed but both passes reported success"
        elif d["st"] != 0 and d["err"] == 0:
            kind, exp, what = "silent-failure", "an Error diagnostic", "a pass failed without any Error diagnostic"
        n_ok += d["st"] == 0
        n_err += d["st"] != 0
        if kind and (cpu, kind, st) not in seen:
            seen.add((cpu, kind, st))
            orc["failures"].append({"sig": "C12:%s:stmt:%s:%s" % (kind, cpu, st), "input": ".%s / %s" % (cpu, v), "label": "stmt",
                                    "type": "-", "expected": exp, "observed": "status %d, %d Error lines" % (d["st"], d["err"]),
                                    "what": what})
    orc["stats"]["statement_sweep"] = {"one_statement_programs": len(lines), "accepted": n_ok, "rejected": n_err,
                                       "inconsistent": len(seen)}


def oracle(ctx, orc, focus=None):
    if "results" not in ctx.notes:
        exe = ctx.repo["naken_asm"]; tmp = ctx.tmpdir()
        progs = gen(ctx)
        with ThreadPoolExecutor(nvlib.NPROC) as ex:
            results = list(ex.map(lambda a: run_one(exe, tmp, a[0], a[1][1], a[1][2]), enumerate(progs)))
    else:
        progs, results = ctx.notes["progs"], ctx.notes["results"]
    stats = {"valid_ok": 0, "bad_rejected": 0, "by_kind": {}}
    for (label, src, otype, bad), r in zip(progs, results):
        orc["cases"] += 1
        kind = label.split(":")[1] if bad else "valid"
        ctxname = label.split(":")[2] if bad else "-"
        term = label.split(":")[-1]
        if term != "none":
            ctxname += ":" + term
        sig_in = "%s:%s" % (label, otype)
        def fail(cls, exp, what):
            orc["failures"].append({"sig": "C12:%s:%s:%s" % (cls, kind, ctxname), "input": src, "label": label, "type": otype,
                                    "expected": exp, "observed": "exit %d, %d Error lines, output %s" % (
                                        r["rc"], r["errors"], "absent" if r["data"] is None else ("STALE" if r["stale"] else "written")),
                                    "what": what})
        if r["rc"] not in (0, 1):
            fail("abnormal-exit", "exit 0 or 1", "naken_asm ended with %d: %s" % (r["rc"], r["err"][-300:].replace("\n", " ")))
            continue
        written = r["data"] is not None and not r["stale"]
        if r["rc"] == 0:
            if r["errors"] > 0:
                fail("error-printed-exit-0", "non-zero exit", "an Error diagnostic was printed but the exit status is 0")
            elif not written or len(r["data"]) == 0:
                fail("exit-0-without-output", "output file written", "exit 0 but no (complete) output file")
            elif bad:
                fail("erroneous-accepted", "non-zero exit and a diagnostic", "erroneous program assembled silently")
            else:
                stats["valid_ok"] += 1
        else:
            if r["data"] is not None:
                fail("output-left-after-error", "no file at the output path", "exit 1 but a file is left at the output path")
            elif not bad:
                # corpus statements are not all position independent (page-local branches ...); a rejected
                # base program is not evidence against the property as long as it was rejected consistently
                stats["base_rejected"] = stats.get("base_rejected", 0) + 1
            else:
                stats["bad_rejected"] += 1
                stats["by_kind"][kind] = stats["by_kind"].get(kind, 0) + 1
    orc["stats"] = stats
    statement_sweep(ctx, orc)
    orc["distinct_nontrivial"] = len(set(p[1] for p in progs))
    orc["samples"] = [{"label": progs[i][0], "type": progs[i][2], "exit": results[i]["rc"], "errors": results[i]["errors"]}
                      for i in range(0, len(progs), max(1, len(progs) // 5))][:5]
