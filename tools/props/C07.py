"""C07 — decode -> encode -> decode fixpoint over all machine words.

Per-CPU parts live in tools/cpu_<name>.py; this module only iterates over them.  A CPU module exports
c07_correspondence(ctx, corr), c07_oracle(ctx, orc), C07_THEOREMS, LEAN_MODULES, MODELLED, NOT_MODELLED,
replay(ctx, record).
"""
import cpu_rv32i
import cpu_msp430
import cpu_m6502
import cpu_sweep

ID = "C07"
CPU_MODULES = [cpu_rv32i, cpu_msp430, cpu_m6502, cpu_sweep]

LEAN_MODULES = ["NakenVerif.Props.C07"] + [m for c in CPU_MODULES for m in c.LEAN_MODULES]
THEOREMS = [t for c in CPU_MODULES for t in c.C07_THEOREMS]
RULE = ("table/type-directed statements and machine words per CPU module (every mnemonic x register choices x operand "
        "values at each field boundary -1/0/+1 in signed and unsigned spelling x load addresses; every opcode/funct "
        "pattern x boundary fields; random byte strings and ranges).  distinct = distinct (statement, address) pairs, "
        "words, byte strings; a case is non-trivial when it reaches the encoder/decoder (not a protocol error).")
MODELLED = "; ".join("%s: %s" % (c.CPU, c.MODELLED) for c in CPU_MODULES)
NOT_MODELLED = "; ".join("%s: %s" % (c.CPU, c.NOT_MODELLED) for c in CPU_MODULES) + \
    "; every other CPU of cpu_list (not proved, not claimed)"
ASSUMPTIONS = ["operand values are 32-bit quantities: a 64-bit expression value in -2^31 .. 2^32-1 denotes its 32-bit "
               "two's-complement reading (0xffffffff is -1), anything else is not an operand value of a 32-bit CPU"]
TRUSTED_BASE = ["tools/cpu_*.py reference encoders/decoders written from the architecture manuals (used by the oracle)"]


def correspondence(ctx, corr):
    for c in CPU_MODULES:
        c.c07_correspondence(ctx, corr)


def oracle(ctx, orc, focus=None):
    for c in CPU_MODULES:
        c.c07_oracle(ctx, orc)


def replay(ctx, rec):
    f = rec.get("failure") or {}
    r = f.get("replay")
    if not r:
        return {"fails": False, "note": "no replay data recorded", "record": rec}
    for c in CPU_MODULES:
        if c.__name__ == "cpu_" + r["cpu"]:
            fails = c.replay(ctx, r)
            return {"fails": bool(fails), "failures": fails}
    return {"fails": False, "note": "unknown cpu module " + r["cpu"]}
