"""C09 — macros, defines, equ, repeat and include are transparent text abstractions."""
import os, re, collections
import nvlib, gen_macro as G, gen_src as S

ID = "C09"
LEAN_MODULES = ["NakenVerif.Props.C09"]
THEOREMS = [
    "NakenVerif.Macro.model_constants_match",
    "NakenVerif.Macro.reader_refines_stream",
    "NakenVerif.Macro.get_char_is_stream_head",
    "NakenVerif.Macro.unget_char_is_stream_cons",
    "NakenVerif.Macro.char_stream_of_invocation",
    "NakenVerif.Macro.define_transparent",
    "NakenVerif.Macro.equ_transparent_partial",
    "NakenVerif.Macro.macro_transparent",
    "NakenVerif.Macro.hand_expansion_stream",
    "NakenVerif.Macro.stored_define_text_is_word_substitution_partial",
    "NakenVerif.Macro.include_transparent",
    "NakenVerif.Macro.repeat_copies",
    "NakenVerif.Macro.repeat_one_is_body",
    "NakenVerif.Macro.copies_add",
    "NakenVerif.Macro.repeat_count_split",
    "NakenVerif.Macro.repeat_monotone_prefix",
    "NakenVerif.Macro.tab_in_string_counterexample",
    "NakenVerif.Macro.string_semicolon_counterexample",
    "NakenVerif.Macro.param59_counterexample",
    "NakenVerif.Macro.define_backslash_counterexample",
]
RULE = ("mexp: sources built from a grammar of definitions (.define/#define with and without parameters, .macro/.endm, "
        ".equ/.def, NAME equ VALUE, .include) and statements that use them (nested calls, arguments that are numbers in "
        "every notation, registers, quoted strings with commas/parentheses/escapes, ticks, parenthesised expressions), "
        "labels before/after, the three comment forms, tabs, CRLF, bytes >= 0x80, random lexer flags, a malformed "
        "quarter (deleted/duplicated/inserted bytes, truncation, wrong argument counts) and fixed boundary classes "
        "(argument length 1018..1022, expansion length 4093..4097, nesting 126..130, text length 1018..1023, token "
        "length 507..512, name length 125..128, 46..60 and 254..256 parameters, parenthesis depth 254..257, end of "
        "file at every point of a call).  prog: valid programs of 40+ CPUs whose statements are wrapped at random "
        "into defines, equ (values with backslash escapes, `NAME equ VALUE ; comment` with escaped quotes / the other quote "
        "character / unbalanced ticks in VALUE and further operands behind the name where it is used), macros (0..9 parameters, tricky parameter names b/h/x/_p, invoked twice, nested), include "
        "files, with labels before and after, against their hand expansion; .repeat against n copies of the body's "
        "bytes.  A case is non-trivial when it defines and uses at least one macro/define; distinct = distinct sources.")
MODELLED = ("tokens_get_char, tokens_unget_char, tokens_get (complete, all lexer flags), macros_get_char, "
            "macros_push_define, macros_lookup, macros_append, macros_parse_token, macros_parse, check_endm, macros_strip, "
            "macros_strip_comment, macros_expand_params, the `NAME equ VALUE` loop and the statement loop of "
            "AsmContext::assemble (labels, directives define/macro/equ/def/include, end), parse_equ, include_parse "
            "(file switch, depth limit), the copy loop of parse_repeat")
NOT_MODELLED = ("the two token push-back slots (only the loss of an empty pushed-back token is modelled), the listing echo "
                "of tokens_get_char, line counting, the CPU back ends and data directives (the prog oracle runs them for "
                "real), .if/.scope/.set inside macro bodies, Symbols beyond plain labels")
ASSUMPTIONS = ["source files contain no NUL byte (the code handles text as C strings)",
               "unget_stack_ptr and macros.stack_ptr are modelled as one stack: the code changes them only together",
               "the memory image is a map from addresses to bytes (refinement of the paged memory is property C05)"]
TRUSTED_BASE = ["tools/gen_macro.py subst_words / split_top (the textual substitution the oracle expands by hand with)"]

CANON_EV = re.compile(r" ev=\S+")


def mexp_line(case):
    tag, flags, src, inc = case
    l = "mexp %s %s" % (flags, nvlib.hexs(src))
    for k, v in (inc or {}).items():
        l += " " + nvlib.hexs(k) + " " + nvlib.hexs(v)
    return l


def canon_impl(x):
    if x.startswith("DIED rc=1 "):
        return "exit"                 # print_error_internal + exit(1)
    return x


def canon_model(y):
    return CANON_EV.sub("", y)


def correspondence(ctx, corr):
    cases = G.mexp_cases(ctx.rng, ctx.scale(4000, 40000))
    lines = [mexp_line(c) for c in cases]
    cp = os.path.join(nvlib.VERIF, "corpus", ID, "lines.txt")
    extra = []
    if os.path.exists(cp):
        extra = [l.strip() for l in open(cp) if l.strip() and not l.startswith("#")]
    lines = extra + lines
    h, d = ctx.both(lines)
    corr["cases"] += len(lines)
    kinds = collections.Counter()
    events = collections.Counter()
    tags = collections.Counter(c[0] for c in cases)
    nontrivial = set()
    for l, a, b in zip(lines, h, d):
        ca, cb = canon_impl(a), canon_model(b)
        kinds[ca.split(" ")[0]] += 1
        m = re.search(r" ev=(\S+)", b)
        if m:
            events[m.group(1)] += 1
        if b == "unmodelled":
            kinds["outside-model (a mutation produced a data directive)"] += 1     # counted, bounded below
        elif b == "fuel" or b.startswith("DIED") or b == "MISSING":
            corr["disagreements"].append({"line": l, "impl": a, "model": b, "what": "model gave no answer"})
        elif ca != cb:
            if "ungetOverflow" in b and a.startswith("DIED"):
                kinds["unget-overflow-both"] += 1          # undefined behaviour in C, reported by the sanitizer
                continue
            corr["disagreements"].append({"line": l, "impl": a, "model": b})
        if "defs=-" not in a and "toks=-" not in a and a.startswith("ret=0"):
            nontrivial.add(l)
    if kinds["outside-model (a mutation produced a data directive)"] * 50 > len(lines):
        corr["disagreements"].append({"line": "-", "impl": "-", "model": "unmodelled",
                                      "what": "more than 2% of the generated sources leave the model"})
    corr["streams"]["mexp"] = {"lines": len(lines), "impl_answer_kinds": dict(kinds), "model_capacity_events": dict(events),
                               "case_classes": dict(tags)}
    corr["distinct_nontrivial"] = len(nontrivial)
    step = max(1, len(lines) // 5)
    corr["samples"] = [{"line": lines[i][:300], "impl": h[i][:300], "model": d[i][:300]} for i in range(0, len(lines), step)][:5]


# ---------------------------------------------------------------------------------------------
# property oracle on the real assembler
# ---------------------------------------------------------------------------------------------

def same_result(a, b):
    """compare two parse_prog results: image, symbols, low/high"""
    diffs = []
    if a["image"] != b["image"]:
        ks = sorted(set(a["image"]) | set(b["image"]))
        first = next(k for k in ks if a["image"].get(k) != b["image"].get(k))
        diffs.append("image differs first at 0x%x: %s vs %s" % (first, a["image"].get(first), b["image"].get(first)))
    sa = sorted((n, v) for n, v, sc, ex in a["syms_list"])
    sb = sorted((n, v) for n, v, sc, ex in b["syms_list"])
    if sa != sb:
        diffs.append("symbols differ: %s vs %s" % ([x for x in sa if x not in sb][:3], [x for x in sb if x not in sa][:3]))
    if (a["low"], a["high"]) != (b["low"], b["high"]):
        diffs.append("low/high differ")
    return diffs


FOCUS = [
    # (id, wrapped, expanded, what) -- deterministic cases around the defects this property found
    ("param-in-literal", ".msp430\n.macro m(b, h)\n .db 1b, 10h, b, h\n.endm\n m(5, 6)\n", ".msp430\n .db 1b, 10h, 5, 6\n",
     "parameter names b/h next to the literals 1b and 10h"),
    ("param-underscore", ".msp430\n.macro m(_p, q)\n .db _p, q_, _q, q\n.endm\nq_ equ 7\n_q equ 8\n m(5, 6)\n",
     ".msp430\nq_ equ 7\n_q equ 8\n .db 5, q_, _q, 6\n", "parameter starting with '_' and names containing a parameter name"),
    ("arena-last-byte", None, None, "expansion ending on the last byte of the parameter arena, then another call"),
    ("tab-in-string", ".msp430\n.macro m(a)\n .db \"x\ty\", a\n.endm\n m(1)\n", ".msp430\n .db \"x\ty\", 1\n",
     "a tab inside a string literal of a macro body"),
    ("tab-in-string-arg", ".msp430\n.macro m(a)\n .db a\n.endm\n m(\"x\ty\")\n", ".msp430\n .db \"x\ty\"\n",
     "a tab inside a string literal passed as argument"),
    ("blank-run-in-string-arg", ".z80\n.macro STR(s)\n .db s, 0\n.endm\n.macro TWO(a, b)\n .db a\n .db b\n.endm\n.org 0x100\n STR(\"a  b\")\none:\n TWO(\" x   y \", ' ')\n STR( \"p,  q)\" )\nend:\n .dw one, end\n",
     ".z80\n.org 0x100\n .db \"a  b\", 0\none:\n .db \" x   y \"\n .db ' '\n .db \"p,  q)\", 0\nend:\n .dw one, end\n",
     "runs of blanks inside string literals passed as macro arguments, labels behind them"),
    ("string-semicolon", ".msp430\n.macro m(a)\n .db \"x;y\", a\n.endm\n m(1)\n", ".msp430\n .db \"x;y\", 1\n",
     "a semicolon inside a string literal of a macro body"),
    ("define-backslash", ".msp430\n.define Q '\\''\n .db Q, 1\n", ".msp430\n .db '\\'', 1\n",
     "a backslash escape inside a literal of a .define text"),
    ("param59", None, None, "a macro with 60 parameters that uses parameter 59"),
    ("equ-blank", ".unsp\nS equ lsr\n.def T = lsr\n or r1,r2 S 1\n or r1,r2 T 2\n", ".unsp\n or r1,r2 lsr 1\n or r1,r2 lsr 2\n",
     "an equ value followed by a blank and another token"),
    ("empty-macro", ".msp430\n.macro e\n.endm\n .db 1\n e\n .db 2\n", ".msp430\n .db 1\n .db 2\n", "a macro with an empty body"),
    # NAME equ VALUE ; comment -- the comment is not part of the value, whatever quotes the value holds
    ("equ-escaped-tick", ".msp430\nQUOTE equ '\\''   ; the quote character\n.org 0x100\nstart:\n  .db QUOTE, 5, 6\nafter:\n  .dw after\n",
     ".msp430\n.org 0x100\nstart:\n  .db '\\'', 5, 6\nafter:\n  .dw after\n", "equ value '\\'' followed by a ; comment, operands behind the name"),
    ("equ-escaped-quote", ".msp430\nINCH equ \"5\\\"\"   // five inch\n.org 0x200\n  .db INCH, 0, 1\nend_of_text:\n  .dw end_of_text\n",
     ".msp430\n.org 0x200\n  .db \"5\\\"\", 0, 1\nend_of_text:\n  .dw end_of_text\n", "equ value with \\\" in a string followed by a // comment"),
    ("equ-other-quote", ".msp430\nDQ equ '\"' ; double quote\nSQ equ \"it's\" // apostrophe\n .db DQ, 1, SQ, 2\nz:\n .dw z\n",
     ".msp430\n .db '\"', 1, \"it's\", 2\nz:\n .dw z\n", "equ values holding the other quote character, comments behind them"),
    ("equ-z80-shadow", ".z80\nSHADOW equ af' ; the shadow register\n ex af, SHADOW\n .db 1, 2\nz:\n .dw z\n",
     ".z80\n ex af, af'\n .db 1, 2\nz:\n .dw z\n", "equ value with an unbalanced tick (Z80 af') and a comment"),
    ("equ-plain-comment", ".msp430\nA equ 'a'   ; letter\nN equ 7 // seven\n.org 0x300\n  .db A, 1, N, 3\n", ".msp430\n.org 0x300\n  .db 'a', 1, 7, 3\n",
     "equ values without escapes, comments behind them"),
]


def focus_cases():
    out = []
    for fid, w, e, what in FOCUS:
        if fid == "arena-last-byte":
            arg = "0+" * 407 + "01"
            w = ".msp430\n.macro m(p)\n.db p, p, p, p, p  \n.endm\n.macro k(q)\n.db q\n.endm\n m(%s)\n k(7)\n k(8)\n" % arg
            e = ".msp430\n.db %s  \n.db 7\n.db 8\n" % ", ".join([arg] * 5)
        if fid == "param59":
            ps = ["p%d" % i for i in range(60)]
            w = ".msp430\n.macro w(%s)\n .db p0, p58, p59\n.endm\n w(%s)\n" % (",".join(ps), ",".join(str(i) for i in range(60)))
            e = ".msp430\n .db 0, 58, 59\n"
        out.append((fid, w, e, what))
    return out


def judge_pair(tag, w, e, rw, re_, orc, sig_extra="", includes=None):
    """rw / re_: parse_prog results of the wrapped and the hand-expanded program"""
    if re_.get("died"):
        return "skip"
    if rw.get("died"):
        orc["failures"].append({"sig": "C09:crash:%s%s" % (tag, sig_extra), "input": w, "expected": "same as hand expansion",
                                "observed": rw["raw"][:300], "what": "the assembler died on the program with macros",
                                "wrapped": w, "expanded": e, "includes": includes or {}})
        return "fail"
    if re_["st"] != 0:
        return "skip"                          # the hand expansion is not a valid program: nothing is demanded
    if rw["st"] != 0:
        orc["failures"].append({"sig": "C09:rejected:%s%s" % (tag, sig_extra), "input": w, "expected": "assembles like its hand expansion",
                                "observed": "status 1, %d errors" % rw["err"], "what": "program with macros rejected, hand expansion accepted",
                                "wrapped": w, "expanded": e, "includes": includes or {}})
        return "fail"
    diffs = same_result(rw, re_)
    if diffs:
        orc["failures"].append({"sig": "C09:differs:%s%s" % (tag, sig_extra), "input": w, "expected": "image and labels of the hand expansion",
                                "observed": "; ".join(diffs), "what": "program with macros and its hand expansion differ",
                                "wrapped": w, "expanded": e, "includes": includes or {}})
        return "fail"
    return "ok"


def oracle(ctx, orc, focus=None):
    rng = ctx.rng
    stats = collections.Counter()
    kinds = collections.Counter()
    # 1. deterministic cases
    fc = focus_cases()
    lines = []
    for fid, w, e, what in fc:
        lines += [nvlib.prog_line(w), nvlib.prog_line(e)]
    res = [nvlib.parse_prog(x) for x in ctx.impl(lines)]
    for i, (fid, w, e, what) in enumerate(fc):
        orc["cases"] += 1
        stats["focus:" + judge_pair("focus:" + fid, w, e, res[2 * i], res[2 * i + 1], orc)] += 1
    # 2. wrapped programs against their hand expansion
    cpus = S.cpus()
    pairs = []
    for i in range(ctx.scale(1500, 15000)):
        cpu = rng.choice(cpus) if rng.random() < 0.7 else rng.choice(["msp430", "riscv", "z80", "6502", "avr8", "68000"])
        base = S.base_program(rng, cpu, None, False)
        d = G.wrapped_program(rng, base)
        d["cpu"] = cpu
        pairs.append(d)
    lines = []
    for d in pairs:
        lines += [nvlib.prog_line(d["wrapped"], includes=d["includes"]), nvlib.prog_line(d["expanded"])]
    res = [nvlib.parse_prog(x) for x in ctx.impl(lines)]
    seen = set()
    for i, d in enumerate(pairs):
        orc["cases"] += 1
        ks = sorted(set(k.split(":")[0] for k in d["kinds"] if k != "none"))
        tag = "%s:%s" % (d["cpu"], "+".join(ks) or "plain")
        v = judge_pair(tag, d["wrapped"], d["expanded"], res[2 * i], res[2 * i + 1], orc,
                       ":" + nvlib.sha(d["wrapped"].encode("latin-1"))[:10], includes=d["includes"])
        stats[v] += 1
        if v == "ok":
            for k in d["kinds"]:
                kinds[k] += 1
            if ks:
                seen.add(d["wrapped"])
    # 3. .repeat n = n copies of the bytes of the body
    reps = []
    for i in range(ctx.scale(400, 4000)):
        cpu = rng.choice(cpus)
        base = S.base_program(rng, cpu, None, False)
        d = G.repeat_program(rng, base)
        d["cpu"] = cpu
        reps.append(d)
    lines = []
    for d in reps:
        lines += [nvlib.prog_line(d["w"]), nvlib.prog_line(d["r"]), nvlib.prog_line(d["a"]), nvlib.prog_line(d["b"])]
    res = [nvlib.parse_prog(x) for x in ctx.impl(lines)]
    for i, d in enumerate(reps):
        orc["cases"] += 1
        v = judge_repeat(d, res[4 * i], res[4 * i + 1], res[4 * i + 2], res[4 * i + 3], orc)
        stats["repeat:" + v] += 1
        if v == "ok":
            seen.add(d["w"])
    orc["stats"] = {"verdicts": dict(stats), "kinds_in_passing_pairs": dict(kinds)}
    orc["distinct_nontrivial"] = len(seen)
    orc["samples"] = [{"wrapped": pairs[i]["wrapped"][:400], "kinds": pairs[i]["kinds"]} for i in range(0, len(pairs), max(1, len(pairs) // 4))][:4]


def judge_repeat(d, rw, rr, ra, rb, orc):
    """rw: with .repeat; rr: body once; ra: what precedes the body; rb: that plus the body"""
    cpu, w, n = d["cpu"], d["w"], d["n"]
    if any(x.get("died") or x.get("st") != 0 for x in (rr, ra, rb)):
        return "skip"
    tag = "%s:n%d:%s" % (cpu, n, nvlib.sha(w.encode("latin-1"))[:10])
    tail = w.split("zafter:\n", 1)[1] if "zafter:\n" in w else ""
    if not rw.get("died") and rw["st"] != 0 and n > 1 and any(l.strip() and not l.strip().startswith(".") and not l.strip().endswith(":")
                                                            for l in tail.split("\n")):
        # an instruction behind the block may address something by distance (86000 `bne 0x10,25` 192 bytes further
        # on is out of range): the program with n copies written by hand is rejected as well, nothing is demanded
        return "skip-tail-moved"
    if rw.get("died") or rw["st"] != 0:
        orc["failures"].append({"sig": "C09:repeat-rejected:" + tag, "input": w, "expected": "assembles",
                                "observed": rw["raw"][:200], "what": ".repeat around valid statements rejected"})
        return "fail"
    bpa = rr["bpa"]
    base = d["org"] * bpa
    # the image is one run of bytes from the origin: byte addresses of the body
    if ra["image"] and (min(ra["image"]) != base or len(ra["image"]) != max(ra["image"]) - base + 1):
        return "skip"
    if not rb["image"] or min(rb["image"]) != base or len(rb["image"]) != max(rb["image"]) - base + 1:
        return "skip"
    start, end = base + len(ra["image"]), base + len(rb["image"])
    ln = end - start
    if ln <= 0:
        return "skip"
    body = [rb["image"][start + i] for i in range(ln)]
    sym_w = {nm: v for nm, v, sc, ex in rw["syms_list"]}
    want_after = start + n * ln
    if sym_w.get("zstart", -1) != start // bpa:
        orc["failures"].append({"sig": "C09:repeat-start:" + tag, "input": w, "expected": hex(start // bpa), "observed": str(sym_w.get("zstart")),
                                "what": "label before .repeat moved"})
        return "fail"
    if sym_w.get("zafter", -1) != want_after // bpa:
        orc["failures"].append({"sig": "C09:repeat-length:" + tag, "input": w, "expected": "zafter = 0x%x" % (want_after // bpa),
                                "observed": "zafter = 0x%x" % sym_w.get("zafter", -1),
                                "what": ".repeat %d did not advance by %d * %d bytes" % (n, n, ln)})
        return "fail"
    for k in range(n):
        for i in range(ln):
            if rw["image"].get(start + k * ln + i) != body[i]:
                orc["failures"].append({"sig": "C09:repeat-bytes:" + tag, "input": w,
                                        "expected": "copy %d byte %d = %02x" % (k, i, body[i]),
                                        "observed": str(rw["image"].get(start + k * ln + i)),
                                        "what": ".repeat %d: copy %d differs from the bytes of the body" % (n, k)})
                return "fail"
    # what follows the block is what followed the body, moved by (n-1)*len -- when that keeps the alignment
    if ((n - 1) * ln) % max(bpa, 4) == 0:
        for a, b in rr["image"].items():
            # data only: instructions after the block may be PC-relative
            if a >= end and rr["kinds"].get(a) == "d" and rw["image"].get(a + (n - 1) * ln) != b:
                orc["failures"].append({"sig": "C09:repeat-after:" + tag, "input": w, "expected": "byte %02x at 0x%x" % (b, a + (n - 1) * ln),
                                        "observed": str(rw["image"].get(a + (n - 1) * ln)), "what": "bytes after .endr misplaced"})
                return "fail"
    return "ok"


def replay(ctx, rec):
    f = rec.get("failure") or {}
    w, e = f.get("wrapped"), f.get("expanded")
    if not w or e is None:
        return {"fails": False, "note": "no wrapped/expanded pair recorded", "record": f}
    res = [nvlib.parse_prog(x) for x in ctx.impl([nvlib.prog_line(w, includes=f.get("includes") or None), nvlib.prog_line(e)])]
    orc = {"failures": []}
    v = judge_pair("replay", w, e, res[0], res[1], orc)
    return {"fails": v == "fail", "verdict": v, "failures": orc["failures"][:1]}
