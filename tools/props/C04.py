"""C04 — constant expressions evaluate to their arithmetic value."""
import os, subprocess
import nvlib, gen_expr as G

ID = "C04"
LEAN_MODULES = ["NakenVerif.Props.C04"]
THEOREMS = [
    "NakenVerif.Expr.prec_conventional",
    "NakenVerif.Expr.applyOp_spec",
    "NakenVerif.Expr.eval_render",
    "NakenVerif.Expr.run_no_fault",
    "NakenVerif.Expr.eval_no_fuel",
    "NakenVerif.Expr.trailing_operator_rejected",
    "NakenVerif.Expr.unclosed_paren_rejected",
    "NakenVerif.Expr.empty_rejected",
    "NakenVerif.Expr.adjacent_operands_rejected",
    "NakenVerif.Expr.lone_unary_rejected",
    "NakenVerif.Expr.eval32_exact",
    "NakenVerif.Expr.eval32_rejects_unfit",
    "NakenVerif.Expr.unary_no_fault",
    "NakenVerif.Expr.eval_no_fault",
    "NakenVerif.Expr.Literal.literal_decimal",
    "NakenVerif.Expr.Literal.literal_decimal_sep",
    "NakenVerif.Expr.Literal.literal_hex_prefix",
    "NakenVerif.Expr.Literal.literal_hex_prefix_sep",
    "NakenVerif.Expr.Literal.literal_bin_prefix",
    "NakenVerif.Expr.Literal.literal_bin_prefix_sep",
    "NakenVerif.Expr.Literal.literal_octal_leading_zero",
    "NakenVerif.Expr.Literal.literal_octal_leading_zero_sep",
    "NakenVerif.Expr.Literal.literal_hex_postfix",
    "NakenVerif.Expr.Literal.literal_oct_postfix",
    "NakenVerif.Expr.Literal.literal_bin_postfix",
]
RULE = ("expressions: every operator pair and triple as a flat chain, random trees (depth<=6) rendered with "
        "minimal and redundant parentheses, literals in every documented notation at boundary values, plus a "
        "malformed stream (token deletion/duplication/insertion).  A case is non-trivial when it has >= 2 "
        "operators or is malformed; distinct = distinct token strings.")
MODELLED = "EvalExpression::run/execute_stack/parse_unary_new, Operator::set_operator/execute, Var integer ops, literal post-processing of tokens_get"
NOT_MODELLED = "floating point operands (outside the property), symbols/defines inside expressions (C09/C11)"
ASSUMPTIONS = ["shift counts outside 0..63 are undefined in C; the specification leaves them unspecified and the "
               "model records the x86-64 behaviour (count mod 64) only so that it can be compared with the code"]
TRUSTED_BASE = ["tools/gen_expr.py reference evaluator (independent precedence-climbing parser used by the search)"]


def lit_of(rng):
    return lambda v: G.spell(v, rng)


def gen_cases(ctx):
    rng = ctx.rng
    cases = []   # (kind, tokens)
    small = [0, 1, 2, 3, 5, 7, 12, 100, 255, 0xffff, 0x7fffffff, 0xffffffff, (1 << 63) - 1, 1 << 63, G.M64]
    # every operator pair and triple
    for a in G.OPS:
        for b in G.OPS:
            cases.append(("chain", [str(x) if isinstance(x, int) else x for x in G.flat_tree(rng, [a, b], small[:9])]))
            for c in G.OPS:
                if ctx.quick() and rng.random() < 0.5:
                    continue
                cases.append(("chain", [G.spell(x, rng) if isinstance(x, int) else x
                                        for x in G.flat_tree(rng, [a, b, c], small)]))
    # long chains (all six levels tightening / loosening)
    for _ in range(ctx.scale(200, 3000)):
        n = rng.randrange(4, 12)
        ops = [rng.choice(G.OPS) for _ in range(n)]
        cases.append(("chain", [G.spell(x, rng) if isinstance(x, int) else x for x in G.flat_tree(rng, ops, small)]))
    cases.append(("chain", "1 | 2 ^ 3 & 4 << 1 + 2 * 3".split()))
    cases.append(("chain", "3 * 2 + 1 << 4 & 255 ^ 6 | 9".split()))
    # random trees
    for _ in range(ctx.scale(2500, 60000)):
        t = G.gen_tree(rng, rng.randrange(1, 7))
        toks = G.render(t, lit_of(rng))
        if rng.random() < 0.15:
            toks = ["+"] + toks
        if rng.random() < 0.2:
            toks = toks + [rng.choice([",", ")", "(", "]"]), "7"]
        cases.append(("tree", toks))
    # deep nesting
    for d in (10, 40, 120):
        cases.append(("tree", ["("] * d + ["1"] + [")"] * d))
        cases.append(("tree", ["-", "~"] * d + ["5"]))
    # malformed: mutate well-formed strings
    for _ in range(ctx.scale(1500, 30000)):
        t = G.gen_tree(rng, rng.randrange(1, 5))
        toks = G.render(t, lambda v: str(v & 0xffff))
        k = rng.randrange(5)
        i = rng.randrange(len(toks))
        if k == 0: toks = toks[:i] + toks[i + 1:]
        elif k == 1: toks = toks[:i] + [toks[i]] + toks[i:]
        elif k == 2: toks = toks[:i] + [rng.choice(G.OPS + ["(", ")", "~", "1", ",", "!", "#", "x"])] + toks[i:]
        elif k == 3: toks = toks[:i]
        else: toks = toks + [rng.choice(G.OPS + ["(", "~"])]
        if toks:
            cases.append(("mut", toks))
    for s in ["1 +", "( 1 + )", "( 1 + 2", "3 - - ( 2", "~", "-", "( )", "1 2", "1 ~ 2", "* 3", "1 / 0", "1 % 0",
              "5 / ( 3 - 3 )", "0x8000000000000000 / - 1", "0x8000000000000000 % - 1", "+ 5", "+", "1 + + 2",
              "6 (", "- 6 (", "6 - 4 ( 3 + 4 )"]:
        cases.append(("mut", s.split()))
    return cases


def gen_literals(ctx):
    rng = ctx.rng
    out = []
    for v in G.BOUNDARY + [rng.getrandbits(rng.choice([8, 16, 31, 32, 33, 63, 64])) for _ in range(ctx.scale(300, 5000))]:
        for _ in range(3):
            out.append(G.spell(v, rng))
        out.append(str(v))
    # malformed / odd spellings
    alpha = "0123456789abcdefhqxbABCDEFHQXB_gz"
    for _ in range(ctx.scale(500, 10000)):
        n = rng.randrange(1, 8)
        out.append(rng.choice("0123456789") + "".join(rng.choice(alpha) for _ in range(n)))
    out += ["0x", "0b", "0", "00", "089", "0779", "1_000", "0x_1", "12h3h", "0xh", "1b", "2b", "0b2", "0q", "8q",
            "18446744073709551615", "18446744073709551616", "99999999999999999999999", "9223372036854775808",
            "0xffffffffffffffffff", "0b" + "1" * 70, "1" + "7" * 25 + "q"]
    return sorted(set(out))


def line_of(toks, flag="0"):
    return "expr %s %s" % (flag, " ".join(toks))


def correspondence(ctx, corr):
    cases = gen_cases(ctx)
    lits = gen_literals(ctx)
    lines = [line_of(t) for _, t in cases] + ["lit %d %s" % (f, w) for w in lits for f in (0, 1)]
    # the int overload: values around the 32-bit boundaries, and every chain/tree case again
    n32 = []
    for v in [0, 1, -1, 2**31 - 1, 2**31, 2**31 + 1, 2**32 - 1, 2**32, 2**32 + 1, -2**31, -2**31 - 1, -2**31 + 1,
              2**33, 2**63 - 1, -2**63, 0x100002345, 0xffffffff, -0xffffffff, -2**32]:
        n32.append((["-", hex(-v)] if v < 0 else [hex(v)]))
        n32.append(["(", str(abs(v)), ")", "*", "-1" if v < 0 else "1"] if False else (["0", "-", str(-v)] if v < 0 else [str(v), "+", "0"]))
    n32 += [t for _, t in cases[: ctx.scale(600, 6000)]]
    ctx.notes["n32"] = n32
    lines = ["expr32 0 " + " ".join(t) for t in n32] + lines
    # corpus first
    cp = os.path.join(nvlib.VERIF, "corpus", ID, "lines.txt")
    if os.path.exists(cp):
        lines = [l.strip() for l in open(cp) if l.strip() and not l.startswith("#")] + lines
    h, d = ctx.both(lines)
    ctx.notes["lines"], ctx.notes["impl"], ctx.notes["cases"], ctx.notes["lits"] = lines, h, cases, lits
    corr["cases"] += len(lines)
    kinds = {}
    for l, a, b in zip(lines, h, d):
        k = a.split(" ")[0]
        kinds[k] = kinds.get(k, 0) + 1
        if a != b:
            corr["disagreements"].append({"line": l, "impl": a, "model": b})
    corr["streams"]["expr+lit"] = {"lines": len(lines), "impl_answer_kinds": kinds}
    distinct = set(l for l in lines if l.count(" ") >= 5)
    corr["distinct_nontrivial"] = len(distinct)
    corr["samples"] = [{"line": lines[i], "impl": h[i], "model": d[i]} for i in range(0, len(lines), max(1, len(lines) // 6))][:6]


def value_of_token(t):
    if t and t[0].isdigit():
        return G.lit_value(t)
    return None


def judge(toks, ans):
    """property oracle for one expr case; returns None or (sig, expected, what)"""
    text = " ".join(toks)
    if ans.startswith("DIED") or ans in ("MISSING", "fault"):
        return ("C04:crash:" + text, "an error or a value", "evaluator crashed: " + ans)
    if ans.startswith("ok "):
        _, hx, rem, nxt = ans.split(" ", 3)
        c = len(toks) - int(rem)
        try:
            v, used = G.ref_eval(toks[:c], value_of_token)
        except G.Malformed as e:
            return ("C04:accepts-malformed:" + text, "error", "accepted prefix %r is not an expression (%s), value %s" % (" ".join(toks[:c]), e, hx))
        if used != c or not G.is_end(toks, c):
            return ("C04:accepts-malformed:" + text, "error", "stopped inside an expression after %d tokens, value %s" % (c, hx))
        if v is None:
            return ("C04:no-value-accepted:" + text, "error (division/modulo by zero)", "got value " + hx)
        if v != "unspec" and int(hx, 16) != v:
            return ("C04:value:" + text, "%016x" % v, "got " + hx)
        return None
    if ans == "err":
        try:
            v, used = G.ref_eval(toks, value_of_token)
        except G.Malformed:
            return None
        if used == len(toks) and v is not None and v != "unspec":
            return ("C04:rejects-valid:" + text, "%016x" % v, "rejected")
        return None
    return ("C04:protocol:" + text, "ok/err", ans)


def oracle(ctx, orc, focus=None):
    if "lines" in ctx.notes:
        cases, lits, lines, impl = ctx.notes["cases"], ctx.notes["lits"], ctx.notes["lines"], ctx.notes["impl"]
        off = len(lines) - len(cases) - 2 * len(lits)
        impl_cases = impl[off:off + len(cases)]
        impl_lits = impl[off + len(cases):]
    else:
        cases, lits = gen_cases(ctx), gen_literals(ctx)
        res = ctx.impl([line_of(t) for _, t in cases] + ["lit %d %s" % (f, w) for w in lits for f in (0, 1)])
        impl_cases, impl_lits = res[:len(cases)], res[len(cases):]
    stats = {"ok": 0, "err": 0, "malformed_rejected": 0, "unspecified_shift": 0}
    for (kind, toks), ans in zip(cases, impl_cases):
        orc["cases"] += 1
        stats["ok" if ans.startswith("ok") else "err"] += 1
        f = judge(toks, ans)
        if f:
            orc["failures"].append({"sig": f[0], "input": " ".join(toks), "expected": f[1], "observed": ans, "what": f[2],
                                    "replay_line": line_of(toks)})
    # the 32-bit overload: exact or rejected, never silently truncated
    if "n32" in ctx.notes and "lines" in ctx.notes:
        n32 = ctx.notes["n32"]
        start = len(lines) - len(cases) - 2 * len(lits) - len(n32)
        for toks, ans in zip(n32, impl[start:start + len(n32)]):
            orc["cases"] += 1
            try:
                v, used = G.ref_eval(toks, value_of_token)
            except G.Malformed:
                continue
            if used != len(toks) or v is None or v == "unspec":
                continue
            sv = G.s64(v)
            text = " ".join(toks)
            if -2**31 <= sv <= 2**32 - 1:
                if ans != "ok %08x" % (v & 0xffffffff):
                    orc["failures"].append({"sig": "C04:narrow32-value:" + text, "input": text, "expected": "ok %08x" % (v & 0xffffffff),
                                            "observed": ans, "what": "32-bit operand value wrong", "replay_line": "expr32 0 " + text})
            elif ans != "err":
                orc["failures"].append({"sig": "C04:narrow32-truncated:" + text, "input": text, "expected": "err (value %d does not fit 32 bits)" % sv,
                                        "observed": ans, "what": "value silently truncated to 32 bits", "replay_line": "expr32 0 " + text})
    # literals: documented notations must have their positional value
    i = 0
    for w in lits:
        for flag in (0, 1):
            ans = impl_lits[i]; i += 1
            orc["cases"] += 1
            ref = G.lit_value(w)
            if flag == 1 and w[-1] in "hHqQ" and not w.lower().startswith("0x"):
                continue     # postfix notations are switched off for this CPU family
            t = w.replace("_", "")
            documented = ref is not None and len(t) > 0
            digits = t[2:] if t[:2] in ("0x", "0b") else t[:-1] if t[-1] in "hHqQbB" and not t.isdigit() else t
            if w == "0x" and flag == 0:
                if ans != "word":
                    orc["failures"].append({"sig": "C04:literal:empty-digits:" + w, "input": w, "expected": "rejected (no digits)",
                                            "observed": ans, "what": "literal without digits accepted"})
                continue
            if ans.startswith("DIED"):
                orc["failures"].append({"sig": "C04:literal:crash:" + w, "input": w, "expected": "value or rejection",
                                        "observed": ans, "what": "crash"})
            elif documented and t.isdigit() and t[0] != "0" and int(t) > G.M64:
                # decimal literal that does not fit 64 bits has no 64-bit value
                if ans != "word":
                    orc["failures"].append({"sig": "C04:literal:decimal-overflow:" + w, "input": w, "expected": "rejected",
                                            "observed": ans, "what": "decimal literal >= 2^64 accepted"})
            elif documented and ans.startswith("num ") and _clean_form(w):
                if int(ans[4:], 16) != ref:
                    orc["failures"].append({"sig": "C04:literal:value:" + w, "input": w, "expected": "%016x" % ref,
                                            "observed": ans, "what": "wrong literal value"})
            elif documented and _clean_form(w) and ans == "word":
                orc["failures"].append({"sig": "C04:literal:rejected:" + w, "input": w, "expected": "%016x" % ref,
                                        "observed": ans, "what": "documented literal form rejected"})
    # observation point of the property: bytes emitted by .dc64 <expr> and the exit status
    exe = ctx.repo["naken_asm"]
    tmp = ctx.tmpdir()
    sample = [c for c in cases if c[0] != "mut"][:: max(1, len(cases) // ctx.scale(40, 300))][:ctx.scale(40, 300)]
    sample += [("mut", "1 / 0".split()), ("mut", "7 % ( 2 - 2 )".split()), ("mut", "1 +".split()), ("mut", "( 1 + 2".split())]
    for n, (kind, toks) in enumerate(sample):
        src = os.path.join(tmp, "e%d.asm" % n)
        out = os.path.join(tmp, "e%d.bin" % n)
        open(src, "w").write(".msp430\n.dc64 %s\n" % " ".join(toks))
        if os.path.exists(out):
            os.unlink(out)
        r = subprocess.run([exe, "-q", "-type", "bin", "-o", out, src], stdout=subprocess.PIPE, stderr=subprocess.PIPE,
                           env=nvlib.SAN_ENV, timeout=60)
        orc["cases"] += 1
        text = " ".join(toks)
        try:
            v, used = G.ref_eval(toks, value_of_token)
            full = used == len(toks)
        except G.Malformed:
            v, full = "malformed", False
        if r.returncode not in (0, 1):
            orc["failures"].append({"sig": "C04:dc64-crash:" + text, "input": text, "expected": "exit 0 or 1",
                                    "observed": "exit %d %s" % (r.returncode, r.stderr.decode(errors="replace")[-300:]),
                                    "what": "naken_asm died"})
        elif full and isinstance(v, int):
            data = open(out, "rb").read() if os.path.exists(out) else None
            if r.returncode != 0 or data != v.to_bytes(8, "little"):
                orc["failures"].append({"sig": "C04:dc64-value:" + text, "input": text, "expected": "%016x" % v,
                                        "observed": "exit %d bytes %s" % (r.returncode, data.hex() if data else None),
                                        "what": ".dc64 emitted other bytes"})
        elif (v is None and full) or v == "malformed":
            if r.returncode == 0 and kind == "mut":
                orc["failures"].append({"sig": "C04:dc64-accepted:" + text, "input": text, "expected": "exit 1",
                                        "observed": "exit 0", "what": "expression without value assembled"})
    orc["stats"] = stats
    orc["distinct_nontrivial"] = len(set(" ".join(t) for _, t in cases if len(t) >= 5))
    orc["samples"] = [{"tokens": " ".join(cases[i][1]), "impl": impl_cases[i]} for i in range(0, len(cases), max(1, len(cases) // 5))][:5]


def _clean_form(w):
    """spellings whose meaning docs/literals.md defines unambiguously"""
    t = w.replace("_", "")
    hexd = "0123456789abcdefABCDEF"
    for i, c in enumerate(w):      # '_' only as a separator between two digits
        if c == "_" and not (0 < i < len(w) - 1 and w[i - 1] in hexd and w[i + 1] in hexd): return False
    if w[:2] in ("0x", "0b") and len(w) > 2 and w[2] == "_": return False
    if t[:2] == "0x": return all(c in "0123456789abcdefABCDEF" for c in t[2:]) and len(t) > 2 and len(t) - 2 <= 16
    if t[:2] == "0b": return set(t[2:]) <= set("01") and len(t) > 2 and len(t) - 2 <= 64
    if t[-1] in "hH": return all(c in "0123456789abcdefABCDEF" for c in t[:-1]) and len(t) - 1 <= 16
    if t[-1] in "qQ": return set(t[:-1]) <= set("01234567") and len(t) > 1 and int(t[:-1], 8) <= G.M64
    if t[-1] in "bB": return set(t[:-1]) <= set("01") and len(t) > 1 and len(t) - 1 <= 64
    if t.isdigit():
        if len(t) > 1 and t[0] == "0": return set(t) <= set("01234567") and int(t, 8) <= G.M64
        return int(t) <= G.M64
    return False


def replay(ctx, rec):
    f = rec.get("failure") or {}
    line = f.get("replay_line")
    if not line:
        return {"fails": False, "note": "no replay line recorded", "record": rec}
    ans = ctx.impl([line])[0]
    toks = line.split(" ")[2:]
    j = judge(toks, ans)
    return {"fails": j is not None, "line": line, "impl": ans, "verdict": j}
