"""C10 — conditional assembly includes exactly the branch its condition selects."""
import os, json
import nvlib, gen_cond as G

ID = "C10"
LEAN_MODULES = ["NakenVerif.Props.C10"]
THEOREMS = [
    "NakenVerif.Cond.cond_table_conventional",
    "NakenVerif.Cond.eval_operation_spec",
    "NakenVerif.Cond.cond_eval_render",
    "NakenVerif.Cond.cond_eval_render_fuel",
    "NakenVerif.Cond.if_decision",
    "NakenVerif.Cond.double_not_and_minus_one_fixed",
    "NakenVerif.Cond.unclosed_paren_is_error",
    "NakenVerif.Cond.junk_operand_is_error",
    "NakenVerif.Cond.malformed_rejected",
    "NakenVerif.Cond.cond_no_fault",
    "NakenVerif.Cond.skip_matches",
    "NakenVerif.Cond.skip_matches_else",
    "NakenVerif.Cond.skip_matches_nested",
    "NakenVerif.Cond.skip_unterminated",
    "NakenVerif.Cond.skip_items_tokens",
    "NakenVerif.Cond.render_correct",
    "NakenVerif.Cond.selected_only",
    "NakenVerif.Cond.nested_else_selected",
    "NakenVerif.Cond.unterminated_is_error",
    "NakenVerif.Cond.stray_endif_is_error",
    "NakenVerif.Cond.stray_else_is_error",
    "NakenVerif.Cond.second_else_is_error",
    "NakenVerif.Cond.ifdef_without_label_is_error",
    "NakenVerif.Cond.unterminated_and_stray_endif_fixed",
]
RULE = ("conditions: every operator pair and triple as a flat chain over numbers, defines and symbols; random "
        "trees (depth<=6) rendered with minimal and redundant parentheses; '!' chains; parenthesis nesting to 120; "
        "defined() of every kind of name; malformed mutations (token deletion/duplication/insertion/truncation).  "
        "skip loop: random directive-level word streams.  block programs: random well-formed if/ifdef/ifndef/else/endif "
        "trees (depth<=4) over marker bytes, labels, defines, macros, failing and noise statements in untaken branches, "
        "and single-directive mutations of them.  A case is non-trivial when it has >= 2 operators / >= 2 conditional "
        "directives or is malformed; distinct = distinct input strings.")
MODELLED = ("parse_ifdef_expression/eval_ifdef_expression/parse_defined/eval_operation/is_num (token level), get_operator "
            "table (translator), ifdef_ignore (directive-token level), parse_if/parse_ifdef/parse_ifdef_ignore and the "
            "if/ifdef/ifndef/else/endif cases of parse_directives + return codes of AsmContext::assemble (statement level)")
NOT_MODELLED = ("tokenisation of the condition text (C04/C09 lexer models; exercised through the real lexer by the "
                "cond/blk/prog streams), .repeat/.include/macro expansion around "
                "conditionals (oracle only), upper-case spellings of the directives (ifdef_ignore compares with "
                "strcasecmp, parse_directives with strcmp)")
ASSUMPTIONS = ["a condition that mentions an undefined name or a non-numeric define has no value; the property text does "
               "not say whether that is an error, so the oracle does not judge such conditions",
               "number literals above 2^31-1 and the value of an empty define are not judged (unspecified)"]
TRUSTED_BASE = ["tools/gen_cond.py reference parser/evaluator and reference block semantics (written from the property text)"]

ENV_TEXT = "d:A=5;d:Z=0;d:E=;d:T=abc;d:SP=12 ;m:M;s:L=7;s:N=4294967295;s:B=2147483648;d:K=7"
REF_ENV = {"A": ("num", 5), "Z": ("num", 0), "T": ("text",), "SP": ("num", 12), "M": ("text",),
           "L": ("sym", 7), "N": ("sym", 4294967295), "B": ("sym", 2147483648), "K": ("num", 7), "E": ("text",)}
UNJUDGED_NAMES = {"E"}
VALUE_NAMES = ["A", "Z", "SP", "L", "N", "B", "K"]
ALL_NAMES = VALUE_NAMES + ["T", "M", "E", "Q"]
NUMS = [0, 1, 2, 3, 5, 7, 12, 100, 2147483647]
BIGNUMS = [2147483648, 4294967295, 4294967296, 9223372036854775807, 9223372036854775808, 99999999999999999999]
JUNK = ["+", "-", "*", "=", "&", "|", "<<", ">>", ",", "~", "^", "1.5", "\"abc\"", "[", "]"]


def gen_cond_cases(ctx):
    rng = ctx.rng
    cases = []

    def leaf(big=False):
        c = rng.random()
        if c < 0.55: return str(rng.choice(NUMS + (BIGNUMS if big and rng.random() < 0.3 else [])))
        if c < 0.85: return rng.choice(VALUE_NAMES)
        return None

    def operand(big=False):
        l = leaf(big)
        if l is None:
            return ["defined", "(", rng.choice(ALL_NAMES), ")"]
        return [l]

    # every operator pair and triple as a flat chain
    for a in G.OPS:
        for b in G.OPS:
            cases.append(("chain", operand() + [a] + operand() + [b] + operand()))
            for c in G.OPS:
                if ctx.quick() and rng.random() < 0.5: continue
                cases.append(("chain", operand() + [a] + operand() + [b] + operand() + [c] + operand()))
    for _ in range(ctx.scale(300, 5000)):
        n = rng.randrange(4, 10)
        t = operand(True)
        for _ in range(n):
            t += [rng.choice(G.OPS)] + (["!"] if rng.random() < 0.15 else []) + operand(True)
        cases.append(("chain", t))
    # random trees, minimal and redundant parentheses
    for _ in range(ctx.scale(6000, 60000)):
        t = G.gen_tree(rng, rng.randrange(1, 7), ALL_NAMES if rng.random() < 0.3 else VALUE_NAMES,
                       NUMS + (BIGNUMS if rng.random() < 0.1 else []))
        cases.append(("tree", G.render(t)))
    for d in (1, 2, 3, 10, 40, 120):
        cases.append(("tree", ["("] * d + ["1", "==", "1"] + [")"] * d))
        cases.append(("tree", ["!"] * d + ["5"]))
        cases.append(("tree", ["!"] * d + ["(", "A", "<", "3", ")"]))
        cases.append(("tree", ["(", "1", "&&"] * d + ["0"] + [")"] * d))
    # malformed: mutations of well-formed strings
    for _ in range(ctx.scale(2000, 40000)):
        toks = G.render(G.gen_tree(rng, rng.randrange(1, 5), VALUE_NAMES, NUMS))
        k = rng.randrange(6)
        i = rng.randrange(len(toks))
        ins = rng.choice(G.OPS + ["(", ")", "!", "1", "A", "Q", "defined"] + JUNK)
        if k == 0: toks = toks[:i] + toks[i + 1:]
        elif k == 1: toks = toks[:i] + [toks[i]] + toks[i:]
        elif k == 2: toks = toks[:i] + [ins] + toks[i:]
        elif k == 3: toks = toks[:i]
        elif k == 4: toks = toks[:i] + [ins] + toks[i + 1:]
        else: toks = toks + [rng.choice(G.OPS + ["(", ")", "!"] + JUNK)]
        if toks: cases.append(("mut", toks))
    for s in ["1", "0", "1 == 2 || 0", "2 == 3 && 3 == 3", "! ( 1 == 2 ) && 0", "( 1", "( 1 == 1", "1 == ( 2", "==", "1 == ==",
              "== 1", "+", "+ == 0", "N", "( N )", "! N", "N < 0", "B < 0", "4294967295", "4294967296", "9223372036854775808",
              "E", "T", "M", "Q", "SP == 12", "defined ( A )", "DEFINED ( A )", "Defined ( Q )", "defined ( 5 )", "defined ( )",
              "defined A", "defined ( A", "defined", "defined ( defined )", "! ! 1", "!", "( )", "( 1 ) )", ")", "1 2", "1 A",
              "1 +", "1 = 1", "1 & 1", "1 != 1", "3 > 2 > 1", "1 < 2 == 1", "! ( 0 ) == 1", "! 0 == 1", "1 || 0 && 0",
              "0 && 0 || 1", "1 == 1 == 1", "2 == 2 == 2", "5 > 3 == 1", "( 1 || 0 ) && 0", "A > 3 && L < 10 || Z",
              "defined ( A ) && ! defined ( Q ) && K > 5", "1 ( 2 )", "( 1 ) ( 2 )", "1 !", "1 ! 2", "1 == ! 2", "1 == ! ! 1"]:
        cases.append(("fixed", s.split()))
    return cases


def gen_skip_cases(ctx):
    rng = ctx.rng
    words = [".", "#", "if", "ifdef", "ifndef", "else", "endif", "IF", "Endif", "ELSE", "x", "endr", "define", "5", "<nl>", "<nl>",
             ",", "+", "endif2", "macro"]
    out = []
    for _ in range(ctx.scale(1500, 30000)):
        n = rng.randrange(1, 30)
        w = []
        for _ in range(n):
            if rng.random() < 0.45:
                w += [rng.choice([".", "#"]), rng.choice(words[2:10])]
                if rng.random() < 0.5: w.append("<nl>")
            else:
                w.append(rng.choice(words))
        out.append(w)
    out += [s.split() for s in [". endif", ". else", "x", ". if <nl> . endif <nl> . endif y", ". . endif <nl> . endif",
                                ". endif endif", ". <nl> endif <nl> . endif q", "# if # else # endif # else z", "."]]
    return out


def mutate_lines(rng, lines):
    lines = list(lines)
    k = rng.randrange(5)
    idx = [i for i, l in enumerate(lines) if l[0] != "stmt"]
    if k == 0 and idx:
        del lines[rng.choice(idx)]
    elif k == 1:
        lines.insert(rng.randrange(len(lines) + 1), rng.choice([("else",), ("endif",), ("if", ("cond", [str(rng.choice([0, 1]))]))]))
    elif k == 2 and idx:
        i = rng.choice(idx)
        lines.insert(i, lines[i])
    elif k == 3:
        lines = lines[:rng.randrange(1, len(lines) + 1)]
    else:
        lines.append(rng.choice([("else",), ("endif",)]))
    return lines


def gen_block_cases(ctx, simple, count):
    rng = ctx.rng
    out = []
    for _ in range(count):
        g = G.BlockGen(rng, simple=simple)
        nodes = g.program(rng.randrange(1, 4))
        lines = G.flatten(nodes)
        out.append(("wf", lines))
        if rng.random() < 0.6:
            out.append(("mut", mutate_lines(rng, lines)))
    return out


FIXED_BLOCKS = [
    "if:1 db:1", "if:0 db:1", "if:0 db:1 else db:2", "if:1 db:1 else db:2", "if:1 db:1 endif db:2 endif",
    "if:0 db:1 endif db:2 endif", "if:1 db:1 else db:2 else db:3 endif db:4", "if:0 db:1 else db:2 else db:3 endif db:4",
    "if:1 db:1 endif db:2 else db:3 endif db:4", "else db:1", "endif db:1", "db:1 else", "db:1 endif",
    "if:1 if:0 db:1 else db:2 endif db:3 else db:4 endif db:5", "if:1 if:1 db:1 else db:2 endif db:3 else db:4 endif db:5",
    "if:1 if:0 db:1 else else db:2 endif endif", "if:0 db:9 else if:0 db:1 else db:2 endif db:3 endif db:5",
    "ifdef: db:1 endif", "ifndef: db:1 endif", "ifdef:Q db:1 else db:2 endif", "ifndef:Q db:1 else db:2 endif",
    "lab:x ifdef:x db:1 else db:2 endif", "def:A:5 if:A,==,5 db:1 endif", "def:A: ifdef:A db:1 endif", "def:A:abc if:A db:1 endif",
    "def:A:5 def:A:6 if:A,==,5 db:1 else db:2 endif", "lab:x lab:x", "def:A:1 lab:A", "lab:A def:A:1 if:A db:1 else db:2 endif",
    "if:0 lab:x def:D:1 bad endif ifdef:x db:1 endif ifdef:D db:2 endif db:3", "if:1,+ db:1 endif", "if:( db:1 endif",
    "if:(,1 db:1 endif db:2", "if:N db:1 endif", "lab:a db:1 lab:b if:b,==,1 db:2 endif", "if:1 bad endif", "if:4294967295 db:1 endif",
    "if:1 if:1 if:1 db:1 endif endif endif db:2", "if:0 if:1 if:1 db:1 endif else endif db:3 else db:4 endif db:2",
]


def items_to_lines(items):
    lines = []
    for w in items:
        p = w.split(":")
        if p[0] == "db": lines.append(("stmt", ("db", int(p[1]))))
        elif p[0] == "lab": lines.append(("stmt", ("lab", p[1])))
        elif p[0] == "def": lines.append(("stmt", ("def", p[1], p[2])))
        elif p[0] == "bad": lines.append(("stmt", ("bad", ".bogus_directive 1")))
        elif p[0] == "if": lines.append(("if", ("cond", p[1].split(","))))
        elif p[0] in ("ifdef", "ifndef"): lines.append(("if", (p[0], p[1])))
        else: lines.append((p[0],))
    return lines


def cond_line(toks):
    return "cond %s %s" % (nvlib.hexs(ENV_TEXT), " ".join(toks))


def correspondence(ctx, corr):
    conds = gen_cond_cases(ctx)
    skips = gen_skip_cases(ctx)
    blocks = gen_block_cases(ctx, True, ctx.scale(4000, 25000))
    blk_lines = []
    for kind, lines in blocks:
        it = G.blk_items(lines)
        if it: blk_lines.append("blk " + " ".join(it))
    blk_lines += ["blk " + s for s in FIXED_BLOCKS]
    # get_operator / eval_operation called directly: every spelling x boundary operand pairs
    vals = [0, 1, -1, 2, 5, 7, 100, 2147483647, -2147483648, -2147483647, 65536, -65536]
    evops = ["evop %s %d %d" % (t, a, b) for t in G.OPS + ["=", "!=", "<<", ">>", "&", "|", "=>", "=<", "<>"]
             for a in vals for b in vals]
    evops += ["evop %s %d %d" % (rng_t, ctx.rng.randrange(-2**31, 2**31), ctx.rng.randrange(-2**31, 2**31))
              for rng_t in G.OPS for _ in range(ctx.scale(50, 1000))]
    lines = [cond_line(t) for _, t in conds] + ["skip " + " ".join(w) for w in skips] + blk_lines + evops
    cp = os.path.join(nvlib.VERIF, "corpus", ID, "lines.txt")
    corpus = []
    if os.path.exists(cp):
        corpus = [l.strip() for l in open(cp) if l.strip() and not l.startswith("#")]
    h, d = ctx.both(corpus + lines)
    ctx.notes["conds"], ctx.notes["cond_impl"] = conds, h[len(corpus):len(corpus) + len(conds)]
    corr["cases"] += len(corpus) + len(lines)
    kinds = {}
    for l, a, b in zip(corpus + lines, h, d):
        k = l.split(" ")[0] + ":" + (a.split(" ")[0] if not a.startswith("DIED") else "DIED")
        kinds[k] = kinds.get(k, 0) + 1
        if a != b:
            corr["disagreements"].append({"line": l, "impl": a, "model": b})
    corr["streams"]["cond"] = {"lines": len(conds), "by_kind": {k: sum(1 for c in conds if c[0] == k) for k in ("chain", "tree", "mut", "fixed")}}
    corr["streams"]["skip"] = {"lines": len(skips)}
    corr["streams"]["blk"] = {"lines": len(blk_lines), "well_formed": sum(1 for k, _ in blocks if k == "wf"),
                              "mutated": sum(1 for k, _ in blocks if k == "mut")}
    corr["streams"]["evop"] = {"lines": len(evops)}
    corr["streams"]["answer_kinds"] = kinds
    allv = corpus + lines
    corr["distinct_nontrivial"] = len(set(l for l in allv if l.count(" ") >= 6))
    corr["samples"] = [{"line": allv[i][:300], "impl": h[i][:200], "model": d[i][:200]} for i in range(0, len(allv), max(1, len(allv) // 6))][:6]


# ---------------------------------------------------------------------------
# oracle
# ---------------------------------------------------------------------------

def judge_cond(toks, ans):
    text = " ".join(toks)
    if not ans.startswith("r="):
        return ("C10:cond-crash:" + text, "a value or an error", "evaluator died: " + ans)
    r = int(ans.split(" ")[0][2:])
    e = ans.endswith("e=1")
    if any(t.isdigit() and int(t) > 0x7fffffff for t in toks) or any(t in UNJUDGED_NAMES for t in toks):
        return None
    try:
        tree = G.parse_tokens(toks)
    except G.Malformed as m:
        if m.kind == "defined-non-name":
            return None
        if not e:
            return ("C10:cond-accepts-malformed:%s:%s" % (m.kind, text), "error",
                    "malformed condition (%s) accepted with value %d" % (m.kind, r))
        return None
    v = G.tree_eval(tree, REF_ENV)
    if v is None:
        return None
    cls = cond_class(toks)
    if e:
        return ("C10:cond-rejects-valid:%s:%s" % (cls, text), str(v), "valid condition rejected")
    # the observable of a condition is its truth (non-zero); inner values are observed through
    # the comparisons of larger trees
    if (r != 0) != (v != 0):
        return ("C10:cond-value:%s:%s" % (cls, text), "truth of %d" % v, "got %d" % r)
    return None


cond_class = G.cond_class


def prog_class(lines, nodes, evaluated=None):
    cs = evaluated if evaluated is not None else [cond_class(l[1][1]) for l in lines if l[0] == "if" and l[1][0] == "cond"]
    if "le-ge" in cs: return "le-ge"
    if "double-not" in cs: return "double-not"
    if nodes is not None and G.has_else_under_then_with_else(nodes): return "else-under-then-with-else"
    return "other"


def judge_block(lines, p):
    """p = parsed `prog` answer; returns None or (sig, expected, what)"""
    src = G.source_of(lines)
    h = nvlib.sha(src.encode())[:8]
    if p.get("died"):
        return ("C10:block:crash:" + h, "exit 0 or 1", "assembler died: " + p["raw"][:200])
    try:
        nodes = G.reparse(lines)
    except G.Malformed as m:
        reason, _, at = m.kind.partition("@")
        if p["st"] == 0:
            leak, parent_active = G.leak_before(lines, int(at))
            if reason == "second-else" and not parent_active:
                return None      # inside a skipped region: not judged
            return ("C10:block:malformed-accepted:%s:%s:%s" % (reason, "leak" if leak else "clean", h), "st=1",
                    "malformed conditional structure (%s) accepted" % m.kind)
        if p["err"] < 1:
            return ("C10:block:malformed-silent:%s:%s" % (reason, h), "an error message", "st=1 without a message")
        return None
    st = G.RefState()
    G.ref_run(nodes, st)
    cls = prog_class(lines, nodes, st.classes)
    if st.unjudged:
        return None
    if st.error and st.error.startswith("malformed:"):
        if p["st"] == 0:
            return ("C10:block:cond-accepts-%s:%s" % (st.error, h), "st=1", "malformed condition accepted")
        return None
    if st.error == "condition without value":
        return None
    if st.error:
        if p["st"] == 0:
            return ("C10:block:selected-failure-accepted:%s:%s" % (cls, h), "st=1 (" + st.error + ")", "accepted")
        return None
    if p["st"] != 0:
        return ("C10:block:rejects-valid:%s:%s" % (cls, h), "st=0 image " + bytes(st.out).hex(), "rejected")
    got = bytes(p["image"].get(a, 0) for a in range(0, (max(p["image"]) + 1) if p["image"] else 0))
    if got != bytes(st.out) or sorted(p["image"]) != list(range(len(st.out))):
        return ("C10:block:wrong-selection:%s:%s" % (cls, h), "image " + bytes(st.out).hex(), "image " + got.hex())
    gsyms = sorted((n, a) for n, a, sc, ex in p["syms_list"])
    if gsyms != sorted(st.syms):
        return ("C10:block:wrong-symbols:%s:%s" % (cls, h), str(sorted(st.syms)), str(gsyms))
    return None


FIXED_SOURCES = [
    # (name, source, expected image hex or None for "must fail")
    ("minus-one-symbol", ".set X = -1\n.if X\n.db 1\n.endif\n.db 2\n", "0102"),
    ("minus-one-compare", ".set X = -1\n.if X < 0\n.db 1\n.endif\n.db 2\n", "0102"),
    ("if-in-repeat:taken", ".repeat 2\n.if 1\n.db 1\n.endif\n.endr\n.db 9\n", "010109"),
    ("if-in-repeat:untaken", ".repeat 2\n.if 0\n.db 1\n.endif\n.db 5\n.endr\n.db 9\n", "050509"),
    ("if-in-repeat:else", ".repeat 2\n.if 0\n.db 1\n.else\n.db 6\n.endif\n.endr\n.db 9\n", "060609"),
    ("repeat-in-if", ".if 1\n.repeat 2\n.db 1\n.endr\n.endif\n.db 9\n", "010109"),
    ("repeat-in-skipped", ".if 0\n.repeat 2\n.db 1\n.endr\n.endif\n.db 9\n", "09"),
    ("endr-closes-if", ".repeat 2\n.if 1\n.db 1\n.endr\n.endif\n", None),
    ("le-ge", ".if 1 <= 2 && 2 >= 2 && !(3 <= 2) && !(2 >= 3)\n.db 1\n.endif\n", "01"),
    ("double-not", ".if !!3 == 1 && !!!0\n.db 1\n.endif\n", "01"),
    ("unterminated-taken", ".if 1\n.db 1\n", None),
    ("unterminated-else", ".if 0\n.db 1\n.else\n.db 2\n", None),
    ("stray-endif-after-taken", ".if 1\n.db 1\n.endif\n.db 2\n.endif\n", None),
    ("stray-else-after-taken", ".if 1\n.db 1\n.endif\n.db 2\n.else\n.db 3\n.endif\n", None),
    ("second-else-nested", ".if 1\n.if 0\n.else\n.else\n.db 2\n.endif\n.endif\n", None),
    ("unclosed-paren", ".if (1\n.db 1\n.endif\n", None),
    ("junk-operand", ".if 1 == +\n.db 1\n.endif\n", None),
    ("nested-else", ".if 1\n.if 0\n.db 1\n.else\n.db 2\n.endif\n.db 3\n.else\n.db 4\n.endif\n.db 5\n", "020305"),
    ("endif-in-include-scope", ".if 1\n.repeat 2\n.endif\n.endr\n", None),
    ("docs-example", ".define SOMETHING 1\n.define BLAH 60\n.if defined(SOMETHING) && !defined(ANOTHER) && BLAH>50\n.db 1\n.else\n.db 2\n.endif\n", "01"),
    ("docs-example-2", ".define BLAH 50\n.if defined(SOMETHING) || BLAH>50\n.db 1\n.else\n.db 2\n.endif\n", "02"),
    ("hash-spelling", "#define X 3\n#if X == 3\n.db 1\n#else\n.db 2\n#endif\n#ifdef X\n.db 3\n#endif\n#ifndef X\n.db 4\n#endif\n", "0103"),
    ("comment-endif", ".if 0\n.db 1 ; .endif\n.db 2\n.endif\n.db 3\n", "03"),
    ("nospace", ".if (1==1)&&!(2<1)\n.db 1\n.endif\n", "01"),
    ("macro-in-untaken", ".if 0\n.macro m\n.db 7\n.endm\n.endif\n.ifdef m\n.db 1\n.endif\n.db 2\n", "02"),
    ("cond-inside-macro", ".macro m(a)\n.if a == 1\n.db 1\n.else\n.db 2\n.endif\n.endm\nm(1)\nm(2)\n.db 3\n", "010203"),
]


INCLUDE_CASES = [
    # (name, main source, a.inc, expected image hex or None = must fail); run through the real executable
    ("balanced-in-include", ".if 1\n.include \"a.inc\"\n.db 9\n.endif\n.db 8\n", ".if 0\n.db 1\n.else\n.db 2\n.endif\n.db 3\n", "02030908"),
    ("include-in-skipped", ".if 0\n.include \"a.inc\"\n.db 9\n.endif\n.db 8\n", ".db 1\n", "08"),
    ("include-in-else", ".if 0\n.db 7\n.else\n.include \"a.inc\"\n.endif\n.db 8\n", ".ifndef Q\n.db 1\n.endif\n", "0108"),
    ("unterminated-skipped-in-include", ".include \"a.inc\"\n.db 9\n", ".if 0\n.db 1\n", None),
    ("unterminated-taken-in-include", ".include \"a.inc\"\n.db 9\n", ".if 1\n.db 1\n", None),
    ("endif-in-include-closes-parent", ".if 1\n.include \"a.inc\"\n.db 9\n", ".db 1\n.endif\n", None),
    ("else-in-include", ".if 1\n.include \"a.inc\"\n.db 9\n.endif\n", ".db 1\n.else\n", None),
]


def oracle(ctx, orc, focus=None):
    stats = {"cond_judged": 0, "block_wf": 0, "block_malformed": 0, "fixed": 0}
    # conditions
    if "conds" in ctx.notes:
        conds, impl = ctx.notes["conds"], ctx.notes["cond_impl"]
    else:
        conds = gen_cond_cases(ctx)
        impl = ctx.impl([cond_line(t) for _, t in conds])
    for (kind, toks), ans in zip(conds, impl):
        orc["cases"] += 1
        stats["cond_judged"] += 1
        f = judge_cond(toks, ans)
        if f:
            orc["failures"].append({"sig": f[0], "input": " ".join(toks), "expected": f[1], "observed": ans, "what": f[2],
                                    "replay": {"kind": "cond", "toks": toks}})
    # block programs through the whole assembler (`prog`)
    blocks = gen_block_cases(ctx, False, ctx.scale(4000, 25000))
    blocks += [("fixed", items_to_lines(s.split())) for s in FIXED_BLOCKS]
    answers = ctx.impl([nvlib.prog_line(G.source_of(lines)) for _, lines in blocks])
    for (kind, lines), ans in zip(blocks, answers):
        orc["cases"] += 1
        p = nvlib.parse_prog(ans)
        try:
            G.reparse(lines); stats["block_wf"] += 1
        except G.Malformed:
            stats["block_malformed"] += 1
        f = judge_block(lines, p)
        if f:
            orc["failures"].append({"sig": f[0], "input": G.source_of(lines), "expected": f[1], "observed": ans[:300], "what": f[2],
                                    "replay": {"kind": "block", "lines": lines}})
    # fixed programs (interplay with .set, .repeat, macros, '#' spellings)
    answers = ctx.impl([nvlib.prog_line(src) for _, src, _ in FIXED_SOURCES])
    for (name, src, want), ans in zip(FIXED_SOURCES, answers):
        orc["cases"] += 1
        stats["fixed"] += 1
        f = judge_fixed(name, src, want, nvlib.parse_prog(ans))
        if f:
            orc["failures"].append({"sig": f[0], "input": src, "expected": f[1], "observed": ans[:300], "what": f[2],
                                    "replay": {"kind": "fixed", "name": name}})
    # conditionals and .include, through the real executable
    exe = ctx.repo["naken_asm"]
    tmp = ctx.tmpdir()
    for name, src, inc, want in INCLUDE_CASES:
        orc["cases"] += 1
        stats["fixed"] += 1
        r = nvlib.run_asm(exe, src, tmp, name="inc_" + name.replace("-", "_"), extra_files={"a.inc": inc})
        f = None
        if r["rc"] not in (0, 1):
            f = ("C10:include:crash:" + name, "exit 0 or 1", "exit %d %s" % (r["rc"], r["err"][-200:]))
        elif want is None:
            if r["rc"] == 0:
                f = ("C10:include:accepted:" + name, "exit 1", "malformed program accepted")
            elif r["errors"] < 1:
                f = ("C10:include:silent:" + name, "an error message", "exit 1 without a message")
        elif r["rc"] != 0 or r["data"] is None or r["data"].hex() != want:
            f = ("C10:include:image:" + name, "image " + want, "exit %d image %s" % (r["rc"], r["data"].hex() if r["data"] else None))
        if f:
            orc["failures"].append({"sig": f[0], "input": src + "--- a.inc ---\n" + inc, "expected": f[1], "observed": f[2], "what": f[2],
                                    "replay": {"kind": "include", "name": name}})
    orc["stats"] = stats
    orc["distinct_nontrivial"] = len(set(G.source_of(l) for _, l in blocks if sum(1 for x in l if x[0] != "stmt") >= 2))
    orc["samples"] = [{"source": G.source_of(blocks[i][1])[:300], "impl": answers_sample(ctx, blocks[i][1])}
                      for i in range(0, len(blocks), max(1, len(blocks) // 3))][:3]


def answers_sample(ctx, lines):
    return ctx.impl([nvlib.prog_line(G.source_of(lines))])[0][:200]


def judge_fixed(name, src, want, p):
    if p.get("died"):
        return ("C10:fixed:crash:" + name, "exit 0 or 1", p["raw"][:200])
    if want is None:
        if p["st"] == 0:
            return ("C10:fixed:accepted:" + name, "st=1", "malformed program accepted")
        return None
    got = bytes(p["image"].get(a, 0) for a in range(0, (max(p["image"]) + 1) if p["image"] else 0)).hex()
    if p["st"] != 0:
        return ("C10:fixed:rejected:" + name, "image " + want, "valid program rejected (err=%d)" % p["err"])
    if got != want:
        return ("C10:fixed:image:" + name, "image " + want, "image " + got)
    return None


def replay(ctx, rec):
    f = rec.get("failure") or {}
    r = f.get("replay")
    if not r:
        return {"fails": False, "note": "no replay data recorded", "record": rec}
    if r["kind"] == "cond":
        ans = ctx.impl([cond_line(r["toks"])])[0]
        j = judge_cond(r["toks"], ans)
    elif r["kind"] == "block":
        lines = [tuple(tuple(x) if isinstance(x, list) else x for x in l) for l in r["lines"]]
        lines = json_lines(r["lines"])
        ans = ctx.impl([nvlib.prog_line(G.source_of(lines))])[0]
        j = judge_block(lines, nvlib.parse_prog(ans))
    elif r["kind"] == "include":
        name, src, inc, want = [x for x in INCLUDE_CASES if x[0] == r["name"]][0]
        rr = nvlib.run_asm(ctx.repo["naken_asm"], src, ctx.tmpdir(), name="replay_inc", extra_files={"a.inc": inc})
        ok = (rr["rc"] == 1 and rr["errors"] >= 1) if want is None else (rr["rc"] == 0 and rr["data"] is not None and rr["data"].hex() == want)
        return {"fails": not ok, "rc": rr["rc"], "image": rr["data"].hex() if rr["data"] else None}
    else:
        name, src, want = [x for x in FIXED_SOURCES if x[0] == r["name"]][0]
        ans = ctx.impl([nvlib.prog_line(src)])[0]
        j = judge_fixed(name, src, want, nvlib.parse_prog(ans))
    return {"fails": j is not None, "impl": ans[:400], "verdict": j}


def json_lines(ls):
    """undo JSON's tuple -> list conversion of block lines"""
    def tup(x):
        return tuple(tup(y) for y in x) if isinstance(x, list) else x
    out = []
    for l in ls:
        l = tup(l)
        if l[0] == "if" and l[1][0] == "cond":
            l = ("if", ("cond", list(l[1][1])))
        out.append(l)
    return out
