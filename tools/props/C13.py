"""C13 — assembly is a deterministic function of the source alone."""
import os, re, subprocess, shutil
from concurrent.futures import ThreadPoolExecutor
import nvlib, gen_det as G, gen_data, gen_src, gen_prog
import fileio_spec as S

ID = "C13"
LEAN_MODULES = ["NakenVerif.Props.C13"]
P = "NakenVerif.Determinism."
THEOREMS = [P + n for n in [
    "image_indep_of_reporting", "option_independent", "listing_leaves_assembly_alone",
    "listing_writes_only_the_list_file", "pass_start_depends_only_on_kept", "init_matches_code",
    "construct_matches_code", "initBefore_differs_from_code", "initK_overwrites",
    "pass_image_frame_partial", "pass_image_overlay_partial", "no_leftover_image_eq_partial",
    "include_depth_restored", "mainRun_depth", "history_irrelevant", "history_independent",
    "init_resets_byte_order", "initBefore_leaks_byte_order", "init_resets_segment",
    "pass1_leftover_counterexample", "exec_sim"]]
RULE = ("programs: (a) the modelled statement language, grammar directed, classes forced (statements in front of the "
        "first .<cpu>, no .<cpu>, CPU switch, .bss / byte-order switch after data, forward references, conditionals on "
        "names defined later / earlier / never, .repeat, nested .include, .list); (b) base programs of every CPU of the "
        "statement corpus with define/macro/if/repeat/equ features; (c) two-pass programs (gen_prog.gen_twopass) with "
        "forward references of small and large value; (d) literal-byte programs: every byte value that is legal inside a "
        "string / character constant (0x01..0xff without newline, closing quote, backslash) in .db/.ascii/.asciiz/.dw/"
        "instruction operands/.define and .macro bodies/macro arguments/equ, raw bytes in comments, tab separators, CRLF.  "
        "Each program x in-process configurations {-, -l, not -q, "
        "-dump_symbols, -dump_macros, all, dirty context 00/ff/a5, prior unrelated assembly, repeated} x 2 heap fill "
        "bytes; a subset x process-level option matrix {8 output types} x {-l, -q, -dump_symbols, -dump_macros, all} x "
        "output names; naken_util sessions (writes and asm blocks at the same / overlapping origins, then a block whose "
        "encoding holds 0x00 bytes, 10 CPUs) against a fresh process; non-trivial = at least 4 statements; distinct = distinct source text")
MODELLED = ("AsmContext::AsmContext(), AsmContext::init(), the pass switch and tail of main() (naken_asm.cpp), the "
            "statement loop for labels, .<cpu>, .big_endian/.little_endian, .bss/.code, .org, .db, .dw, .dc32, .resb, "
            ".define, .list, .ifdef/.ifndef/.else, .repeat (copy loop), .include (static depth, write_list_file), the "
            "MSP430 'mov.w #x, rN' with its pass-1 flag byte and constant generator, add_bin8/16, Memory::write "
            "(byte, mark, low/high), Symbols::append (locked / unlocked), the listing hooks (reader echo, list_output, "
            ".list, print_info, data-section dump) as writers of the list file only")
NOT_MODELLED = ("PARTIAL: uninitialised memory, heap reuse, static state are runtime facts — checked only by the "
                "streams (dirty placement-new context, two heap fill bytes, prior assemblies in the same process, "
                "valgrind sample in the thorough tier); the 66 other instruction parsers, .macro bodies, .set/equ, "
                ".scope, expressions, the file writers (C03) are exercised by the streams, not modelled; "
                "tokens.line is approximated (one per statement); pass_image_* theorems exclude .repeat")
ASSUMPTIONS = ["addresses stay below 2^32 in generated programs (the model wraps like the C code, the generators do not go there)",
               "the statement language of the model renders to the source text by tools/gen_det.py (checked by the model stream)"]
TRUSTED_BASE = ["harness/cmd_det.h (mirrors main() by hand), harness/nv_dump_det.cpp (probe of constructor/init())",
                "tools/fileio_spec.py decoders (shared with C03)"]

TYPES = ["hex", "bin", "srec", "elf", "wdc", "uf2", "amiga", "macho"]
EXT = {"hex": "hex", "bin": "bin", "srec": "srec", "elf": "elf", "wdc": "wdc", "uf2": "uf2", "amiga": "amiga", "macho": "macho"}
FILLER = {"bin", "elf", "uf2", "amiga", "macho"}
CORE = ["st", "err", "low", "high", "entry", "bpa", "end", "ic", "img", "dbg", "syms", "cnt"]

def load_corpus():
    """corpus/C13/lines.txt: <name> <substring the answer must contain> <protocol line>"""
    out = []
    path = os.path.join(nvlib.VERIF, "corpus", "C13", "lines.txt")
    if os.path.exists(path):
        for l in open(path):
            if l.strip() and not l.startswith("#"):
                name, want, line = l.rstrip("\n").split(" ", 2)
                out.append((name, want, line))
    return out


def hx(s):
    b = s if isinstance(s, bytes) else s.encode("latin-1")
    return b.hex() or "-"


def fields(a):
    return dict(f.split("=", 1) for f in a.split(" ") if "=" in f)


def core_of(a):
    d = fields(a)
    if "st" not in d:
        return a
    return " ".join("%s=%s" % (k, d.get(k, "?")) for k in CORE)


def model_view(a, from_harness):
    """comparable projection of a harness / driver answer"""
    d = fields(a)
    if "st" not in d:
        return a
    if d["st"] != "0":
        return "st=1"
    syms = d.get("syms", "-")
    if from_harness:
        syms = ",".join(re.sub(r"@\d+!?$", "", s) for s in syms.split(","))
    return " ".join(["st=0"] + ["%s=%s" % (k, d[k]) for k in ("low", "high", "bpa", "end", "ic", "cnt", "img", "dbg")] + ["syms=" + syms])


def cells_of(img):
    out = {}
    if img in ("-", None):
        return out
    for run in img.split(";"):
        a, _, h = run.partition(":")
        a = int(a, 16)
        for i in range(0, len(h), 2):
            out[a + i // 2] = int(h[i:i + 2], 16)
    return out


def ranges_of(left):
    out = set()
    if left in ("-", None, ""):
        return out
    for r in left.split(";"):
        a, _, n = r.partition("+")
        for i in range(int(n)):
            out.add(int(a, 16) + i)
    return out


def model_cpus(ctx):
    cpus = gen_data.load_cpus(nvlib.VERIF)
    names = ("z80", "68000", "avr8", "6502", "1802", "mips", "riscv", "8051", "tms9900", "pic14")
    return [(i, c["name"], c["big"], c["bpa"], c["p1wd"]) for i, c in enumerate(cpus) if c["name"] in names]


def prog_line(flags, fill, src, prior="", files=()):
    extra = "".join(" %s %s" % (hx(n), hx(c)) for n, c in files)
    return "prog13 %s %02x %s %s%s" % (flags or "-", fill, hx(src), hx(prior) if prior else "-", extra)


# ------------------------------------------------------------------------------------------------ correspondence

def correspondence(ctx, corr):
    g = G.Gen(ctx.rng, model_cpus(ctx))
    n = ctx.scale(400, 4000)
    progs = [g.program() for _ in range(n)]
    hl, dl, meta = [], [], []
    variants = [("-", "q"), ("lvsm", "lsm"), ("l", "lq"), ("vs", "s")]
    for i, (p, klass) in enumerate(progs):
        src, files = G.source(p)
        wire = " ".join(G.wire(p))
        for hf, mf in (variants if i % 4 == 0 else variants[:1]):
            hl.append(prog_line(hf if hf != "-" else "", 0, src, files=files))
            dl.append("det %s %s" % (mf, wire))
            meta.append((klass, src, hf))
    ha = ctx.impl(hl)
    da = ctx.model(dl)
    ok_status = 0
    for (klass, src, hf), l1, l2, a, b in zip(meta, hl, dl, ha, da):
        corr["cases"] += 1
        x, y = model_view(a, True), model_view(b, False)
        if x.startswith("st=0"):
            ok_status += 1
        lst_h, lst_m = fields(a).get("lst", "?") != "-", fields(b).get("lst", "?") != "-"
        if x != y or (x.startswith("st=") and lst_h != lst_m):
            corr["disagreements"].append({"line": l2, "impl": x + " lst=%s" % lst_h, "model": y + " lst=%s" % lst_m,
                                          "source": src, "class": klass})
    ctx.notes["model_progs"] = progs
    corr["streams"]["model"] = {"programs": n, "lines": len(hl), "assembled_ok": ok_status, "distribution": dict(sorted(g.stats.items()))}
    corr["distinct_nontrivial"] = len(set(m[1] for m in meta if m[1].count("\n") >= 4))
    corr["samples"] = [{"class": meta[i][0], "flags": meta[i][2], "impl": model_view(ha[i], True)[:160]}
                       for i in range(0, len(meta), max(1, len(meta) // 4))][:4]


# ------------------------------------------------------------------------------------------------ oracle

def gather_programs(ctx):
    """[(label, source, files, classes)]"""
    rng = ctx.rng
    # the witness of the known finding (pass-1 leftover) and its flag variant are always there
    out = [("forced:leftover", ".msp430\n.ifndef later\n  .db 0xaa, 0xbb, 0xcc\n.endif\n.org 0x10\nlater:\n  .db 1\n", [], {"forced"}),
           ("forced:leftover-flag", ".msp430\n.ifdef later\n  mov.w #0, r15\n.else\n  .db 1, 0\n.endif\n.org 0x10\nlater:\n  .db 1\n", [], {"forced"})]
    progs = ctx.notes.get("model_progs")
    if progs is None:
        g = G.Gen(rng, model_cpus(ctx))
        progs = [g.program() for _ in range(ctx.scale(400, 4000))]
    for p, klass in progs[:ctx.scale(150, 1200)]:
        src, files = G.source(p)
        classes = {klass}
        if G.has(p, "repeat"): classes.add("repeat")
        if G.has(p, "ifdef"): classes.add("ifdef")
        out.append(("model:" + klass, src, files, classes))
    cpus = gen_src.cpus()
    for i in range(ctx.scale(len(cpus), 4 * len(cpus))):
        cpu = cpus[i % len(cpus)]
        lines = gen_src.base_program(rng, cpu)
        if rng.random() < 0.5:
            # conditional on a label defined further down: the passes take different branches
            k = rng.randrange(2, len(lines) - 1)
            lines[k:k] = rng.choice([[".ifdef endlab", "  .db 0x61", ".else", "  .db 0x62, 0x63", ".endif"],
                                     [".ifndef endlab", "  .db 0x64, 0x65", ".endif"],
                                     [".scope", "inner:", "  .db 0x66", ".ends"],
                                     ["  .resb 3", "  .db 0x67"]])
            cls = {"base", "base:conditional-forward" if "endlab" in lines[k] else "base:extra"}
        else:
            cls = {"base"}
        out.append(("base:" + cpu, "\n".join(lines) + "\n", [], cls))
    for cpu in sorted(gen_prog.FORMS):
        for _ in range(ctx.scale(1, 6)):
            src, _info = gen_prog.gen_twopass(rng, cpu, rng.randrange(4, 10))
            out.append(("twopass:" + cpu, src, [], {"twopass"}))
    # raw bytes of every class inside literals / comments / separators (the reporting paths see the character stream)
    for label, src in G.literal_fixed():
        out.append((label, src, [], {"literal"}))
    lg = G.LitGen(rng)
    for _ in range(ctx.scale(25, 250)):
        label, src = lg.program()
        out.append((label, src, [], {"literal"}))
    ctx.notes["literal_stats"] = dict(sorted(lg.stats.items()))
    return out


def inline_includes(src, files, depth=0):
    """the statements in the order the assembler reads them"""
    table = dict(files)
    out = []
    for l in src.split("\n"):
        m = re.match(r'\s*\.include\s+"([^"]+)"', l)
        if m and m.group(1) in table and depth < 8:
            out.append(inline_includes(table[m.group(1)], files, depth + 1))
        else:
            out.append(l)
    return "\n".join(out)


def has_forward_conditional(src, files=()):
    """a conditional whose name is defined as a label further down: the two passes take different branches"""
    lines = inline_includes(src, files).split("\n")
    for i, l in enumerate(lines):
        m = re.match(r"\s*\.(ifdef|ifndef)\s+(\w+)", l)
        if m and any(re.match(r"\s*%s:" % re.escape(m.group(2)), x) for x in lines[i:]):
            return True
    return False


def inproc_stream(ctx, orc, progs, stats):
    flagsets = [("", 0), ("l", 0), ("v", 0), ("vs", 0), ("vm", 0), ("lvsm", 0), ("d", 0x00), ("d", 0xff), ("dl", 0xa5),
                ("p", 0), ("pd", 0x5a), ("", 0), ("t", 0), ("x", 0x01), ("x", 0xfe)]
    lines, index = [], []
    for pi, (label, src, files, classes) in enumerate(progs):
        prior = progs[pi - 1][1] if pi else ".z80\n.big_endian\n.dw 5\n"
        prior_files = progs[pi - 1][2] if pi else []
        for fi, (fl, fill) in enumerate(flagsets):
            if "p" in fl and (files or prior_files):
                continue                      # include file names would clash
            lines.append(prog_line(fl, fill, src, prior if "p" in fl else "", files))
            index.append((pi, fi))
    env_a = dict(nvlib.SAN_ENV); env_a["ASAN_OPTIONS"] += ":malloc_fill_byte=0:max_malloc_fill_size=100000000"
    env_b = dict(nvlib.SAN_ENV); env_b["ASAN_OPTIONS"] += ":malloc_fill_byte=255:max_malloc_fill_size=100000000"
    with ThreadPoolExecutor(2) as ex:
        fa = ex.submit(nvlib.run_lines, ctx.harness, lines, env_a)
        fb = ex.submit(nvlib.run_lines, ctx.harness, lines, env_b)
        ans_a, ans_b = fa.result(), fb.result()
    by_prog = {}
    for (pi, fi), a, b, l in zip(index, ans_a, ans_b, lines):
        by_prog.setdefault(pi, []).append((fi, a, b, l))
    for pi, rows in sorted(by_prog.items()):
        label, src, files, classes = progs[pi]
        orc["cases"] += len(rows)

        def fail(kind, expected, observed, line):
            orc["failures"].append({"sig": "C13:%s:%s" % (kind, nvlib.sha(src.encode("latin-1"))[:10]), "input": src,
                                    "expected": expected, "observed": observed, "what": kind + " (" + label + ")",
                                    "line": line})
        base = rows[0][1]
        if base.startswith("DIED") or "st=" not in base:
            fail("crash", "an answer", base[:300], rows[0][3])
            continue
        bd = fields(base)
        stats["assembled_ok" if bd["st"] == "0" else "rejected"] = stats.get("assembled_ok" if bd["st"] == "0" else "rejected", 0) + 1
        if "literal" in classes:
            k = "literal_ok" if bd["st"] == "0" else "literal_rejected"
            stats[k] = stats.get(k, 0) + 1
            if bd["st"] != "0":
                stats.setdefault("literal_rejected_labels", []).append(label)
        left = set()
        base_cells = cells_of(bd.get("img"))
        for fi, a, b, l in rows:
            fl, fill = flagsets[fi]
            if a != b:
                fail("heap-garbage", "the same answer for heap fill bytes 0x00 and 0xff", "differs: %s | %s" % (core_of(a)[:200], core_of(b)[:200]), l)
                continue
            if a.startswith("DIED") or "st=" not in a:
                fail("crash:" + (fl or "-"), "an answer", a[:300], l)
                continue
            d = fields(a)
            if "x" in fl:
                continue
            if core_of(a) != core_of(base):
                # every line runs in one harness process after the lines before it: a difference from the first run of
                # the program is due to the configuration of this line or to what earlier assemblies left in the process
                kind = "history" if "p" in fl or (fl == "" and fi > 0) else "dirty-context" if "d" in fl else \
                    "tracking" if "t" in fl else "reporting-option-or-history"
                if kind == "tracking":
                    stats["tracking_perturbed"] = stats.get("tracking_perturbed", 0) + 1
                    continue
                fail("%s:%s" % (kind, fl or "repeat"), core_of(base)[:300], core_of(a)[:300], l)
            elif fl in ("", "d", "p", "pd") and d.get("out") != bd.get("out"):
                fail("stdout-differs:%s" % (fl or "repeat"), "the same text printed", "differs", l)
            if "t" in fl and d.get("st") == "0":
                left = ranges_of(d.get("left"))
        if left and bd["st"] == "0":
            stats["leftover_programs"] = stats.get("leftover_programs", 0) + 1
            in_image = sorted(a for a in left if a in base_cells)
            cause = "conditional-on-forward-name" if has_forward_conditional(src, files) else "other"
            orc["failures"].append({
                "sig": "C13:pass1-leftover:%s%s" % (cause, "" if cause != "other" else ":" + nvlib.sha(src.encode("latin-1"))[:10]),
                "input": src, "expected": "no byte in the image that pass 2 did not assemble",
                "observed": "cells written in pass 1 only: " + ",".join("%x" % a for a in in_image[:8]),
                "what": "bytes assembled only in pass 1 stay in the image (%s)" % label,
                "files": files, "line": [l for fi, a, b, l in rows if "t" in flagsets[fi][0]][0]})
        # scrub: pass 2 must not read data / code bytes of pass 1
        for fi, a, b, l in rows:
            fl, fill = flagsets[fi]
            if "x" not in fl or a != b or "st=" not in a:
                continue
            d = fields(a)
            if bd["st"] != "0":
                continue
            same = d["st"] == bd["st"] and all(d.get(k) == bd.get(k) for k in ("low", "high", "bpa", "end", "syms", "dbg"))
            if same:
                c2 = cells_of(d.get("img"))
                diff = [x for x in set(c2) | set(base_cells) if c2.get(x) != base_cells.get(x) and x not in left]
                same = not diff
            if not same:
                cpu = re.match(r"\s*\.(\w+)", src)
                cause = "conditional-on-forward-name" if has_forward_conditional(src, files) else \
                    "%s:%s:%s" % (label.split(":")[0], cpu.group(1) if cpu else "none", nvlib.sha(src.encode("latin-1"))[:10])
                orc["failures"].append({
                    "sig": "C13:pass2-reads-pass1-bytes:" + cause,
                    "input": src, "expected": core_of(base)[:300], "observed": core_of(a)[:300],
                    "what": "the image changes when the data bytes pass 1 left are replaced by 0x%02x before pass 2" % fill,
                    "line": l})
                break
    stats["inproc_lines"] = len(lines) * 2


def dense_view(fmt, data, low, high):
    if fmt == "hex":
        dec, _ = S.decode_ihex(data)
    elif fmt == "srec":
        dec, _ = S.decode_srec(data)
    elif fmt == "bin":
        dec, _ = S.decode_bin(data, low)
    elif fmt == "wdc":
        dec, _ = S.decode_wdc(data)
    elif fmt == "uf2":
        dec, _ = S.decode_uf2(data)
    elif fmt == "elf":
        dec, _ = S.decode_elf(data)
    elif fmt == "amiga":
        dec, _ = S.decode_amiga(data)
        dec = [(a + low, v) for a, v in dec]
    else:
        dec, _ = S.decode_macho(data)
        dec = [(a + low, v) for a, v in dec]
    got = {}
    for a, v in dec:
        if low <= a <= high:
            got[a] = v
    return got


def norm_file(fmt, data):
    if fmt == "srec" and data is not None:
        return b"\n".join(l for l in data.split(b"\n") if not l.startswith(b"S0"))
    return data


ODD_NAMES = ["o", "out", "a b.out", "x.y.z", "-dash.bin", "UPPER.HEX", "n" * 200 + ".o", "sub.dir/out.file", "üñï.out", "out."]


def run_config(exe, d, srcname, args, outname):
    outp = os.path.join(d, outname)
    os.makedirs(os.path.dirname(outp), exist_ok=True)
    for f in (outp,):
        if os.path.exists(f):
            os.unlink(f)
    try:
        r = subprocess.run([exe] + args + ["-o", outp, srcname], stdout=subprocess.PIPE, stderr=subprocess.PIPE,
                           env=nvlib.SAN_ENV, timeout=60, cwd=d)
        rc, so, se = r.returncode, r.stdout.decode("latin-1"), r.stderr.decode("latin-1")
    except subprocess.TimeoutExpired:
        rc, so, se = -999, "", "timeout"
    data = open(outp, "rb").read() if os.path.isfile(outp) else None
    return {"rc": rc, "out": so, "err": se, "data": data}


def process_stream(ctx, orc, progs, stats):
    exe = ctx.repo["naken_asm"]
    tmp = ctx.tmpdir()
    rng = ctx.rng
    pick = [p for p in progs if not p[2]]
    rng.shuffle(pick)
    # always: sources without a .<cpu> directive (file_write used to index cpu_list[-1]) and a forward conditional
    forced = [("forced:no-cpu", ".org 0x20\n  .db 1, 2, 3\nlab:\n  mov.w #lab, r5\n", [], {"no-cpu"}),
              ("forced:leftover", ".msp430\n.ifndef later\n  .db 0xaa, 0xbb\n.endif\n.org 0x10\nlater:\n  .db 1\n", [], {"x"}),
              # 64 KiB pages touched in another order than their addresses (the page list is in order of first touch;
              # a writer that walks it must not assume ascending addresses)
              ("forced:pages-descending", ".msp430\n.org 0x12000\n  .db 0x11, 0x22, 0x33\n.org 0x0100\nstart:\n  mov.w #start, r5\n  .db 1, 2, 3\n", [], {"x"}),
              ("forced:pages-middle-first", ".z80\n.org 0x18000\n  .db 0x55, 0x66\n.org 0x29000\n  .db 0x77\n.org 0x0040\n  .db 9, 8, 7, 6\n.org 0x10010\n  .db 0xaa\n", [], {"x"}),
              ("forced:pages-descending-code", ".68000\n.org 0x30000\nhigh:\n  moveq #1, d0\n  rts\n.org 0x1000\n  bsr low\nlow:\n  rts\n  .dc32 high\n", [], {"x"})]
    pick = forced + pick[:ctx.scale(22, 160)]      # the forced programs run in every tier
    ref_lines = [prog_line("", 0, src) for _, src, _, _ in pick]
    refs = ctx.impl(ref_lines)
    jobs = []
    for pi, ((label, src, files, classes), ref) in enumerate(zip(pick, refs)):
        d = os.path.join(tmp, "m%d" % pi)
        os.makedirs(d, exist_ok=True)
        open(os.path.join(d, "p.asm"), "wb").write(src.encode("latin-1"))
        rd = fields(ref) if "st=" in ref else None
        cfgs = []
        for t in TYPES:
            cfgs.append((t, ["-type", t], "o/out." + EXT[t]))
        t0 = TYPES[pi % len(TYPES)]
        for extra in (["-l"], ["-q"], ["-dump_symbols"], ["-dump_macros"], ["-l", "-q", "-dump_symbols", "-dump_macros"],
                      ["-q", "-l"]):
            cfgs.append((t0, ["-type", t0] + extra, "r%d/out.%s" % (len(cfgs), EXT[t0])))
        cfgs.append((t0, ["-type", t0], "again/out." + EXT[t0]))
        for k in range(3):
            cfgs.append((t0, ["-type", t0], "n%d/%s" % (k, rng.choice(ODD_NAMES))))
        if pi % 5 == 0:
            cfgs.append((t0, ["-type", t0, "-l"], "long/" + "/".join(["d" * 200] * 4) + "/" + "f" * 150 + ".out"))
        for c in cfgs:
            jobs.append((pi, c, d))
    with ThreadPoolExecutor(nvlib.NPROC) as ex:
        results = list(ex.map(lambda j: run_config(exe, j[2], "p.asm", j[1][1], j[1][2]), jobs))
    by_prog = {}
    for (pi, c, d), r in zip(jobs, results):
        by_prog.setdefault(pi, []).append((c, r))
    for pi, rows in sorted(by_prog.items()):
        label, src, files, classes = pick[pi]
        ref = refs[pi]
        rd = fields(ref) if "st=" in ref else None
        orc["cases"] += len(rows)
        stats["process_runs"] = stats.get("process_runs", 0) + len(rows)

        def fail(kind, expected, observed):
            orc["failures"].append({"sig": "C13:proc:%s:%s" % (kind, nvlib.sha(src.encode("latin-1"))[:10]), "input": src,
                                    "expected": expected, "observed": observed, "what": kind + " (" + label + ")"})
        if rd is None:
            fail("reference-crash", "an answer from the in-process reference", ref[:200])
            continue
        want_rc = 0 if rd["st"] == "0" else 1
        low, high = int(rd["low"], 16), int(rd["high"], 16)
        ref_cells = cells_of(rd.get("img"))
        files_by_type = {}
        for (t, args, outname), r in rows:
            tag = "%s %s" % (" ".join(args), outname[:30])
            if r["rc"] == 1 and "Output file name is too long" in r["out"] and "-l" in args:
                stats["name_too_long_for_listing"] = stats.get("name_too_long_for_listing", 0) + 1
                continue          # documented limit of the listing file name (1024 characters)
            if r["rc"] not in (0, 1):
                fail("abnormal-exit:" + " ".join(a for a in args if a.startswith("-") or a in TYPES), "exit 0 or 1",
                     "rc=%d %s" % (r["rc"], r["err"][-400:].replace("\n", " ")))
                continue
            if r["rc"] != want_rc:
                fail("status-depends-on-configuration", "exit %d as without options" % want_rc, "exit %d with %s" % (r["rc"], tag))
                continue
            if want_rc != 0:
                continue
            if r["data"] is None:
                fail("no-output-file", "an output file", "none with " + tag)
                continue
            files_by_type.setdefault(t, []).append((tag, norm_file(t, r["data"]), r["data"]))
        for t, lst in files_by_type.items():
            first = lst[0]
            for tag, nd, raw in lst[1:]:
                if nd != first[1]:
                    fail("file-differs:%s" % t, "byte-identical %s file for every reporting option / output name / repetition" % t,
                         "'%s' vs '%s'" % (first[0], tag))
                    break
            if high < low or high - low > (1 << 22) or (t == "wdc" and high >= (1 << 24)):
                continue
            try:
                view = dense_view(t, first[2], low, high)
            except S.FormatError as e:
                stats["undecodable"] = stats.get("undecodable", 0) + 1     # C03's business
                continue
            except Exception as e:
                stats["undecodable"] = stats.get("undecodable", 0) + 1
                continue
            bad = []
            for a in range(low, high + 1):
                want = ref_cells.get(a)
                got = view.get(a)
                if want is not None:
                    if got != want:
                        bad.append((a, want, got))
                elif got not in (None, 0) or (t not in FILLER and got is not None):
                    bad.append((a, None, got))
            if bad:
                a, w, g_ = bad[0]
                fail("image-depends-on-type:%s" % t, "the image of the in-process assembly (%d cells)" % len(ref_cells),
                     "at %x: want %s got %s (%d cells differ)" % (a, w, g_, len(bad)))
        shutil.rmtree(os.path.join(tmp, "m%d" % pi), ignore_errors=True)


def util_stream(ctx, orc, stats):
    """the interactive `asm` of naken_util: an assembly after other assemblies = the same assembly in a fresh process"""
    util = ctx.repo["naken_util"]
    rng = ctx.rng
    st = gen_src.statements("msp430")
    for i in range(ctx.scale(6, 40)):
        code = [rng.choice(st) for _ in range(rng.randrange(1, 5))]
        other = [rng.choice(st) for _ in range(rng.randrange(1, 5))]
        body = "\n".join(code) + "\n\n"
        fresh = "asm 0x200\n" + body + "print 0x200-0x23f\nquit\n"
        hist = "asm 0x800\n" + "\n".join(other) + "\n\n" + "asm 0x900\n" + body + "asm 0x200\n" + body + "print 0x200-0x23f\nquit\n"
        a = nvlib.run_util(util, ["-msp430"], fresh)
        b = nvlib.run_util(util, ["-msp430"], hist)
        orc["cases"] += 2
        stats["util_histories"] = stats.get("util_histories", 0) + 1
        pa = [l for l in a["out"].split("\n") if re.search(r"0x02[0-3][0-9a-f]:", l)]
        pb = [l for l in b["out"].split("\n") if re.search(r"0x02[0-3][0-9a-f]:", l)]
        if a["rc"] != 0 or b["rc"] != 0 or pa != pb:
            orc["failures"].append({"sig": "C13:util-history:%s" % nvlib.sha(body.encode())[:10], "input": hist,
                                    "expected": "\n".join(pa)[:300], "observed": "rc=%d/%d " % (a["rc"], b["rc"]) + "\n".join(pb)[:300],
                                    "what": "naken_util asm after earlier assemblies differs from the first assembly"})
    # the in-process mirror of assemble_code(), twice and after another one
    lines = []
    for i in range(ctx.scale(10, 80)):
        code = "\n".join(rng.choice(st) for _ in range(rng.randrange(1, 6))) + "\n"
        other = "\n".join(rng.choice(st) for _ in range(rng.randrange(1, 6))) + "\n"
        lines += ["util13 msp430 200 " + hx(code), "util13 msp430 800 " + hx(other), "util13 msp430 200 " + hx(code)]
    ans = ctx.impl(lines)
    for i in range(0, len(ans), 3):
        orc["cases"] += 3
        if ans[i] != ans[i + 2]:
            orc["failures"].append({"sig": "C13:util13-history:%s" % nvlib.sha(lines[i].encode())[:10], "input": lines[i],
                                    "expected": ans[i][:300], "observed": ans[i + 2][:300], "what": "assemble_code() twice differs"})


# ---- naken_util: what an `asm` block leaves in the session image is independent of the session's history ----------

UTIL_CPUS = [("msp430", 2), ("6502", 1), ("z80", 1), ("68000", 2), ("mips", 4), ("arm", 4), ("riscv", 4), ("stm8", 1),
             ("6809", 1), ("6800", 1)]
ZERO_DATA = [".db 0x00, 0x5a, 0x00", ".db 0", ".dw 0", ".dc32 0x00120000", ".dc32 0", ".db 0x00, 0x00, 0x00, 0x01"]
SOLID_DATA = [".db 0xff, 0xee, 0xdd, 0xcc", ".dc32 0xdeadbeef", ".dw 0xa55a", ".db 0x81, 0x7e, 0x11, 0x22, 0x33, 0x44, 0x55, 0x66"]
ROW13 = re.compile(r"0x([0-9a-f]{4,8}):((?: [0-9a-f]{2}){1,16})")


def util_classify(ctx, stats):
    """table directed: every statement of the statement corpus of a CPU is assembled alone (in-process mirror of
    assemble_code()); 'zero' = its encoding holds a 0x00 byte, 'solid' = it holds none"""
    lines, index = [], []
    for cpu, _ in UTIL_CPUS:
        for stmt in sorted(set(gen_src.statements(cpu))) + ZERO_DATA + SOLID_DATA:
            lines.append("util13 %s 1000 %s" % (cpu, hx(stmt + "\n")))
            index.append((cpu, stmt))
    table = {cpu: {"zero": [], "solid": []} for cpu, _ in UTIL_CPUS}
    for (cpu, stmt), a in zip(index, ctx.impl(lines)):
        d = fields(a)
        if d.get("st") != "0" or d.get("img", "-") == "-":
            continue
        cells = cells_of(d["img"])
        n = int(d["org"], 16) - 0x1000
        if n <= 0 or sorted(cells) != list(range(0x1000, 0x1000 + n)):
            continue
        table[cpu]["zero" if 0 in cells.values() else "solid"].append(stmt)
    stats["util_statement_classes"] = {cpu: "%d zero / %d solid" % (len(t["zero"]), len(t["solid"])) for cpu, t in table.items()}
    return table


def util_script(steps):
    out = []
    for st in steps:
        if st[0] == "asm":
            out.append("asm" if st[1] is None else "asm 0x%x" % st[1])
            out += list(st[2])
            out.append("")
        else:
            out.append(st[1])
    return out


def util_cases(ctx, table):
    """[(cpu, origin, block, history steps)]; a history step is ('asm', origin | None, statements) or ('cmd', text)"""
    rng = ctx.rng
    cases = []
    # the seeded shape and its neighbours, always
    cases.append(("msp430", 0x100, ["mov.w #0x1200, r5", "mov.w #0x0034, r6"], [("asm", 0x100, ["mov.w #0xabcd, r5", "mov.w #0xef01, r6"])]))
    cases.append(("msp430", 0x100, ["mov.w #0x1200, r5"], [("cmd", "write 0x100 0x11 0x22 0x33 0x44 0x55 0x66")]))
    cases.append(("msp430", 0x102, ["mov.w #0x0034, r6", ".db 0, 0"], [("asm", 0x100, ["mov.w #0xabcd, r5", "mov.w #0xef01, r6", "mov.w #0x7777, r7"])]))
    for cpu, align in UTIL_CPUS:
        t = table[cpu]
        if not t["zero"]:
            continue
        nfix = 1
        for k in range(nfix + ctx.scale(2, 20)):
            origin = rng.choice([0x100, 0x200, 0x1000, 0xfff0, 0x20000, 0x1fff8])
            block = [rng.choice(t["zero"]) for _ in range(rng.randrange(1, 4))]
            if rng.random() < 0.3 and t["solid"]:
                block.insert(rng.randrange(len(block) + 1), rng.choice(t["solid"]))
            solid = t["solid"] or SOLID_DATA
            hist = []
            fill = "write 0x%x " % (origin - 8) + " ".join("0x%02x" % rng.randrange(1, 256) for _ in range(56))
            if k < nfix or rng.random() < 0.6:
                hist.append(("cmd", fill))
            for _ in range(rng.randrange(0 if hist else 1, 4)):
                r = rng.random()
                if r < 0.35:
                    hist.append(("asm", origin, [rng.choice(solid) for _ in range(rng.randrange(1, 6))]))
                elif r < 0.6:
                    hist.append(("asm", origin + align * rng.choice([-2, -1, 1, 2, 3]), [rng.choice(solid) for _ in range(rng.randrange(1, 5))]))
                elif r < 0.7:
                    # continuation: the block without an origin goes behind the one before it
                    hist.append(("asm", origin - 2 * align, [rng.choice(SOLID_DATA[:3])]))
                    hist.append(("asm", None, [rng.choice(solid) for _ in range(rng.randrange(1, 4))]))
                elif r < 0.8:
                    hist.append(("asm", origin, list(block)))           # the same block earlier
                elif r < 0.9:
                    a = origin + 4 * rng.randrange(0, 4)
                    hist.append(("cmd", "write32 0x%x 0x%08x 0x%08x" % (a, rng.randrange(1 << 32) | 0x01010101, rng.randrange(1 << 32) | 0x01010101)))
                else:
                    a = origin + 2 * rng.randrange(0, 8)
                    hist.append(("cmd", "write16 0x%x 0x%04x" % (a, rng.randrange(1 << 16) | 0x0101)))
            cases.append((cpu, origin, block, hist))
    return cases


def util_print_cells(out):
    cells = {}
    for m in ROW13.finditer(out):
        a = int(m.group(1), 16)
        for i, v in enumerate(m.group(2).split()):
            cells[a + i] = int(v, 16)
    return cells


def util_run_case(util, case):
    cpu, origin, block, hist = case
    show = ["print 0x%x-0x%x" % (origin - 8, origin + 55), "quit"]
    fresh = util_script([("asm", origin, block)]) + show
    after = util_script(list(hist) + [("asm", origin, block)]) + show
    a = nvlib.run_util(util, ["-" + cpu], "\n".join(fresh) + "\n", timeout=60)
    b = nvlib.run_util(util, ["-" + cpu], "\n".join(after) + "\n", timeout=60)
    return fresh, after, a, b


def util_history_stream(ctx, orc, stats):
    util = ctx.repo["naken_util"]
    table = util_classify(ctx, stats)
    cases = util_cases(ctx, table)
    ext = ctx.impl(["util13 %s %x %s" % (cpu, origin, hx("\n".join(block) + "\n")) for cpu, origin, block, _ in cases])
    with ThreadPoolExecutor(nvlib.NPROC) as ex:
        runs = list(ex.map(lambda c: util_run_case(util, c), cases))
    dist = {}
    for case, e, (fresh, after, a, b) in zip(cases, ext, runs):
        cpu, origin, block, hist = case
        orc["cases"] += 2
        d = fields(e)
        if d.get("st") != "0" or "Error assembling" in a["out"]:
            dist["block-rejected"] = dist.get("block-rejected", 0) + 1
            continue
        n = int(d["org"], 16) - origin
        want_cells = cells_of(d.get("img"))
        ca, cb = util_print_cells(a["out"]), util_print_cells(b["out"])
        extent = range(origin, origin + min(n, 56))
        key = "%s:%s" % (cpu, "+".join(sorted(set("asm-same" if h[0] == "asm" and h[1] == origin else "asm-overlap" if h[0] == "asm" and h[1] is not None
                                                    else "asm-cont" if h[0] == "asm" else h[1].split(" ")[0] for h in hist))))
        dist[key] = dist.get(key, 0) + 1
        stats["util_history_zero_bytes"] = stats.get("util_history_zero_bytes", 0) + sum(1 for x in extent if ca.get(x) == 0)
        rec = {"cpu": cpu, "origin": origin, "n": len(extent), "fresh": fresh, "after": after}

        def fail(kind, expected, observed):
            orc["failures"].append({"sig": "C13:%s:%s:%s" % (kind, cpu, nvlib.sha("\n".join(after).encode())[:10]),
                                    "input": "naken_util -%s <<EOF\n%s\nEOF" % (cpu, "\n".join(after)), "expected": expected,
                                    "observed": observed, "what": kind + ": the bytes an asm block leaves depend on what the session did before",
                                    "util": rec})
        if a["rc"] != 0 or b["rc"] != 0 or any(x not in ca or x not in cb for x in extent):
            fail("util-history-crash", "two listings of the range", "rc=%d/%d %s" % (a["rc"], b["rc"], (a["err"] + b["err"])[-300:]))
            continue
        bad = [x for x in extent if ca[x] != cb[x]]
        if bad:
            fail("util-history", "0x%x: %s (fresh process)" % (origin, " ".join("%02x" % ca[x] for x in extent)),
                 "0x%x: %s (after %d earlier steps; first difference at 0x%x)" % (origin, " ".join("%02x" % cb[x] for x in extent), len(hist), bad[0]))
            continue
        bad = [x for x in extent if want_cells.get(x, 0) != ca[x]]
        if bad:
            fail("util-block-image", "the bytes the assembler produces for the block: " + " ".join("%02x" % want_cells.get(x, 0) for x in extent),
                 "fresh naken_util process: " + " ".join("%02x" % ca[x] for x in extent))
    stats["util_history_sessions"] = len(cases)
    stats["util_history_distribution"] = dict(sorted(dist.items()))


def static_stream(ctx, orc, stats):
    """the static `depth` of include_parse(): 40 assemblies that fail inside an include file, then a valid one with
    nested includes — in ONE harness process — against the valid one in a fresh process"""
    bad = prog_line("", 0, '.msp430\n.include "a.inc"\n', files=[("a.inc", "  .db 1\n  bogus_mnemonic r5\n")])
    deep = '.msp430\n.include "a.inc"\n  .db 9\n'
    good = prog_line("", 0, deep, files=[("a.inc", '  .db 1\n.include "b.inc"\n'), ("b.inc", '  .db 2\n.include "c.inc"\n'),
                                         ("c.inc", "  .db 3\n")])
    fresh = nvlib.run_lines(ctx.harness, [good], shards=1)
    after = nvlib.run_lines(ctx.harness, [bad] * 40 + [good], shards=1)
    orc["cases"] += 42
    stats["static_history_lines"] = 42
    if core_of(fresh[0]) != core_of(after[-1]) or "st=0" not in fresh[0]:
        orc["failures"].append({"sig": "C13:static-state:include-depth", "input": deep, "expected": core_of(fresh[0])[:300],
                                "observed": core_of(after[-1])[:300],
                                "what": "an assembly after 40 assemblies that failed inside an include differs from the same assembly in a fresh process"})


def valgrind_stream(ctx, orc, progs, stats):
    if ctx.quick() or not shutil.which("valgrind"):
        return
    try:
        plain = nvlib.build_repo(flags=["-O1", "-g", "-DNAKEN_ASM_VERIF", "-DUNIT_TEST_OFF", "-w"], tag="plain")
    except Exception as e:
        stats["valgrind"] = "plain build failed: %r" % (e,)
        return
    tmp = ctx.tmpdir()
    pick = [p for p in progs if not p[2]][:14]
    n = 0
    for pi, (label, src, files, classes) in enumerate(pick):
        d = os.path.join(tmp, "v%d" % pi)
        os.makedirs(d, exist_ok=True)
        open(os.path.join(d, "p.asm"), "wb").write(src.encode("latin-1"))
        for args in (["-type", "hex"], ["-type", "elf", "-l", "-dump_symbols", "-dump_macros"]):
            try:
                r = subprocess.run(["valgrind", "-q", "--error-exitcode=77", plain["naken_asm"]] + args + ["-o", "out.x", "p.asm"],
                                   stdout=subprocess.PIPE, stderr=subprocess.PIPE, cwd=d, timeout=300)
            except subprocess.TimeoutExpired:
                continue
            n += 1
            orc["cases"] += 1
            if r.returncode == 77:
                orc["failures"].append({"sig": "C13:valgrind:%s" % nvlib.sha(src.encode("latin-1"))[:10], "input": src,
                                        "expected": "no use of uninitialised memory", "observed": r.stderr.decode("latin-1")[-600:],
                                        "what": "valgrind reports an error (" + label + ")"})
        shutil.rmtree(d, ignore_errors=True)
    stats["valgrind_runs"] = n


def corpus_stream(ctx, orc, stats):
    corpus = load_corpus()
    ans = ctx.impl([line for _, _, line in corpus])
    for (name, want, line), a in zip(corpus, ans):
        orc["cases"] += 1
        if want not in a:
            src = bytes.fromhex(line.split(" ")[3]).decode("latin-1")
            orc["failures"].append({"sig": "C13:corpus:" + name, "input": src, "expected": want, "observed": core_of(a)[:300],
                                    "what": "a defect fixed through C13 is back (" + name + ")", "line": line})
    stats["corpus"] = len(corpus)


def oracle(ctx, orc, focus=None):
    stats = {}
    corpus_stream(ctx, orc, stats)
    progs = gather_programs(ctx)
    inproc_stream(ctx, orc, progs, stats)
    process_stream(ctx, orc, progs, stats)
    util_stream(ctx, orc, stats)
    util_history_stream(ctx, orc, stats)
    static_stream(ctx, orc, stats)
    valgrind_stream(ctx, orc, progs, stats)
    by = {}
    for label, _, _, _ in progs:
        k = label.split(":")[0]
        by[k] = by.get(k, 0) + 1
    stats["programs"] = by
    stats["literal_distribution"] = ctx.notes.get("literal_stats")
    orc["stats"] = stats
    orc["distinct_nontrivial"] = len(set(p[1] for p in progs if p[1].count("\n") >= 4))
    orc["samples"] = [{"label": progs[i][0], "source_head": progs[i][1][:80]} for i in range(0, len(progs), max(1, len(progs) // 5))][:5]


def replay(ctx, rec):
    f = rec.get("failure", {})
    src = f.get("input", "")
    out = {"fails": False, "sig": f.get("sig")}
    if f.get("util"):
        u = f["util"]
        util = ctx.repo["naken_util"]
        a = nvlib.run_util(util, ["-" + u["cpu"]], "\n".join(u["fresh"]) + "\n")
        b = nvlib.run_util(util, ["-" + u["cpu"]], "\n".join(u["after"]) + "\n")
        ca, cb = util_print_cells(a["out"]), util_print_cells(b["out"])
        ext = range(u["origin"], u["origin"] + u["n"])
        out["fresh"] = " ".join("%02x" % ca.get(x, -1) for x in ext)
        out["after"] = " ".join("%02x" % cb.get(x, -1) for x in ext)
        out["fails"] = out["fresh"] != out["after"] or a["rc"] != 0 or b["rc"] != 0
        return out
    if f.get("line") and "pass1-leftover" in f.get("sig", ""):
        a = ctx.impl([f["line"]])
        out["answers"] = a
        out["fails"] = fields(a[0]).get("left", "-") != "-"
    elif f.get("line"):
        a = ctx.impl([f["line"], prog_line("", 0, src)])
        out["answers"] = a
        out["fails"] = core_of(a[0]) != core_of(a[1]) or "DIED" in a[0]
    else:
        a = ctx.impl([prog_line("t", 0, src)])
        out["answers"] = a
        out["fails"] = fields(a[0]).get("left", "-") != "-"
    return out
