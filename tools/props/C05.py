"""C05 — data/location directives place exactly the specified bytes at the right address."""
import json, os
import nvlib, gen_data as G

ID = "C05"
LEAN_MODULES = ["NakenVerif.Props.C05"]
THEOREMS = ["NakenVerif.Memory." + t for t in (
    "memory_refines_map", "spec_cells_lastStore", "spec_low_high_bounds", "spec_low_high_attained",
    "write_needs_no_fuel", "page_offset_in_bounds", "write_then_read", "read_write_roundtrip", "write16_layout")] + [
    "NakenVerif.Core.Directives." + t for t in (
    "bytes_placed_exactly", "directive_denotation", "relFull_init", "placement_frame", "db_range", "dw_range",
    "wide_values_rejected", "dl_wraps", "dq_wraps", "dollar_is_next_address", "label_is_next_address",
    "label_reference", "align_terminates", "align_result_aligned",
    "align_rejects_non_power_of_two", "resb_advances_without_writing", "string_counterexample", "string_dollar",
    "cleanString_of_plain")]
RULE = ("programs: one data-only program per case, rendered as assembler source for the real two-pass assembly "
        "(`prog`) and as a directive list for the model (`dir`); generated per (endian, bytes-per-address, "
        "$-is-hex, pass-1-write-disable) class of the regenerated cpu_list: every value directive x every width-boundary value, "
        "strings with every escape and pair of escapes, .org patterns (backwards, overlapping, across 64 KiB pages, "
        "top of the address space, >= 2^31, wrap), reserve/align at many offsets, random sequences with labels and $ "
        "around every directive incl. forward references, .binfile of sizes around the 8 KiB read buffer; "
        "`mem`: operation lists on one Memory object clustered at page boundaries and 2^32.  "
        "A case is non-trivial when it has >= 3 directives (programs) or >= 4 operations (mem); distinct = distinct lines.")
MODELLED = ("Memory::read8/16/32, write8/16/32, write, write_debug, read_debug, MemoryPage (page list, offset_min/max, "
            "low/high); parse_org, parse_db (strings, asciiz, \\0), parse_dc16/32/64, parse_resb, parse_align_bits/bytes, "
            "parse_data_fill, binfile_parse (content given), .big_endian/.little_endian, labels, `$`, the quoted-string "
            "lexing of tokens_get/process_escape, eval_expression(int*) with its 32-bit range check, eval_data (64-bit), both passes")
NOT_MODELLED = ("expression evaluation inside operands (C04; operands are literals, `$` or one label), .bss/.code segments, "
                ".varuint, .dc.w/.dc.l spellings (disabled in the code), instructions between the data, macros/.repeat")
ASSUMPTIONS = ["signed overflow of the C `int` location counter (address++ at 0x7fffffff, num * size in .resb) is "
               "undefined in C; the model records two's-complement wrap-around, which is what the compiled code does, "
               "and the correspondence stream exercises it",
               "the meaning of programs whose location counter passes 2^32, of negative reservations, of .org outside the "
               "address space, of alignments above 1024 and of escapes other than \\n \\r \\t \\\" \\\\ \\' \\0 is not "
               "specified by the documents; the oracle only demands that model and code agree and nothing crashes"]
TRUSTED_BASE = ["tools/gen_data.py reference placement `place` (independent of the code; used by the search)"]

RUN_TIMEOUT = 120      # seconds per shard of protocol lines: a hanging Memory/align loop shows as DIED, not as a stalled check
CLASSES = ["string-bs0", "align-not-pow2"]


# ---------------------------------------------------------------- case construction

def build_cases(ctx):
    cpus = G.pick_cpus(G.load_cpus(nvlib.VERIF))
    g = G.Gen(ctx.rng, cpus)
    cases = []
    cases += g.systematic(full=not ctx.quick())
    cases += g.strings(ctx.scale(150, 1500))
    cases += g.strings_bs0(ctx.scale(10, 60))
    cases += g.orgs(ctx.scale(400, 5000))
    cases += g.aligns(ctx.scale(120, 1200))
    cases += g.sequences(ctx.scale(800, 12000))
    cases += g.sequences(ctx.scale(40, 400), maxlen=40)
    cases += g.binfiles(ctx.scale(14, 60))
    cases += g.high_addresses(ctx.scale(40, 300))
    return cpus, cases


def materialise(ctx, cases):
    """write .binfile contents to scratch files; attach source / prog line / dir line to every case"""
    tmp = ctx.tmpdir()
    nfile = 0
    for n, p in enumerate(cases):
        paths = []
        for d in p["ds"]:
            if d[0] == "bin":
                path = os.path.join(tmp, "b%d.bin" % nfile)
                nfile += 1
                with open(path, "wb") as f:
                    f.write(bytes(d[1]))
                paths.append(path)
        p["src"] = G.render(p["cpu"], p["ds"], paths, style=n % 2)
        p["prog"] = nvlib.prog_line(p["src"])
        p["dir"] = G.wire(p["cpu"], p["ds"])
    return cases


def canon(ans):
    """the fields of a prog/dir answer that are compared"""
    if not ans.startswith("st="):
        return ans
    d = {}
    for kv in ans.split(" "):
        k, _, v = kv.partition("=")
        d[k] = v
    if d.get("st") != "0":
        return "st=1"
    return " ".join("%s=%s" % (k, d.get(k)) for k in ("st", "low", "high", "bpa", "end", "img", "dbg", "syms"))


CANARIES = [
    "mem l w8:ffff0000:1 r8:ffff0000", "mem l wd:ffffffff:2:fffffffe r8:ffffffff", "mem b wg:ffff0005:1 rd:ffff0005",
    "mem l w16:ffffffff:1234 r16:ffffffff", "mem l w8:0:1 w8:10000:2 w8:7fffffff:3 w8:80000000:4 r8:80000000",
    nvlib.prog_line(".msp430\n.org 0xffff0000\n.db 1\n"), nvlib.prog_line(".msp430\n.org 0xfffffffe\n.dw 0x1234\n"),
    nvlib.prog_line(".avr8\n.org 0x7fffffff\n.db 1, 2\n"), nvlib.prog_line(".msp430\n.db 1\n.align 32\n.align_bytes 1024\n.db 2\n"),
    nvlib.prog_line(".msp430\n.align_bytes 0\n.align_bytes -4\n.align 24\n"), nvlib.prog_line(".msp430\n.resb 0xfffe\n.data_fill 1, 70000\n"),
]


def canaries(ctx):
    """a handful of operations on the extreme pages / loop directives, one process each, short timeout:
    a hanging write or alignment loop is reported from here in seconds instead of stalling every shard of the streams"""
    bad = []
    for line in CANARIES:
        ans = nvlib.run_lines(ctx.harness, [line], timeout=60, shards=1)[0]
        if ans.startswith("DIED") or ans == "MISSING":
            bad.append({"sig": "C05:crash:canary:" + line[:80], "input": line, "expected": "an answer within 60 s",
                        "observed": ans[:300], "what": "the real code died or did not return on a basic operation",
                        "replay_line": line})
    return bad


def correspondence(ctx, corr):
    ctx.notes["canary_failures"] = canaries(ctx)
    if ctx.notes["canary_failures"]:
        for f in ctx.notes["canary_failures"]:
            corr["disagreements"].append({"line": f["input"], "impl": f["observed"], "model": "(streams not run: basic operation hangs or crashes)"})
        corr["streams"]["canaries"] = {"failed": len(ctx.notes["canary_failures"])}
        return
    cpus, cases = build_cases(ctx)
    materialise(ctx, cases)
    ctx.notes["cases"], ctx.notes["cpus"] = cases, cpus
    # corpus first
    extra_prog, extra_dir = [], []
    cp = os.path.join(nvlib.VERIF, "corpus", ID, "cases.jsonl")
    if os.path.exists(cp):
        byname = {c["name"]: c for c in G.load_cpus(nvlib.VERIF)}
        for l in open(cp):
            if l.strip():
                rec = json.loads(l)
                p = {"cpu": byname[rec["cpu"]], "ds": rec["ds"], "tag": "corpus"}
                materialise(ctx, [p])
                cases.insert(0, p)
    impl = nvlib.run_lines(ctx.harness, [p["prog"] for p in cases], timeout=RUN_TIMEOUT)
    model = nvlib.run_lines(ctx.driver, [p["dir"] for p in cases], env=dict(os.environ), timeout=RUN_TIMEOUT)
    ctx.notes["impl"] = impl
    tags = {}
    for p, a, b in zip(cases, impl, model):
        tags[p["tag"]] = tags.get(p["tag"], 0) + 1
        ca, cb = canon(a), canon(b)
        if ca != cb:
            corr["disagreements"].append({"line": p["dir"], "source": p["src"], "impl": ca, "model": cb})
    corr["cases"] += len(cases)
    st = {}
    for a in impl:
        k = a.split(" ")[0] if a.startswith("st=") else "died"
        st[k] = st.get(k, 0) + 1
    corr["streams"]["prog-vs-dir"] = {"programs": len(cases), "by_generator": tags, "impl_status": st,
                                      "cpu_classes": [(c["name"], "big" if c["big"] else "little", c["bpa"]) for c in cpus]}
    # raw Memory operations
    mem = G.gen_mem_ops(ctx.rng, ctx.scale(3000, 60000))
    mem += ["mem l w8:ffff0000:1 r8:ffff0000 wd:ffffffff:2:fffffffe r8:ffffffff rd:ffffffff r16:ffffffff r32:fffffffd",
            "mem b w16:ffffffff:1234 r16:ffffffff r8:0 r8:ffffffff w32:fffffffe:a1b2c3d4 r32:fffffffe r8:1",
            "mem l", "mem b r8:0 rd:0 r16:ffffffff r32:ffffffff"]
    h = nvlib.run_lines(ctx.harness, mem, timeout=RUN_TIMEOUT)
    d = nvlib.run_lines(ctx.driver, mem, env=dict(os.environ), timeout=RUN_TIMEOUT)
    for l, a, b in zip(mem, h, d):
        if a != b:
            corr["disagreements"].append({"line": l, "impl": a, "model": b})
    corr["cases"] += len(mem)
    corr["streams"]["mem"] = {"lines": len(mem), "ops": sum(l.count(" ") - 1 for l in mem)}
    corr["distinct_nontrivial"] = len(set(p["dir"] for p in cases if len(p["ds"]) >= 3)) + len(set(l for l in mem if l.count(" ") >= 5))
    k = max(1, len(cases) // 5)
    corr["samples"] = [{"line": cases[i]["dir"], "impl": canon(impl[i])[:300], "model": canon(model[i])[:300]} for i in range(0, len(cases), k)][:5]
    corr["samples"].append({"line": mem[0], "impl": h[0], "model": d[0]})


# ---------------------------------------------------------------- the property itself against the real code

def compare(exp, r):
    """first differing aspect between the reference placement and a successful real run"""
    if r["image"] != exp["image"]:
        ks = sorted(set(r["image"]) | set(exp["image"]))
        bad = [a for a in ks if r["image"].get(a) != exp["image"].get(a)][:4]
        return "image", "; ".join("%x: want %s got %s" % (a, exp["image"].get(a), r["image"].get(a)) for a in bad)
    got = {n: a for (n, a, sc, ex) in r["syms_list"]}
    if got != exp["syms"]:
        bad = [n for n in sorted(set(got) | set(exp["syms"])) if got.get(n) != exp["syms"].get(n)][:4]
        return "syms", "; ".join("%s: want %s got %s" % (n, exp["syms"].get(n), got.get(n)) for n in bad)
    if exp["image"] and (r["low"], r["high"]) != (exp["low"], exp["high"]):
        return "lowhigh", "want %x..%x got %x..%x" % (exp["low"], exp["high"], r["low"], r["high"])
    return None


def judge(p, ans):
    """-> (None | failure dict, reference kind)"""
    cpu, ds = p["cpu"], p["ds"]
    notes = set()
    try:
        exp, kind = G.place(cpu, ds, notes), "ok"
    except G.Rejected as e:
        exp, kind = str(e), "rej"
    except G.Unspecified as e:
        exp, kind = str(e), "unspec"
    feats = [c for c in CLASSES if c in notes]
    feat = "+".join(feats) or "plain"
    ident = "%s:%s" % (cpu["name"], p["dir"].split(" ", 2)[2] if p["dir"].count(" ") >= 2 else "")

    def fail(what, expected, observed, detail):
        return {"sig": "C05:%s:%s:%s" % (what, feat, ident), "input": p["src"], "expected": expected, "observed": observed,
                "what": detail, "case": {"cpu": cpu["name"], "ds": p["ds"]}}

    r = nvlib.parse_prog(ans)
    if r["died"]:
        return fail("crash", "a result", ans[:300], "the assembler died / timed out"), kind
    if kind == "unspec":
        if "align-not-pow2" in notes:
            # either reading is accepted: an error, or the next multiple of n (no effect for n < 1)
            if r["st"] != 0:
                return None, kind
            try:
                alt = G.place(cpu, ds, set(), any_alignment=True)
            except (G.Rejected, G.Unspecified):
                return None, kind
            c = compare(alt, r)
            if c:
                return fail(c[0], "an error, or alignment to the next multiple", ans[:300],
                            "alignment that is not a power of two misplaces what follows: " + c[1]), kind
        return None, kind
    if kind == "rej":
        if r["st"] == 0:
            what = "accepted"
            return fail(what, "error: " + exp, ans[:300], "a value outside the documented range was accepted"), kind
        return None, kind
    # kind == ok
    if r["st"] != 0:
        return fail("rejected", "status 0", ans[:200], "a valid program was rejected"), kind
    c = compare(exp, r)
    if c:
        return fail(c[0], "placement per docs/directives.md", ans[:300], c[1]), kind
    if r["end"] != ("b" if final_big(cpu, ds) else "l"):
        return fail("endian", "final byte order", r["end"], "memory.endian after the run"), kind
    return None, kind


def final_big(cpu, ds):
    big = cpu["big"]
    for d in ds:
        if d[0] == "be": big = True
        elif d[0] == "le": big = False
    return big


def oracle(ctx, orc, focus=None):
    if "canary_failures" not in ctx.notes:
        ctx.notes["canary_failures"] = canaries(ctx)
    if ctx.notes["canary_failures"]:
        orc["failures"] += ctx.notes["canary_failures"]
        orc["cases"] += len(CANARIES)
        orc["stats"] = {"canaries_failed": len(ctx.notes["canary_failures"])}
        return
    if "cases" in ctx.notes and "impl" in ctx.notes:
        cases, impl = ctx.notes["cases"], ctx.notes["impl"]
    else:
        cpus, cases = build_cases(ctx)
        materialise(ctx, cases)
        impl = nvlib.run_lines(ctx.harness, [p["prog"] for p in cases], timeout=RUN_TIMEOUT)
    stats = {"ok": 0, "rej": 0, "unspec": 0, "classes": {}}
    good = []
    for p, ans in zip(cases, impl):
        orc["cases"] += 1
        f, kind = judge(p, ans)
        stats[kind] += 1
        if f:
            orc["failures"].append(f)
            cl = f["sig"].split(":")[2]
            stats["classes"][cl] = stats["classes"].get(cl, 0) + 1
        else:
            good.append((p, kind))
    # process level: the real executable, raw binary output = bytes low..high (unwritten cells as zero)
    exe = ctx.repo["naken_asm"]
    tmp = ctx.tmpdir()
    want = ctx.scale(60, 400)
    step = max(1, len(good) // want)
    nproc = 0
    for i, (p, kind) in enumerate(good[::step][:want]):
        if kind == "unspec":
            continue
        cpu, ds = p["cpu"], p["ds"]
        if kind == "ok":
            exp = G.place(cpu, ds)
            if not exp["image"] or exp["high"] - exp["low"] > (1 << 20) or exp["high"] == G.M32:
                continue     # (the raw writer's `for (n = low; n <= high; n++)` does not end at high = 2^32-1: C03/C16)
        r = nvlib.run_asm(exe, p["src"], tmp, name="p%d" % i, outtype="bin", timeout=30)
        orc["cases"] += 1
        nproc += 1
        ident = "%s:%s" % (cpu["name"], p["dir"].split(" ", 2)[2])
        if r["rc"] not in (0, 1):
            orc["failures"].append({"sig": "C05:process-crash:plain:" + ident, "input": p["src"], "expected": "exit 0 or 1",
                                    "observed": "exit %d %s" % (r["rc"], r["err"][-300:]), "what": "naken_asm died",
                                    "case": {"cpu": cpu["name"], "ds": ds}})
        elif kind == "rej":
            if r["rc"] == 0:
                orc["failures"].append({"sig": "C05:process-accepted:plain:" + ident, "input": p["src"], "expected": "exit 1",
                                        "observed": "exit 0", "what": "rejected in process but exit status 0",
                                        "case": {"cpu": cpu["name"], "ds": ds}})
        else:
            data = bytes(exp["image"].get(a, 0) for a in range(exp["low"], exp["high"] + 1))
            if r["rc"] != 0 or r["data"] != data:
                orc["failures"].append({"sig": "C05:process-image:plain:" + ident, "input": p["src"], "expected": data.hex()[:200],
                                        "observed": "exit %d %s" % (r["rc"], r["data"].hex()[:200] if r["data"] is not None else None),
                                        "what": "-type bin output differs from the placed bytes",
                                        "case": {"cpu": cpu["name"], "ds": ds}})
    stats["process_runs"] = nproc
    orc["stats"] = stats
    orc["distinct_nontrivial"] = len(set(p["src"] for p in cases if len(p["ds"]) >= 3))
    k = max(1, len(cases) // 4)
    orc["samples"] = [{"source": cases[i]["src"][:300], "impl": canon(impl[i])[:300]} for i in range(0, len(cases), k)][:4]


def replay(ctx, rec):
    f = rec.get("failure") or {}
    if f.get("replay_line"):
        ans = nvlib.run_lines(ctx.harness, [f["replay_line"]], timeout=60, shards=1)[0]
        return {"fails": ans.startswith("DIED") or ans == "MISSING", "line": f["replay_line"], "impl": ans}
    case = f.get("case")
    if not case:
        return {"fails": False, "note": "no case recorded", "record": rec}
    byname = {c["name"]: c for c in G.load_cpus(nvlib.VERIF)}
    p = {"cpu": byname[case["cpu"]], "ds": case["ds"], "tag": "replay"}
    materialise(ctx, [p])
    ans = nvlib.run_lines(ctx.harness, [p["prog"]], timeout=RUN_TIMEOUT)[0]
    j, kind = judge(p, ans)
    return {"fails": j is not None, "source": p["src"], "impl": ans, "reference": kind, "verdict": j}
