"""C17 — naken_util never crashes, hangs or corrupts memory on any file or command."""
import os, re, struct, subprocess, collections
from concurrent.futures import ThreadPoolExecutor
import nvlib
import gen_safe as G
import gen_image

ID = "C17"
QUICK_K = 1          # the stream sizes below are the real ones (the quick tier already takes minutes)
LEAN_MODULES = ["NakenVerif.Props.C17"]
THEOREMS = ["NakenVerif.C17." + t for t in (
    "read_uf2_total", "uf2_block_layout", "read_uf2_unchecked_counterexample", "read_elf_total", "read_macho_total",
    "read_amiga_total", "read_ti_txt_total", "read_ti_txt_linear", "read_hex_total", "read_srec_total", "read_wdc_total",
    "read_bin_linear", "get_string_in_bounds", "get_num_in_bounds", "get_address_in_bounds", "get_range_total", "write_total",
    "write_unfixed_counterexample", "print8_total", "print16_total", "print32_total", "print16_unguarded_counterexample",
    "disasm_walk_total", "walk_unguarded_counterexample", "command_table_unambiguous", "range_walk_top_counterexample")]
RULE = ("files: per format (hex, srec, ti_txt, wdc, uf2, elf32/64 le/be, amiga, macho32/64 le/be, bin) generated well-formed "
        "files x {every field of the builder's field table at 0/1/2/max/max-1/half/half+1/file length +-1/2^32 boundary values "
        "(hex fields: same on the digit range + a non-hex character, lower case, a dropped digit), truncation at every record / "
        "section boundary -1..+3, every aligned word of the first 512 bytes at 0/max/msb/length, lines of 70000 characters, junk "
        "lines, CR only, no line ends, missing end record, 12 random byte corruptions, insertions, deletions} + hand-made files "
        "for every loop that depends on a count in the file (65535 section headers of size 0/1/40/65535, sizes and offsets at "
        "2^31/2^32-16..2^32-1/2^44/2^63/2^64-1, cyclic section tables, UF2 byte counts 0..2^32-1, Amiga lengths <= 0 and "
        "tables longer than the file, Mach-O counts 3..2^32-1) + extension/magic sniffing; commands: get_num/get_address/"
        "get_range/write*/print* on an atom table (decimal/0x/h-suffix/sign/overflow/empty/garbage) composed with separators, "
        "random strings, ranges at 2^32-k, 12 CPUs with 1/2/4 bytes per address; page walk over 7 pages incl. 0xffff0000; "
        "process level: the sanitised naken_util on mutated files (+ -disasm), every command of the table x operand classes x "
        "every cpu_list name, option lines with missing/garbage/huge values, EOF without quit, every CPU's -disasm on random / "
        "all-0xff / all-zero / prefix-byte files; each with a time and an output limit.  "
        "distinct = distinct protocol lines / process inputs; non-trivial = the file was loaded (return 0 and bytes stored) or "
        "the command acted (wrote/printed/returned a pointer).")
MODELLED = ("fileio/read_uf2.cpp, read_ti_txt.cpp, read_amiga.cpp, read_elf.cpp, read_macho.cpp, FileIo::get_int16/32/64, "
            "get_string_at_offset, get_bytes, fseek/ftell/feof semantics on a byte string, file.cpp get_file_type (new, as fixed); "
            "read_hex.cpp, read_srec.cpp, read_wdc.cpp, read_bin.cpp (the C03 models, here: their fuel never runs out); "
            "core/UtilContext.cpp get_num, get_hex, get_address, get_token, get_range, write8/16/32, print8/16/32 (loop, chars[20]), "
            "disasm(start,end) page walk; main/naken_util.cpp is_command_valid over the regenerated command_names[]")
NOT_MODELLED = ("partial: what only the runtime shows is covered by the sanitised in-process and process-level streams, not by "
                "proof: heap behaviour (Memory pages: 320 KiB per touched 64 KiB page, Symbols pools, String growth) and heap "
                "exhaustion, the 15 simulators behind set/clear/push/break/step/reset/registers/dump_ram, the 68 disasm_range_<cpu> "
                "functions reached by disasm (C08), assemble_code behind asm (C16), the option loop of main(), stdio itself.  "
                "run / call / -run start an unbounded simulation by design and are only exercised on a program that returns.  "
                "glibc's fseek within one stdio buffer of the file system's seek limit leaves ftell inconsistent after failing; "
                "ELF64 files asking for such offsets are run for crashes and time only (model: fseek succeeds or fails cleanly).")
ASSUMPTIONS = ["files are shorter than 2^31 bytes (FileIo::get_file_length returns int) and lie on a file system whose seek limit is "
               "at least 2^33 (measured on every run by the harness command seekmax and passed to the model)",
               "fseek either succeeds or fails leaving the stream unchanged (see NOT_MODELLED for the one glibc exception)",
               "the four getc calls inside one `a | b | c | d` expression of read_amiga's read_int32 are evaluated left to right "
               "(as the compiled code does; the correspondence stream would show a change)",
               "int overflow of e_shstrndx * e_shentsize / n * e_shentsize in read_elf wraps to 32 bits (as compiled; checked by "
               "the shentsize=65535,shnum=65535 cases)",
               "the argument strings of the command layer are C strings (no NUL inside); `print`/`disasm` over a range the user "
               "asks for is allowed to take time proportional to that range"]
TRUSTED_BASE = ["tools/gen_safe.py (builders of well-formed files of the nine formats)"]

FMT_TIMEOUT = 20


def run_impl(exe, lines, timeout=60, shards=None, max_timeouts=2, fsize_mb=256):
    """nvlib.run_lines for a tree that may hang: a shard gives up after `max_timeouts` lines that did not return (the rest is
    answered SKIPPED), and the harness may not write more than `fsize_mb` (a print loop that never ends dies with SIGXFSZ
    instead of filling the memory with captured output)."""
    import resource
    lines = list(lines)
    if not lines:
        return []
    shards = shards or min(nvlib.NPROC, max(1, len(lines) // 150))
    size = (len(lines) + shards - 1) // shards
    chunks = [lines[i:i + size] for i in range(0, len(lines), size)]

    def limit():
        resource.setrlimit(resource.RLIMIT_FSIZE, (fsize_mb << 20, fsize_mb << 20))

    def work(chunk):
        out, pos, hangs = [], 0, 0
        while pos < len(chunk):
            data = ("\n".join(chunk[pos:]) + "\n").encode("latin-1")
            try:
                r = subprocess.run([exe], input=data, stdout=subprocess.PIPE, stderr=subprocess.PIPE, env=nvlib.SAN_ENV,
                                   timeout=timeout, preexec_fn=limit)
                rc, so, se = r.returncode, r.stdout, r.stderr
            except subprocess.TimeoutExpired as e:
                rc, so, se = -999, e.stdout or b"", b"timeout"
            got = so.decode("latin-1").split("\n")
            if got and got[-1] == "":
                got.pop()
            if rc != 0 and so and not so.endswith(b"\n") and got:
                got.pop()
            got = got[:len(chunk) - pos]
            out.extend(got)
            pos += len(got)
            if pos < len(chunk):
                if rc == 0:
                    out.extend(["MISSING"] * (len(chunk) - pos))
                    break
                tail = se.decode("latin-1", errors="replace")
                m = re.search(r"(ERROR: AddressSanitizer: [^\n]*|runtime error: [^\n]*|SUMMARY: [^\n]*)", tail)
                why = m.group(1) if m else ("output-limit (SIGXFSZ)" if rc == -25 else tail.strip()[-200:])
                out.append("DIED rc=%d %s" % (rc, why.replace("\n", " ")))
                pos += 1
                if rc in (-999, -25):
                    hangs += 1
                    if hangs >= max_timeouts:
                        out.extend(["SKIPPED after %d lines that did not return" % hangs] * (len(chunk) - pos))
                        break
        return out

    with ThreadPoolExecutor(len(chunks)) as ex:
        res = list(ex.map(work, chunks))
    return [x for r in res for x in r]


def sz(ctx, q, t):
    """stream size: exactly q in the quick tier, t in the thorough tier (no tier multiplier)"""
    return q if ctx.quick() else t


# ---------------------------------------------------------------------------
# inputs
# ---------------------------------------------------------------------------

def maxoff(ctx):
    if "maxoff" not in ctx.notes:
        a = nvlib.run_lines(ctx.harness, ["seekmax"])[0]
        ctx.notes["maxoff"] = a if re.fullmatch(r"[0-9a-f]+", a) else "7fffffffffffffff"
    return ctx.notes["maxoff"]


def file_cases(ctx):
    """(fmt, ext, data, label) — deterministic in ctx.rng"""
    if "files" in ctx.notes:
        return ctx.notes["files"]
    rng = ctx.rng
    cases = []
    nseed = sz(ctx, 3, 24)
    limit = sz(ctx, 130, 500)
    for fmt in G.FMTS:
        for i in range(nseed):
            seed = G.BUILDERS[fmt](rng)
            for data, label in G.mutations(rng, seed, limit=limit):
                cases.append((fmt, G.EXT[fmt], data, "%s/%d/%s" % (fmt, i, label)))
    for fmt, data, label in G.special_cases(rng):
        cases.append((fmt, G.EXT[fmt], data, "special/" + label))
    ctx.notes["files"] = cases
    return cases


def srd_line(ctx, fmt, ext, data, start=0):
    return "srd %s %s %s %x %s" % (fmt, ext, nvlib.hexs(data), start, maxoff(ctx))


def corpus_lines():
    cp = os.path.join(nvlib.VERIF, "corpus", ID, "lines.txt")
    if not os.path.exists(cp):
        return []
    return [l.strip() for l in open(cp) if l.strip() and not l.startswith("#")]


def kv(ans):
    return dict(x.split("=", 1) for x in ans.split(" ") if "=" in x)


# ---------------------------------------------------------------------------
# correspondence: model vs real code, in-process
# ---------------------------------------------------------------------------

def correspondence(ctx, corr):
    rng = ctx.rng
    cases = file_cases(ctx)
    lines, tags = [], []
    for l in corpus_lines():
        l = l.replace("MAXOFF", maxoff(ctx))
        lines.append(l)
        tags.append(("corpus", l.split(" ")[0], True))
    for fmt, ext, data, label in cases:
        lines.append(srd_line(ctx, fmt, ext, data, 0x100 if fmt == "bin" else 0))
        tags.append(("file", fmt, "window:" not in label))
    sn = G.sniff_cases(rng)
    for ext, data in sn:
        lines.append(srd_line(ctx, "auto", ext, data))
        tags.append(("sniff", ext, True))
    # the same mutated files through the sniffer (extension of their format)
    for fmt, ext, data, label in cases[::sz(ctx, 9, 3)]:
        lines.append(srd_line(ctx, "auto", ext, data))
        tags.append(("sniff", ext, "window:" not in label))
    cl = G.cmd_lines(rng, sz(ctx, 4000, 80000))
    wl = G.walk_lines(rng, sz(ctx, 400, 6000))
    for l in cl + wl:
        lines.append(l)
        tags.append(("cmd", l.split(" ")[0], True))
    h = run_impl(ctx.harness, lines, timeout=60)
    d = nvlib.run_lines(ctx.driver, lines, env=dict(os.environ), timeout=600)
    ctx.notes["corr_lines"], ctx.notes["corr_impl"], ctx.notes["corr_tags"] = lines, h, tags
    st = collections.Counter()
    nontrivial = set()
    for l, a, b, (kind, what, compare) in zip(lines, h, d, tags):
        st[kind + ":" + what] += 1
        if a.startswith("SKIPPED"):
            st["impl-skipped"] += 1
            continue
        if a.startswith("DIED") or a.startswith("MISSING"):
            st["impl-died"] += 1
            corr["disagreements"].append({"line": l[:3000], "impl": a[:600], "model": b[:600]})
            continue
        if b.startswith("fault"):
            st["model-fault"] += 1
        if compare and a != b:
            corr["disagreements"].append({"line": l[:3000], "impl": a[:600], "model": b[:600]})
        if not compare:
            st["crash-only(glibc seek window)"] += 1
        if kind in ("file", "sniff", "corpus") and a.startswith("ret="):
            f = kv(a)
            st["%s ret=%s" % (what if kind == "file" else kind, f.get("ret"))] += 1
            if f.get("ret") == "0" and f.get("nz", "-") != "-":
                nontrivial.add(l)
            if f.get("syms", "-") != "-":
                st["with-symbols"] += 1
        elif kind == "cmd":
            st["cmd %s -> %s" % (what, a.split(" ")[0].split("=")[0])] += 1
            if a.split("=")[0] in ("off", "count", "items", "ret", "r"):
                nontrivial.add(l)
    corr["cases"] += len(lines)
    corr["streams"]["srd/scmd"] = dict(sorted(st.items()))
    corr["distinct_nontrivial"] = len(nontrivial)
    step = max(1, len(lines) // 5)
    corr["samples"] = [{"line": lines[i][:200], "impl": h[i][:200], "model": d[i][:200]} for i in range(0, len(lines), step)][:5]


# ---------------------------------------------------------------------------
# oracle: the property itself on the real code
# ---------------------------------------------------------------------------

def classify(r, allowed=(0, 1)):
    """None if the run is fine, else a short reason"""
    if r["rc"] in (-999, -25):          # no end within the time limit / output limit (SIGXFSZ): does not terminate
        return "timeout"
    blob = r["err"][-4000:]
    m = re.search(r"AddressSanitizer: ([a-zA-Z-]+)|runtime error: ([^\n]{0,80})|AddressSanitizer:? ?(DEADLYSIGNAL)", blob)
    if m:
        return "sanitizer:" + re.sub(r"[0-9]+", "N", (m.group(1) or m.group(2) or m.group(3)).strip()).replace(" ", "_")
    if r["rc"] < 0:
        return "signal:%d" % -r["rc"]
    if r["rc"] not in allowed:
        return "status:%d" % r["rc"]
    return None


def run_proc(exe, args, stdin_text="", timeout=60, cwd=None, out_mb=128):
    """nvlib.run_util with the output in a file of at most `out_mb` MB: a process that prints for ever is killed by SIGXFSZ
    (reported as rc -25) instead of filling this process's memory"""
    import resource, tempfile

    def limit():
        resource.setrlimit(resource.RLIMIT_FSIZE, (out_mb << 20, out_mb << 20))
    with tempfile.TemporaryFile(dir=cwd) as fo:
        try:
            r = subprocess.run([exe] + list(args), input=stdin_text.encode("latin-1"), stdout=fo, stderr=subprocess.PIPE,
                               env=nvlib.SAN_ENV, timeout=timeout, cwd=cwd, preexec_fn=limit)
            rc, err = r.returncode, r.stderr.decode("latin-1")
        except subprocess.TimeoutExpired:
            rc, err = -999, "timeout"
        fo.seek(0)
        out = fo.read(4 << 20).decode("latin-1")
    return {"rc": rc, "out": out, "err": err}


def run_many(jobs, workers=8):
    """jobs: list of (key, exe, args, stdin, timeout, cwd) -> {key: result}"""
    def one(j):
        key, exe, args, text, timeout, cwd = j
        return key, run_proc(exe, args, text, timeout=timeout, cwd=cwd)
    with ThreadPoolExecutor(workers) as ex:
        return dict(ex.map(one, jobs))


def fail(orc, sig, inp, expected, observed, what, **extra):
    orc["failures"].append({"sig": sig, "input": inp, "expected": expected, "observed": observed, "what": what, **extra})


COMMANDS_NOARG = ["display", "display", "help", "?", "info", "no_clear", "registers", "reg", "reset", "step", "stop", "symbols"]
OPERANDS = ["", "0", "1", "0x10", "zz", "-1", "0xffffffff", "4294967296", "99999999999999999999", "-h", "0x", "h", "10h", "1-h",
            "0x10-0x20", "0x20-0x10", "-", "--", "0-", "-5", "1 2 3", "main", "r0", "r0=1", "r99=5", "pc=0xffffffff", "sp=zz",
            "=", "=5", "r1=", "a=1", "x=0x100", "c", "z", "n", "v", "carry", "%s" % ("9" * 300), "x" * 2000, "0x%s" % ("f" * 40),
            "0xfffffffe-0xffffffff", "0xfffffffc-0xffffffff", "0xffffff80", "1 zz", "0x100 0x", "0 -h", "0x100 1 2 3 4 5 6 7 8"]
ARG_COMMANDS = ["break", "clear", "disasm", "dumpram", "dump_ram", "print", "print16", "print32", "push", "set", "speed",
                "write", "write16", "write32"]


def command_script(rng, n_ops):
    """every command of the table (except run / call / asm, handled apart) x a sample of operand classes; ends with quit"""
    lines = []
    for c in COMMANDS_NOARG:
        lines.append(c)
        lines.append(c + " " + rng.choice(OPERANDS[1:]))
    for c in ARG_COMMANDS:
        ops = [""] + rng.sample(OPERANDS[1:], n_ops)
        for o in ops:
            if c in ("print", "print16", "print32", "disasm", "dumpram", "dump_ram") and re.fullmatch(r"(-|--|0-|-5|main)", o):
                continue            # a range from the start / to the end of a (here empty) image is fine but long: covered in-process
            if c == "disasm" and re.search(r"0xffffff|f{20}|9{20}", o):
                continue            # a range that reaches the top of the address space: known finding, probed on its own below
            lines.append((c + " " + o).rstrip())
    lines += ["", " ", "\t", "unknown", "print8 1", "quit now", "exit 1", "asm", "nop", "", "asm 0x100", "", "asm zz", "bogus instruction here", ""]
    rng.shuffle(lines)
    return lines


def minimise(util, args, lines, reason, cwd):
    """smallest sub-script (single command if possible) that still fails the same way"""
    for l in lines:
        r = run_proc(util, args, l + "\nquit\n", timeout=FMT_TIMEOUT, cwd=cwd)
        c = classify(r)
        if c and c.split(":")[0] == reason.split(":")[0]:
            return [l], c
    lo = list(lines)
    while len(lo) > 1:
        half = len(lo) // 2
        for part in (lo[:half], lo[half:]):
            r = run_proc(util, args, "\n".join(part) + "\nquit\n", timeout=FMT_TIMEOUT, cwd=cwd)
            c = classify(r)
            if c and c.split(":")[0] == reason.split(":")[0]:
                lo = part
                break
        else:
            break
    return lo, reason


def norm_cmd(l):
    l = re.sub(r"[0-9]{12,}", "<digits>", l)
    l = re.sub(r"x{20,}", "<x*>", l)
    l = re.sub(r"f{20,}", "<f*>", l)
    return l.strip().replace(" ", "_")[:60]


def readline_sessions(ctx, orc, stats):
    """/repo's own configuration (config.mak: -DREADLINE) reads commands with readline(); the streams above use the
    fgets() build.  Sessions fed through a pipe to the readline build: it must end at the end of its input (with and
    without a final `quit`), an empty line must end an asm block, and the data commands must answer as in the fgets
    build (only the lines that start with an address are compared)."""
    exe = ctx.repo.get("naken_util_rl")
    if not exe:
        return
    import subprocess
    scripts = [
        ("eof-after-print", "msp430", "print 0-1\n"),
        ("eof-after-write", "msp430", "write 0x10 1 2 3\nprint 0x10-0x12\n"),
        ("eof-empty-input", "msp430", ""),
        ("eof-in-asm-block", "msp430", "asm 0x100\nnop\n"),
        ("asm-ended-by-empty-line", "msp430", "asm 0x100\nmov.w #0x1234, r5\n\nprint16 0x100-0x102\nquit\n"),
        ("asm-ended-by-empty-line", "avr8", "asm 0x10\nldi r16, 5\n\nprint16 0x10-0x10\nquit\n"),
        ("empty-lines-then-quit", "z80", "\n\nprint 0-3\n\nquit\n"),
        ("quit", "6502", "quit\n"),
        ("exit", "6502", "exit\n"),
    ]
    def run(exe_, cpu, text):
        try:
            r = subprocess.run([exe_, "-" + cpu], input=text.encode(), stdout=subprocess.PIPE, stderr=subprocess.PIPE,
                               env=nvlib.SAN_ENV, timeout=20, cwd=ctx.tmpdir())
            return r.returncode, r.stdout.decode("latin-1")[-20000:]
        except subprocess.TimeoutExpired as e:
            return -999, (e.stdout or b"").decode("latin-1")[-2000:]
    def data_lines(out):
        return [l.split("> ")[-1].rstrip() for l in out.split("\n") if re.match(r"^(\S+> )*0x[0-9a-f]+:", l)]
    for name, cpu, text in scripts:
        orc["cases"] += 1
        rc, out = run(exe, cpu, text)
        stats["readline-sessions"] += 1
        if rc != 0:
            fail(orc, "C17:readline:%s:%s:%s" % (name, cpu, "timeout" if rc == -999 else "rc=%d" % rc), text,
                 "naken_util (readline build) ends with status 0 when its input ends", "rc=%d, last output: %s" % (rc, out[-300:]),
                 "the readline configuration did not terminate normally")
            continue
        rc2, out2 = run(ctx.repo["naken_util"], cpu, text if text.endswith("quit\n") or text.endswith("exit\n") else text)
        if rc2 == 0 and data_lines(out) != data_lines(out2) and "asm" not in text.split("\n")[0]:
            fail(orc, "C17:readline:%s:%s:answers-differ" % (name, cpu), text, "\n".join(data_lines(out2))[:600],
                 "\n".join(data_lines(out))[:600], "readline build and fgets build answer differently")
        if name == "asm-ended-by-empty-line" and not any(re.search(r"(1234|e005|05e0)", l) for l in data_lines(out)):
            fail(orc, "C17:readline:%s:%s:block-not-assembled" % (name, cpu), text, "the assembled word listed by print16",
                 "\n".join(data_lines(out))[:600] or out[-300:], "an empty line did not end the asm block in the readline build")


def oracle(ctx, orc, focus=None):
    stats = collections.Counter()
    rng = ctx.rng
    tmp = ctx.tmpdir()
    util = ctx.repo["naken_util"]
    cases = file_cases(ctx)

    # 1. in-process: every answer of the real readers / command functions; a dead harness is a crash or a hang
    if "corr_impl" not in ctx.notes:
        lines = [srd_line(ctx, f, e, d, 0x100 if f == "bin" else 0) for f, e, d, _ in cases] + G.cmd_lines(rng, sz(ctx, 1500, 8000))
        ctx.notes["corr_lines"], ctx.notes["corr_impl"] = lines, run_impl(ctx.harness, lines, timeout=60)
    seen = set()
    for l, a in zip(ctx.notes["corr_lines"], ctx.notes["corr_impl"]):
        orc["cases"] += 1
        if a.startswith("DIED") or a.startswith("MISSING"):
            parts = l.split(" ")
            why = "timeout" if ("timeout" in a or "SIGXFSZ" in a) else re.sub(r"0x[0-9a-f]+|[0-9]+", "N", a[5:60]).strip().replace(" ", "_")
            sig = "C17:inproc:%s:%s:%s" % (parts[0], parts[1] if parts[0] == "srd" else "-", why)
            if sig not in seen:
                seen.add(sig)
                fail(orc, sig, l[:4000], "an answer (loaded, rejected or parsed)", a[:300],
                     "the real code died or did not return in-process", replay_line=l)
            stats["inproc-died"] += 1
        else:
            stats["inproc-ok"] += 1

    # 2. file names (get_file_type on the name itself)
    names = ["", ".", "..", "a", ".hex", "x.", "x.HEX", "nofile.elf", "no/such/dir/x.bin", "x" * 300 + ".srec", "a.b.c.txt", "\xff\xfe.uf2"]
    nl = ["sname " + nvlib.hexs(n) for n in names]
    for l, a in zip(nl, nvlib.run_lines(ctx.harness, nl, timeout=60, shards=1)):
        orc["cases"] += 1
        if not a.startswith("ret="):
            fail(orc, "C17:inproc:sname:%s" % l.split(" ")[1][:24], l, "ret=<n>", a[:300], "file_read on a file name died", replay_line=l)
        else:
            stats["names-ok"] += 1

    # 3. process level: mutated files
    per_fmt = sz(ctx, 20, 200)
    chosen = []
    by = collections.defaultdict(list)
    for c in cases:
        by[c[0]].append(c)
    for fmt in G.FMTS:
        pool = by[fmt]
        spec = [c for c in pool if c[3].startswith("special/")]
        rest = [c for c in pool if not c[3].startswith("special/")]
        chosen += spec[:sz(ctx, 25, 400)] + rng.sample(rest, min(per_fmt, len(rest)))
    jobs, meta = [], {}
    for i, (fmt, ext, data, label) in enumerate(chosen):
        path = os.path.join(tmp, "f%d.%s" % (i, ext))
        with open(path, "wb") as f:
            f.write(data)
        args = (["-bin"] if fmt == "bin" else []) + [path]
        jobs.append((("load", i), util, args, "info\nsymbols\nquit\n", FMT_TIMEOUT, tmp))
        meta[i] = (fmt, label, path, args)
    res = run_many(jobs)
    dis_jobs = []
    for (kind, i), r in res.items():
        fmt, label, path, args = meta[i]
        orc["cases"] += 1
        c = classify(r)
        if c:
            fail(orc, "C17:proc:load:%s:%s:%s" % (fmt, c, label.split("/")[-1][:40]), "naken_util %s < info,symbols,quit  [%s, %d bytes: %s]" % (
                " ".join(args[:-1] + ["<file>"]), label, os.path.getsize(path), open(path, "rb").read()[:600].hex()),
                "exit status 0 (loaded) or 1 (rejected), no sanitizer report, within %d s" % FMT_TIMEOUT,
                "%s rc=%d %s" % (c, r["rc"], r["err"][-300:]), "naken_util died / hung loading a file")
            continue
        stats["proc-load rc=%d" % r["rc"]] += 1
        m = re.search(r"Loaded .* of type (\S+) / (\S+) from 0x([0-9a-f]+) to 0x([0-9a-f]+)", r["out"])
        if m and r["rc"] == 0:
            cpu, low, high = m.group(2), int(m.group(3), 16), int(m.group(4), 16)
            # -disasm walks what was loaded; ranges that reach the top of the address space are the known finding (probed below)
            if low <= high and high - low < (1 << 20) and high < 0xffff0000:
                dis_jobs.append((("dis", i), util, args + ["-disasm"], "", FMT_TIMEOUT * 2, tmp))
                meta[("cpu", i)] = cpu
    for (kind, i), r in run_many(dis_jobs).items():
        fmt, label, path, args = meta[i]
        cpu = meta[("cpu", i)]
        orc["cases"] += 1
        c = classify(r)
        if c:
            fail(orc, "C17:proc:disasm:%s:%s:%s" % (cpu, c, fmt), "naken_util %s -disasm [%s: %s]" % (" ".join(args[:-1] + ["<file>"]), label,
                 open(path, "rb").read()[:600].hex()), "exit status 0", "%s rc=%d %s" % (c, r["rc"], r["err"][-300:]),
                 "naken_util died / hung disassembling a loaded file")
        else:
            stats["proc-disasm cpu=%s" % cpu] += 1

    # 4. process level: every command x operand classes x every CPU
    cpus = [c["name"] for c in gen_image.load_cpu_list(nvlib.LEAN)]
    stats["cpus"] = len(cpus)
    jobs, scripts = [], {}
    for cpu in cpus:
        for k in range(sz(ctx, 2, 10)):
            sc = command_script(rng, sz(ctx, 6, 12))
            eof_only = (k == 0 and rng.random() < 0.3)
            text = "\n".join(sc) + ("\n" if eof_only else "\nquit\n")
            scripts[(cpu, k)] = sc
            jobs.append(((cpu, k), util, ["-" + cpu], text, 60, tmp))
    for (cpu, k), r in run_many(jobs).items():
        orc["cases"] += 1
        c = classify(r)
        if c:
            small, c2 = minimise(util, ["-" + cpu], scripts[(cpu, k)], c, tmp)
            fail(orc, "C17:proc:cmd:%s:%s:%s" % (cpu, c2, "+".join(norm_cmd(x) for x in small[:3])), "naken_util -%s < %r" % (cpu, small[:5]),
                 "every command executed or rejected, exit 0 at quit / end of input",
                 "%s rc=%d %s" % (c, r["rc"], r["err"][-300:]), "naken_util died / hung on an interactive command")
        else:
            stats["proc-cmd-ok"] += 1
            stats["proc-cmd-lines"] += len(scripts[(cpu, k)])

    # 5. process level: option lines
    hexfile = os.path.join(tmp, "ret.hex")
    with open(hexfile, "wb") as f:
        f.write(G.hex_record(0, 0xf800, bytes([0x30, 0x41])) + b"\n" + G.hex_record(0, 0xfffe, bytes([0x00, 0xf8])) + b"\n:00000001FF\n")
    binfile = os.path.join(tmp, "t.bin")
    with open(binfile, "wb") as f:
        f.write(bytes(range(64)))
    vals = ["", "0", "0x10", "zz", "-1", "0xffffffff", "4294967296", "99999999999999999999", "0xfffffff0", "-0x80000000", "1e9", " 5"]
    opt_lines = [[], ["-h"], ["-msp430"], ["-MSP430"], ["-foo"], ["-"], ["--"], ["-bin"], ["-disasm"], ["-run"], ["-disasm_range"],
                 ["-address"], ["-set_pc"], ["-break_io"], ["-sim_serial"], ["-sim_serial", "1"], ["-sim_serial", "1", "a"],
                 ["-sim_serial", "0x100", "/nonexistent/in", "/nonexistent/out", hexfile], [""], ["nofile.hex"], [tmp], ["-msp430", ""],
                 [hexfile, "-run"], [hexfile, "-disasm"], [hexfile, "-disasm_range"], [hexfile, "-disasm_range", "0xf800-0xf802"],
                 [hexfile, "-disasm_range", "zz"], [hexfile, "-disasm_range", "-"], [hexfile, "-disasm_range", "0xf802-0xf800"],
                 [hexfile, hexfile], [hexfile, "-msp430x", "-disasm"], ["-6502", "-bin", binfile, "-disasm"],
                 ["-bin", "-address", "0xffffff00", binfile, "-disasm", "-msp430"], ["-bin", "-address", "0xfffffff0", binfile, "-msp430", "-disasm"]]
    for v in vals:
        opt_lines += [["-bin", "-address", v, binfile], ["-set_pc", v, hexfile], ["-break_io", v, hexfile, "-run"],
                      ["-address", v], ["-bin", binfile, "-address", v, "-disasm"]]
        if v not in ("0xffffffff", "-0x80000000"):      # the top of the address space: known finding; 0..2^31: a 2 GB listing
            opt_lines.append([hexfile, "-disasm_range", v])
    for cpu in rng.sample(cpus, sz(ctx, 10, len(cpus))):
        opt_lines.append(["-" + cpu, "-bin", binfile, "-disasm"])
        opt_lines.append(["-" + cpu.upper(), binfile])
    jobs = [(i, util, a, "info\nquit\n", 30, tmp) for i, a in enumerate(opt_lines)]
    for i, r in run_many(jobs).items():
        orc["cases"] += 1
        c = classify(r)
        a = opt_lines[i]
        if c:
            shown = ["<hex>" if x == hexfile else "<bin>" if x == binfile else "<dir>" if x == tmp else x for x in a]
            fail(orc, "C17:proc:opt:%s:%s" % (c, "_".join(shown)[:80]), "naken_util " + " ".join(shown), "exit status 0 or 1",
                 "%s rc=%d %s" % (c, r["rc"], r["err"][-300:]), "naken_util died / hung on a command line")
        else:
            stats["proc-opt rc=%d" % r["rc"]] += 1

    # 5b. every CPU's disassembler on arbitrary bytes (no model: sanitised exploration, named partial in the evidence)
    jobs, bfiles = [], []
    for k in range(sz(ctx, 2, 8)):
        pth = os.path.join(tmp, "rnd%d.bin" % k)
        style = k % 4
        if style == 0:
            d = bytes(rng.randrange(256) for _ in range(512))
        elif style == 1:
            d = bytes(rng.choice([0, 0xff, 0x80, 0x7f, 0x3d, 0x3e, 0x3f, rng.randrange(256)]) for _ in range(512))
        elif style == 2:
            d = bytes([0xff] * 256)
        else:
            d = bytes(256)
        with open(pth, "wb") as f:
            f.write(d)
        bfiles.append(pth)
    for cpu in cpus:
        for k, pth in enumerate(bfiles):
            jobs.append(((cpu, k), util, ["-" + cpu, "-bin", pth, "-disasm"], "", 20, tmp))
    for (cpu, k), r in run_many(jobs).items():
        orc["cases"] += 1
        c = classify(r)
        if c:
            fail(orc, "C17:proc:disasm-bytes:%s:%s" % (cpu, c), "naken_util -%s -bin <file> -disasm  [bytes: %s]" % (cpu, open(bfiles[k], "rb").read()[:64].hex()),
                 "exit status 0", "%s rc=%d %s" % (c, r["rc"], r["err"][-300:]), "naken_util died / hung disassembling arbitrary bytes")
        else:
            stats["proc-disasm-bytes-ok"] += 1

    # 6. known finding: a disassembly range that reaches 0xffffffff (per-CPU `while (start <= end)` with uint32_t)
    probe = [("6502", "disasm 0xfffffff8-0xffffffff")] if ctx.quick() else [("6502", "disasm 0xfffffff8-0xffffffff"), ("avr8", "disasm 0x7ffffff8-0x7fffffff"),
                                                                          ("68000", "disasm 0xfffffff0-0xffffffff")]
    for cpu, cmd in probe:
        # the output of a walk that never ends is unbounded: it goes to /dev/null, only status and time are looked at
        try:
            pr = subprocess.run([util, "-" + cpu], input=(cmd + "\nquit\n").encode(), stdout=subprocess.DEVNULL, stderr=subprocess.PIPE,
                                env=nvlib.SAN_ENV, timeout=6, cwd=tmp)
            r = {"rc": pr.returncode, "out": "", "err": pr.stderr.decode("latin-1")}
        except subprocess.TimeoutExpired:
            r = {"rc": -999, "out": "", "err": "timeout"}
        orc["cases"] += 1
        c = classify(r)
        if c:
            fail(orc, "C17:hang:disasm-range-top:%s:%s" % (cpu, c), "naken_util -%s < %s" % (cpu, cmd), "the range is disassembled and the prompt returns",
                 c, "disasm of a range ending at the top of the address space never ends")
        else:
            stats["range-top-ended"] += 1

    readline_sessions(ctx, orc, stats)
    orc["stats"] = dict(sorted(stats.items()))
    orc["distinct_nontrivial"] = stats["proc-cmd-lines"] + stats.get("proc-load rc=0", 0)
    orc["samples"] = [{"input": "naken_util -%s < %s ..." % (cpus[0], scripts[(cpus[0], 0)][:4]), "observed": "exit 0"}]


def replay(ctx, rec):
    f = rec.get("failure") or {}
    line = f.get("replay_line")
    if line:
        a = ctx.impl([line])[0]
        return {"fails": a.startswith("DIED") or a.startswith("MISSING"), "line": line[:500], "impl": a[:1000]}
    return {"fails": False, "note": "process-level failure: the command line and stdin are in failure.input", "failure": f}
