"""C15 — every simulator survives every opcode from every state, deterministically (MSP430, tms1000, 8008, lc3, 6502, 1802, tms9900, ebpf modelled;
others explored)."""
import os, re
import nvlib, gen_msp430 as G, msp430_ref as R, gen_simx

ID = "C15"
LEAN_MODULES = ["NakenVerif.Props.C15"]
THEOREMS = [
    "NakenVerif.C15.exec_some",
    "NakenVerif.C15.step_no_fault",
    "NakenVerif.C15.step_deterministic",
    "NakenVerif.C15.step_returns",
    "NakenVerif.C15.writes_inside_address_space",
    "NakenVerif.C15.exec_wok",
    "NakenVerif.C15.pc_advance",
    "NakenVerif.C15.arch_pc_advance",
    "NakenVerif.Msp430.SimProofs.disLen_core",
    # further simulators (Props/C15Sim.lean)
    "NakenVerif.C15.tms1000_step_total_no_fault", "NakenVerif.C15.tms1000_invariant_established",
    "NakenVerif.C15.tms1000_run_no_fault", "NakenVerif.C15.tms1000_no_hidden_input",
    "NakenVerif.C15.tms1000_no_memory_write", "NakenVerif.C15.tms1000_pc_after_non_branching",
    "NakenVerif.C15.i8008_step_total_no_fault", "NakenVerif.C15.i8008_invariant_established",
    "NakenVerif.C15.i8008_run_no_fault", "NakenVerif.C15.i8008_no_hidden_input",
    "NakenVerif.C15.lc3_step_total_no_fault", "NakenVerif.C15.lc3_run_no_fault", "NakenVerif.C15.lc3_set_reg_no_fault",
    "NakenVerif.C15.lc3_stop_running_is_an_input",
    "NakenVerif.C15.m6502_step_total_no_fault", "NakenVerif.C15.m6502_invariant_established", "NakenVerif.C15.m6502_run_no_fault",
    "NakenVerif.C15.m6502_pc_after_non_branching", "NakenVerif.C15.m6502_stop_running_is_an_input",
    "NakenVerif.C15.c1802_step_total_no_fault", "NakenVerif.C15.c1802_invariant_established", "NakenVerif.C15.c1802_run_no_fault",
    "NakenVerif.C15.c1802_stop_running_is_an_input",
    "NakenVerif.C15.tms9900_step_total", "NakenVerif.C15.ebpf_step_total", "NakenVerif.C15.ebpf_set_reg_no_fault",
]
REG_NAME_PROBES = ["nosuchreg", "r", "r8", "r9", "r15", "r16", "r31", "r32", "r64", "r99", "r100", "r:", "rz", "r/", "R8", "x8",
                   "x31", "x32", "x99", "$0", "$31", "$32", "$99", "a0", "d8", "f32", "sp", "pc", "r-1", "w8", "r4294967296", "x4294967327", "r00000000008", "$-1", "x-1"]
STOP_CLEARED = ["tms1000", "8008"]          # run() starts with stop_running = false (f100_l too: not modelled yet)
SIMX_MODELLED = ["tms1000", "8008", "lc3", "6502", "1802", "tms9900", "ebpf"]   # simulators with a Lean step model tied by the `simx` stream
SIMULATORS = {   # cpu_list name -> register names accepted by its set_reg (a few), value mask
    "msp430": (["r4", "r5", "sp", "sr"], 0xffff), "1802": (["r0", "r1", "d"], 0xffff), "6502": (["a", "x", "y", "sp"], 0xff),
    "65816": (["a", "x", "y", "sp"], 0xffff), "8008": (["a", "b", "c"], 0xff), "avr8": (["r0", "r16", "r30"], 0xff),
    "ebpf": (["r0", "r1", "r10"], 0xffffffff), "f100_l": (["a"], 0xffff), "lc3": (["r0", "r1", "r7"], 0xffff),
    "mips": (["$1", "$2", "$29"], 0xffffffff), "riscv": (["x1", "x2", "x10"], 0xffffffff), "stm8": (["a", "x", "y", "sp"], 0xffff),
    "tms1000": (["a", "x", "y"], 0xffff), "tms9900": (["r0", "r1"], 0xffff), "z80": (["a", "b", "hl", "sp"], 0xffff),
}
RULE = ("msp430: the C14 `sim` stream (stratified over all opcode strata; all 65,536 first words in the thorough tier) run "
        "twice in separate processes; simx (tms1000, 8008, lc3, 6502, 1802, tms9900, ebpf): COMPLETE simulator state (every data member, the static "
        "stop_running, cycle_count, show) x first opcode byte exhaustive x sampled operands x boundary states (PC at the top of "
        "memory, SP at both ends of its stack, index registers 0 / max, RAM cells 0 / max), model against the real object; "
        "simstep: for each of the 15 simulators three fresh objects allocated from memory filled 0x00 / 0xff / 0x01 (uninitialised "
        "members), first opcode byte exhaustive in both byte positions, all registers at edge values, MIPS / RISC-V words field by "
        "field with every pair of {0, 1, -1, INT_MIN, INT_MAX} in the source registers, long runs of branches, 64- and 300-step "
        "runs, 1 in 16 with the constructor's break_io (forked), set_reg name probes; distinct = distinct lines; non-trivial = the "
        "step executed (return value 0).")
MODELLED = ("SimulateMsp430 (step, determinism, register-index safety, write set); disasm_msp430 length (table-driven model, exhaustive); "
            "SimulateTms1000, Simulate8008, SimulateLc3, Simulate6502, Simulate1802: one step of run(-1, 1) statement by statement over an explicit "
            "state with every C array access checked (ram[64], reg[8], stack[8], reg_r[16], the regenerated tms1000_* tables, "
            "table_6502_opcodes[256], disasm_6502 lengths[256]), reset / set_reg / set_pc / push, the static stop_running, "
            "break_io exit (6502); PC advance against the disassembler (tms1000 LFSR tables, 6502 disasm_6502 length); SimulateTms9900 and "
            "SimulateEbpf, which execute no instruction (tms9900: pc += 2, return 0 for a zero byte else -1; ebpf: 'CPU not supported')")
NOT_MODELLED = ("explored only by the sanitised three-object sweep, no model and no proof: 65816, avr8, f100_l, mips, riscv, stm8, "
                "z80.  In the modelled simulators: the display loop of "
                "show == true beyond its table indices and lengths, serial devices (init_serial), break_point other than -1, the "
                "auto-run loop (only msp430 has `simrun`), signed overflow of cycle_count after 2^31 cycles")
ASSUMPTIONS = ["pc_advance is proved for defined, non-branching instructions on the length model disLen, which is validated "
               "against the real disasm_msp430 on all 65,536 first words on every run",
               "writes_inside_address_space is proved for every state (after fixes 1402eee, d9b06ff)",
               "tms1000 / 8008 / 6502 safety is proved for states inside the invariant the simulator maintains (tms1000: nibble "
               "ranges; 8008: sp < 8; 6502: A, X, Y, SP in 0..255), which reset establishes and set_reg / set_pc / push / the step "
               "keep (proved); 1802: reg_p, reg_x < 16; lc3 needs no invariant",
               "the 6502 disassembler length is the regenerated table of disasm_6502's return value for each of the 256 first "
               "bytes (the translator calls the real function on every run)",
               "the step models are tied to the real objects by the simx stream only (differential, sampled operands)"]
TRUSTED_BASE = ["tools/msp430_ref.py length() (independent instruction-length function used by the pc_advance search)"]


def correspondence(ctx, corr):
    import props.C14 as C14
    cases, nstrata = C14.gen_cases(ctx)
    if not ctx.quick():
        cases = cases[::2]
    lines = [C14._line(c) for c in cases]
    h, d = ctx.both(lines)
    ctx.notes["cases"], ctx.notes["impl"], ctx.notes["lines"] = cases, h, lines
    for l, a, b in zip(lines, h, d):
        if a != b:
            corr["disagreements"].append({"line": l[:2000], "impl": a[:600], "model": b[:600]})
    corr["cases"] += len(lines)
    corr["streams"]["sim"] = {"lines": len(lines), "strata": nstrata}
    dl = C14._dislen_lines(ctx)
    h2, d2 = ctx.both(dl)
    for l, a, b in zip(dl, h2, d2):
        if a != b:
            corr["disagreements"].append({"line": l, "impl": a, "model": b})
    corr["cases"] += len(dl)
    corr["streams"]["dislen"] = {"lines": len(dl), "exhaustive_first_words": 65536}
    # simx: complete-state single steps of the further modelled simulators, model against the real object
    sx, sxinfo = simx_lines(ctx)
    h3, d3 = ctx.both(sx)
    ctx.notes["simx"] = (sx, h3)
    for l, a, b in zip(sx, h3, d3):
        if a != b:
            corr["disagreements"].append({"line": l[:2000], "impl": a[:600], "model": b[:600]})
    corr["cases"] += len(sx)
    corr["streams"]["simx"] = sxinfo
    corr["distinct_nontrivial"] = len(set(lines)) + len(set(sx))
    corr["samples"] = [{"line": lines[i][:300], "impl": h[i][:300], "model": d[i][:300]} for i in range(0, len(lines), max(1, len(lines) // 4))][:4]


QUICK_K = 1          # the streams of this module are sized for a quick tier of about a minute


def _sc(ctx, q, t):
    """quick: q (times the boost of check.py when an anchored file changed, never above t); thorough: exactly t"""
    return ctx.scale(q, t) if ctx.quick() else t


def simx_lines(ctx):
    """first opcode byte exhaustive x sampled operands x boundary states, per modelled simulator"""
    lines, info = [], {}
    per = _sc(ctx, 8, 48)
    for cpu in SIMX_MODELLED:
        ls, st = gen_simx.GENERATORS[cpu](ctx.rng, per)
        st["lines"] = len(ls)
        info[cpu] = st
        lines += ls
    return lines, info


def _norm_crash(a):
    a = re.sub(r"0x[0-9a-f]+", "ADDR", a)
    a = re.sub(r"index -?\d+ out", "index N out", a)
    for pat in (r"AddressSanitizer: [a-zA-Z-]+", r"runtime error: [^\n]*", r"timeout", r"rc=-?\d+"):
        m = re.search(pat, a)
        if m:
            return m.group(0).strip().replace(" ", "_")
    return a[:60].replace(" ", "_")


MIPS_REGS = ["$at", "$v0", "$v1", "$a0", "$a1", "$a2", "$a3", "$t0", "$t1", "$t2", "$t3", "$t4", "$t5", "$t6", "$t7", "$s0", "$s1",
             "$s2", "$s3", "$s4", "$s5", "$s6", "$s7", "$t8", "$t9", "$k0", "$k1", "$gp", "$sp", "$fp", "$ra"]      # $1 .. $31
# every register set_reg accepts (the sweep's `edge` stratum sets ALL of them), register width mask
FULLREGS = {
    "msp430": (["r%d" % i for i in range(4, 16)] + ["sp", "sr"], 0xffff),
    "1802": (["r%d" % i for i in range(16)] + ["d", "df", "t", "q", "x", "p"], 0xffff),
    "6502": (["a", "x", "y", "sp", "sr"], 0xff), "65816": (["a", "x", "y", "sp", "sr", "db", "pb"], 0xffff),
    "8008": (["a", "b", "c", "d", "e", "h", "l", "sp"], 0xff), "avr8": (["r%d" % i for i in range(32)] + ["sp"], 0xffff),
    "ebpf": (["r%d" % i for i in range(11)], 0xffffffff), "f100_l": (["a", "cr", "lsp"], 0xffff),
    "lc3": (["r%d" % i for i in range(8)], 0xffff), "mips": (MIPS_REGS, 0xffffffff),
    "riscv": (["x%d" % i for i in range(1, 32)], 0xffffffff), "stm8": (["a", "x", "y", "sp", "cc"], 0xffff),
    "tms1000": (["a", "x", "y", "r", "o", "k"], 0xffff), "tms9900": (["r%d" % i for i in range(16)], 0xffff),
    "z80": (["a", "f", "b", "c", "d", "e", "h", "l", "ix", "iy", "sp", "i", "r"], 0xffff),
}
EDGE_VALUES = [0, 1, 2, 0xff, 0xfe, 0x80, 0x7f, 0x100, 0x1ff, 0xffff, 0xfffe, 0x8000, 0x7fff, 0x10000, 0xffffffff, 0xfffffffe,
               0x80000000, 0x7fffffff]
ARITH5 = [0, 1, 0xffffffff, 0x80000000, 0x7fffffff]         # divisor 0 / -1, dividend INT_MIN ...
# size of the simulated address space in bytes of the shared Memory image (None: 32 bits, or no data in Memory):
# a non-zero cell at or above it that the case did not put there is a write outside the address space
ADDRESS_SPACE = {"msp430": 0x10000, "1802": 0x10000, "6502": 0x10000, "65816": 0x1000000, "8008": 0x10000, "avr8": None, "ebpf": None,
                 "f100_l": 0x20000, "lc3": 0x20000, "mips": None, "riscv": None, "stm8": 0x1000000, "tms1000": 0x800,
                 "tms9900": 0x10000, "z80": 0x10000}
BIG_ENDIAN = {"mips", "1802", "tms9900", "f100_l", "lc3"}


def _mem_runs(rng, cpu, pc, blob):
    """the instruction bytes at pc plus random bytes around 0, the 6502 stack page, and the top of 64 KiB (never at or
    above the address-space limit)"""
    lim = ADDRESS_SPACE.get(cpu) or 0x100000000
    runs = ["%x:%s" % (pc, blob.hex())]
    for a in (0x0, 0xf8, 0x1f8, 0xfff8, rng.choice([0x800, 0x8000, 0x7ff8, 0xff00])):
        n = 16 if a != 0xfff8 else 8
        if a + n <= lim and not (a <= pc < a + n) and not (a < pc + len(blob) <= a + n):
            runs.append("%x:%s" % (a, bytes(rng.getrandbits(8) for _ in range(n)).hex()))
    return ";".join(runs)


def _word32(cpu, w):
    return w.to_bytes(4, "big" if cpu in BIG_ENDIAN else "little")


def sweep_lines(ctx):
    rng = ctx.rng
    n = _sc(ctx, 400, 4000)
    lines = []
    for cpu in sorted(SIMULATORS):
        regs, mask = SIMULATORS[cpu]
        for i in range(n):
            pc = rng.choice([0, 0x100, 0x1000, 0xfffc, 0xf000, 0x200])
            first = bytes([i & 255, rng.getrandbits(8)]) if i < 256 else (bytes([rng.getrandbits(8), i & 255]) if i < 512 else
                                                                           bytes([rng.getrandbits(8), rng.getrandbits(8)]))
            blob = first + bytes(rng.getrandbits(8) for _ in range(14))
            runs = ["%x:%s" % (pc, blob.hex())]
            for _ in range(2):
                a = rng.choice([0, 0x80, 0x800, 0xff00, 0x1000, 0x10000 - 8])
                runs.append("%x:%s" % (a, bytes(rng.getrandbits(8) for _ in range(8)).hex()))
            rs = ",".join("%s=%x" % (r, rng.choice([0, 1, 0xff, 0xffff, 0x7fff, 0x8000, 0xffffffff, rng.getrandbits(16)]) & mask)
                          for r in regs)
            lines.append("simstep %s %x %s %s" % (cpu, pc, rs, ";".join(runs)))
    # edge stratum: first opcode byte (both byte positions) exhaustive, EVERY register at an edge value (0, 1, 0x7f.., 0x80.., 0xff..,
    # stack page ends, 64 KiB ends), PC at 0 / top of memory, operands random; the constructor's default break_io for 1 in 16
    m = _sc(ctx, 2, 8)
    for cpu in sorted(SIMULATORS):
        regs, mask = FULLREGS[cpu]
        for i in range(256 * m):
            b0 = i & 255
            pc = rng.choice([0, 0, 0xfff0, 0xfffe, 0xffff, 0x100, 0x8000])
            blob = (bytes([b0]) if (i >> 8) & 1 == 0 or cpu in ("mips", "riscv") else bytes([rng.getrandbits(8), b0])) + \
                bytes(rng.choice([0, 0xff, rng.getrandbits(8), rng.getrandbits(8)]) for _ in range(7))
            if cpu in BIG_ENDIAN and cpu not in ("1802",) and (i >> 8) & 1 == 1:
                blob = bytes([b0]) + blob[1:]
            rs = ",".join("%s=%x" % (r, rng.choice(EDGE_VALUES) & mask) for r in regs)
            lines.append("simstep %s %x %s %s%s" % (cpu, pc & 0xfffffffc if cpu in ("mips", "riscv") else pc, rs,
                                                    _mem_runs(rng, cpu, pc & 0xfffffffc if cpu in ("mips", "riscv") else pc, blob),
                                                    " default" if i % 16 == 7 else ""))
    # 32-bit instruction words, field by field: MIPS op/funct exhaustive, RISC-V opcode x funct3 x funct7 in {0, 1, 0x20, random};
    # the two source registers hold every pair of {0, 1, -1, INT_MIN, INT_MAX} (odd-numbered registers = A, even = B)
    pairs = [(a, b) for a in ARITH5 for b in ARITH5]
    for (a, b) in (pairs if not ctx.quick() else pairs[::2] + [(0x80000000, 0xffffffff), (1, 0)]):
        rs_m = ",".join("%s=%x" % (r, a if k % 2 == 0 else b) for k, r in enumerate(MIPS_REGS))       # $1 = A, $2 = B, ...
        rs_r = ",".join("x%d=%x" % (k, a if k % 2 == 1 else b) for k in range(1, 32))
        for funct in range(64):
            for op, rd in ((0, 0), (0, 3), (0x1c, 3)):           # div/mult have rd = 0
                w = (op << 26) | (1 << 21) | (2 << 16) | (rd << 11) | funct
                lines.append("simstep mips 1000 %s 1000:%s" % (rs_m, (_word32("mips", w) + bytes(8)).hex()))
        for f7 in (0, 1, 0x20, rng.getrandbits(7)):
            for f3 in range(8):
                for opc in (0x33, 0x3b, 0x13, 0x1b):
                    w = (f7 << 25) | (2 << 20) | (1 << 15) | (f3 << 12) | (3 << 7) | opc
                    lines.append("simstep riscv 1000 %s 1000:%s" % (rs_r, (_word32("riscv", w) + bytes(8)).hex()))
    for op in range(64):
        for k in range(_sc(ctx, 2, 8)):
            w = (op << 26) | rng.getrandbits(26)
            rs_m = ",".join("%s=%x" % (r, rng.choice(EDGE_VALUES)) for r in MIPS_REGS)
            lines.append("simstep mips 1000 %s 1000:%s" % (rs_m, (_word32("mips", w) + _word32("mips", rng.getrandbits(32)) * 2).hex()))
    for opc in range(128):
        for f3 in range(8):
            w = (rng.getrandbits(17) << 15) | (f3 << 12) | (rng.getrandbits(5) << 7) | opc
            rs_r = ",".join("x%d=%x" % (k, rng.choice(EDGE_VALUES)) for k in range(1, 32))
            lines.append("simstep riscv 1000 %s 1000:%s" % (rs_r, (_word32("riscv", w) + bytes(8)).hex()))
    # a long run of branches in delay slots / of the same opcode: nesting must stay bounded (MIPS delay slots)
    for cpu, word in (("mips", 0x08000000), ("mips", 0x10000000), ("mips", 0x0c000400)):
        lines.append("simstep %s 0 - 0:%s" % (cpu, (_word32(cpu, word) * _sc(ctx, 150000, 400000)).hex()))
    # state that only a history reaches (1802: the counter after 255 DTCs): several hundred steps, three differently filled objects
    lines.append("simstep 1802 0 d=1 0:%s - 300" % ("6801" * 300))
    for cpu in sorted(SIMULATORS):
        regs, mask = FULLREGS[cpu]
        for k in range(_sc(ctx, 4, 16)):
            blob = bytes(rng.getrandbits(8) for _ in range(256))
            rs = ",".join("%s=%x" % (r, rng.choice(EDGE_VALUES) & mask) for r in regs)
            lines.append("simstep %s 0 %s 0:%s - 64" % (cpu, rs, blob.hex()))
    # set_reg with a name the simulator does not know must be refused, not crash (and not index a register array
    # with the digits of the name: r8 / r16 / r32 / x32 / $32 ... one past each register file)
    for cpu in sorted(SIMULATORS):
        for name in REG_NAME_PROBES:
            lines.append("simstep %s 0 %s=1 0:0000000000000000" % (cpu, name))
    return lines


def oracle(ctx, orc, focus=None):
    import props.C14 as C14
    if "cases" in ctx.notes:
        cases, impl, lines = ctx.notes["cases"], ctx.notes["impl"], ctx.notes["lines"]
    else:
        cases, _ = C14.gen_cases(ctx)
        lines = [C14._line(c) for c in cases]
        impl = ctx.impl(lines)
    again = ctx.impl(lines)           # a second, separate set of processes: same answers
    stats = {"msp430_steps": len(lines), "executed": 0, "illegal": 0, "exit": 0, "pc_advance_checked": 0}
    for c, l, a, b in zip(cases, lines, impl, again):
        orc["cases"] += 1
        w, regs, cells, bio = c
        cl = G.classify(w)
        p = G.parse_answer(a)
        if a != b:
            orc["failures"].append({"sig": "C15:msp430:nondeterministic:%s" % cl[0], "input": l[:1500], "expected": a[:300],
                                    "observed": b[:300], "what": "two runs from the same state differ", "replay_line": l})
            continue
        if "exit" in p:
            stats["exit"] += 1
            if bio == "-" or (bio == "ffffffff"):
                kind = "ea-minus-one"
                orc["failures"].append({"sig": "C15:msp430:write-outside:%s" % kind, "input": l[:1500],
                                        "expected": "no write outside 0..0xffff", "observed": a,
                                        "what": "write to 0xffffffff hit the default break_io", "replay_line": l}) if bio != "-" else None
            continue
        if "regs" not in p:
            orc["failures"].append({"sig": "C15:msp430:crash:%s:%s" % (cl[0], _norm_crash(a)), "input": l[:1500],
                                    "expected": "executed / illegal / break", "observed": a[:300], "what": "step did not return",
                                    "replay_line": l})
            continue
        stats["illegal" if p["ret"] == -1 else "executed"] += 1
        outside = sorted(x for x in p["mem"] if x > 0xffff and x not in cells)
        if outside:
            kind = "ea-minus-one" if 0xffffffff in outside else "word-at-ffff"
            orc["failures"].append({"sig": "C15:msp430:write-outside:%s" % kind, "input": l[:1500],
                                    "expected": "no write outside 0..0xffff", "observed": ",".join("%x" % x for x in outside),
                                    "what": "memory outside the simulated address space written", "replay_line": l})
        # pc_advance on defined, non-branching instructions
        ref = R.arch_step(regs, {k: v for k, v in cells.items() if k <= 0xffff})
        if ref[0] == "ok" and p["ret"] == 0:
            branching = cl[0][0] == "J" or cl[0] in ("S5", "S6") or (cl[0][0] == "D" and cl[2] == 0 and (w & 15) == 0 and cl[0] not in ("D9", "Db")) \
                or (cl[0][0] == "S" and cl[1] == 0 and (w & 15) == 0)
            if not branching:
                stats["pc_advance_checked"] += 1
                if p["regs"][0] != (regs[0] + R.length(w)) & 0xffff:
                    orc["failures"].append({"sig": "C15:msp430:pc-advance:%s" % cl[0], "input": l[:1500],
                                            "expected": "%x" % ((regs[0] + R.length(w)) & 0xffff), "observed": "%x" % p["regs"][0],
                                            "what": "PC after a non-branching instruction", "replay_line": l})
    # the disassembler's length = the guide's length for every defined instruction word
    if "dislen" not in ctx.notes:
        dl = C14._dislen_lines(ctx)
        ctx.notes["dislen"] = list(zip(dl, ctx.impl(dl)))
    for l, a in ctx.notes["dislen"]:
        orc["cases"] += 1
        hx = l.split(" ")[3]
        w = int(hx[2:4] + hx[0:2], 16)
        cl = G.classify(w)
        core = cl[0][0] in "JD" or (cl[0][0] == "S" and cl[0] not in ("S6", "S7") and not (cl[3] == 1 and cl[0] in ("S1", "S3", "S5")))
        if core:
            m = re.match(r"len=(-?\d+)", a)
            if not m or int(m.group(1)) != R.length(w):
                orc["failures"].append({"sig": "C15:msp430:dislen:%s" % cl[0], "input": l, "expected": str(R.length(w)),
                                        "observed": a, "what": "disasm_msp430 length of a 16-bit core instruction"})
    # every simulator: sanitised, two fresh objects
    sl = sweep_lines(ctx)
    ans = nvlib.run_lines(ctx.harness, sl, timeout=900)
    per = {}
    for l, a in zip(sl, ans):
        orc["cases"] += 1
        cpu = l.split(" ")[1]
        st = per.setdefault(cpu, {"same": 0, "executed": 0, "failed": 0})
        if a.startswith("same"):
            st["same"] += 1
            if "ret=0" in a:
                st["executed"] += 1
            m = re.search(r"top=([0-9a-f]+)", a)
            lim = ADDRESS_SPACE.get(cpu)
            if m and lim is not None and int(m.group(1), 16) >= lim:
                st["failed"] += 1
                orc["failures"].append({"sig": "C15:simstep:%s:write-outside" % cpu, "input": l[:1500],
                                        "expected": "no non-zero cell at or above 0x%x" % lim, "observed": a[:200],
                                        "what": "memory outside the simulated address space written", "replay_line": l})
            continue
        if a.startswith("exit="):
            st["failed"] += 1
            orc["failures"].append({"sig": "C15:simstep:%s:exit-default-break-io" % cpu, "input": l[:1500],
                                    "expected": "step returns control", "observed": a[:200],
                                    "what": "the simulator called exit() although no break address was set", "replay_line": l})
            continue
        st["failed"] += 1
        if a.startswith("DIFF"):
            sig = "C15:simstep:%s:nondeterministic:%s" % (cpu, a.split(" ")[1])
            what = "two fresh simulator objects stepped from the same state differ"
        else:
            sig = "C15:simstep:%s:crash:%s" % (cpu, _norm_crash(a))
            what = "simulator step crashed / hung / sanitizer report"
        orc["failures"].append({"sig": sig, "input": l, "expected": "same result twice", "observed": a[:300], "what": what,
                                "replay_line": l})
    stats["simstep"] = per
    # modelled simulators, the property itself on the real code: the step returns, twice the same, the state stays inside the
    # simulator's invariant, nothing outside the address space is written
    if "simx" in ctx.notes:
        sx, first = ctx.notes["simx"]
    else:
        sx = simx_lines(ctx)[0]
        first = ctx.impl(sx)
    second = ctx.impl(sx)
    sxs = {}
    for l, a, b in zip(sx, first, second):
        orc["cases"] += 1
        cpu = l.split(" ")[1]
        st = sxs.setdefault(cpu, {"steps": 0, "executed": 0, "illegal": 0})
        st["steps"] += 1
        p = gen_simx.parse_answer(a)
        if p is None and a.startswith("exit=") and ",bio=" in l and a == b:
            st["break"] = st.get("break", 0) + 1          # the case armed break_io on the written address: exit() is the break outcome
            continue
        if p is None:
            orc["failures"].append({"sig": "C15:simx:%s:crash:%s" % (cpu, _norm_crash(a)), "input": l[:1500],
                                    "expected": "executed / illegal / break", "observed": a[:300],
                                    "what": "step from a complete state did not return", "replay_line": l})
            continue
        if a != b:
            orc["failures"].append({"sig": "C15:simx:%s:nondeterministic" % cpu, "input": l[:1500], "expected": a[:300],
                                    "observed": b[:300], "what": "two runs from the same complete state differ", "replay_line": l})
            continue
        ret, state, mem = p
        st["illegal" if ret == -1 else "executed"] += 1
        if ret not in (0, -1):
            orc["failures"].append({"sig": "C15:simx:%s:return-value" % cpu, "input": l[:1500], "expected": "0 or -1",
                                    "observed": str(ret), "what": "run(-1, 1) return value", "replay_line": l})
        bad = gen_simx.INVARIANT[cpu](state)
        if bad:
            orc["failures"].append({"sig": "C15:simx:%s:invariant:%s" % (cpu, "+".join(bad)), "input": l[:1500],
                                    "expected": "register ranges kept", "observed": a[:300],
                                    "what": "the step left the ranges the simulator's arrays rely on", "replay_line": l})
        given = set(int(c.split(":")[0], 16) for c in l.split(" ")[3].split(",")) if l.split(" ")[3] != "-" else set()
        outside = sorted(x for x in mem if x not in given and x >= gen_simx.MEM_LIMIT[cpu])
        if outside:
            orc["failures"].append({"sig": "C15:simx:%s:write-outside" % cpu, "input": l[:1500],
                                    "expected": "no write at or above 0x%x" % gen_simx.MEM_LIMIT[cpu],
                                    "observed": ",".join("%x" % x for x in outside),
                                    "what": "memory outside the simulated address space written", "replay_line": l})
    # simulators whose run() clears the static stop_running: a step must not depend on what an earlier run (HLT, Ctrl-C) left in it
    twins = [l for l in sx if l.split(" ")[1] in STOP_CLEARED and ",stop=1," in l]
    tw0 = [l.replace(",stop=1,", ",stop=0,") for l in twins]
    ta, tb = ctx.impl(twins), ctx.impl(tw0)
    for l, a, b in zip(twins, ta, tb):
        orc["cases"] += 1
        if a != b:
            cpu = l.split(" ")[1]
            orc["failures"].append({"sig": "C15:simx:%s:stale-stop-running" % cpu, "input": l[:1500], "expected": b[:300],
                                    "observed": a[:300], "what": "the step depends on the static stop_running left by an earlier run",
                                    "replay_line": l})
    stats["simx"] = sxs
    stats["stop_running_twins"] = len(twins)
    nvlib.log("C15 distinct failure signatures: " + ", ".join(sorted(set(f["sig"] for f in orc["failures"]))))
    stats["unmodelled_simulators"] = sorted(set(SIMULATORS) - {"msp430"} - set(SIMX_MODELLED))
    orc["stats"] = stats
    orc["distinct_nontrivial"] = stats["executed"] + sum(v["executed"] for v in per.values()) + \
        sum(v["executed"] for v in sxs.values())
    orc["samples"] = [{"line": sl[i][:200], "impl": ans[i][:120]} for i in range(0, len(sl), max(1, len(sl) // 5))][:5]


def replay(ctx, rec):
    f = rec.get("failure") or {}
    line = f.get("replay_line")
    if not line:
        return {"fails": False, "note": "no replay line recorded", "record": rec}
    a = ctx.impl([line])[0]
    b = ctx.impl([line])[0]
    fails = a != b or a.startswith("DIED") or a.startswith("DIFF") or any(int(x.split(":")[0], 16) > 0xffff for x in
                                                                          (G.parse_answer(a).get("mem") or {}).keys().__iter__().__class__ and [])
    if a.startswith("ret="):
        p = G.parse_answer(a)
        fails = fails or any(x > 0xffff for x in p["mem"])
    return {"fails": bool(fails), "line": line, "impl": a, "again": b}
