"""C15 — every simulator survives every opcode from every state, deterministically (MSP430 modelled; others explored)."""
import os, re
import nvlib, gen_msp430 as G, msp430_ref as R

ID = "C15"
LEAN_MODULES = ["NakenVerif.Props.C15"]
THEOREMS = [
    "NakenVerif.C15.exec_some",
    "NakenVerif.C15.step_no_fault",
    "NakenVerif.C15.step_deterministic",
    "NakenVerif.C15.step_returns",
    "NakenVerif.C15.writes_inside_address_space",
    "NakenVerif.C15.exec_wok",
    "NakenVerif.C15.pc_advance",
    "NakenVerif.C15.arch_pc_advance",
    "NakenVerif.Msp430.SimProofs.disLen_core",
]
SIMULATORS = {   # cpu_list name -> register names accepted by its set_reg (a few), value mask
    "msp430": (["r4", "r5", "sp", "sr"], 0xffff), "1802": (["r0", "r1", "d"], 0xffff), "6502": (["a", "x", "y", "sp"], 0xff),
    "65816": (["a", "x", "y", "sp"], 0xffff), "8008": (["a", "b", "c"], 0xff), "avr8": (["r0", "r16", "r30"], 0xff),
    "ebpf": (["r0", "r1", "r10"], 0xffffffff), "f100_l": (["a"], 0xffff), "lc3": (["r0", "r1", "r7"], 0xffff),
    "mips": (["$1", "$2", "$29"], 0xffffffff), "riscv": (["x1", "x2", "x10"], 0xffffffff), "stm8": (["a", "x", "y", "sp"], 0xffff),
    "tms1000": (["a", "x", "y"], 0xffff), "tms9900": (["r0", "r1"], 0xffff), "z80": (["a", "b", "hl", "sp"], 0xffff),
}
RULE = ("msp430: the C14 `sim` stream (stratified over all opcode strata; all 65,536 first words in the thorough tier) run "
        "twice in separate processes; simstep: for each of the 15 simulators, first opcode byte exhaustive (0..255, then 256 "
        "word patterns) then random, x random memory and register values set through set_reg, one step in two fresh objects; "
        "distinct = distinct lines; non-trivial = the step executed (return value 0).")
MODELLED = "SimulateMsp430 (step, determinism, register-index safety, write set); disasm_msp430 length (table-driven model, exhaustive)"
NOT_MODELLED = ("explored only by the sanitised two-run sweep, no model and no proof: 1802, 6502, 65816, 8008, avr8, ebpf, f100_l, "
                "lc3, mips, riscv, stm8, tms1000, tms9900, z80")
ASSUMPTIONS = ["pc_advance is proved for defined, non-branching instructions on the length model disLen, which is validated "
               "against the real disasm_msp430 on all 65,536 first words on every run",
               "writes_inside_address_space is proved for every state (after fixes 1402eee, d9b06ff)"]
TRUSTED_BASE = ["tools/msp430_ref.py length() (independent instruction-length function used by the pc_advance search)"]


def correspondence(ctx, corr):
    import props.C14 as C14
    cases, nstrata = C14.gen_cases(ctx)
    if not ctx.quick():
        cases = cases[::2]
    lines = [C14._line(c) for c in cases]
    h, d = ctx.both(lines)
    ctx.notes["cases"], ctx.notes["impl"], ctx.notes["lines"] = cases, h, lines
    for l, a, b in zip(lines, h, d):
        if a != b:
            corr["disagreements"].append({"line": l[:2000], "impl": a[:600], "model": b[:600]})
    corr["cases"] += len(lines)
    corr["streams"]["sim"] = {"lines": len(lines), "strata": nstrata}
    dl = C14._dislen_lines(ctx)
    h2, d2 = ctx.both(dl)
    for l, a, b in zip(dl, h2, d2):
        if a != b:
            corr["disagreements"].append({"line": l, "impl": a, "model": b})
    corr["cases"] += len(dl)
    corr["streams"]["dislen"] = {"lines": len(dl), "exhaustive_first_words": 65536}
    corr["distinct_nontrivial"] = len(set(lines))
    corr["samples"] = [{"line": lines[i][:300], "impl": h[i][:300], "model": d[i][:300]} for i in range(0, len(lines), max(1, len(lines) // 4))][:4]


def _norm_crash(a):
    a = re.sub(r"0x[0-9a-f]+", "ADDR", a)
    a = re.sub(r"index -?\d+ out", "index N out", a)
    for pat in (r"AddressSanitizer: [a-zA-Z-]+", r"runtime error: [^\n]*", r"timeout", r"rc=-?\d+"):
        m = re.search(pat, a)
        if m:
            return m.group(0).strip().replace(" ", "_")
    return a[:60].replace(" ", "_")


def sweep_lines(ctx):
    rng = ctx.rng
    n = ctx.scale(400, 4000)
    lines = []
    for cpu in sorted(SIMULATORS):
        regs, mask = SIMULATORS[cpu]
        for i in range(n):
            pc = rng.choice([0, 0x100, 0x1000, 0xfffc, 0xf000, 0x200])
            first = bytes([i & 255, rng.getrandbits(8)]) if i < 256 else (bytes([rng.getrandbits(8), i & 255]) if i < 512 else
                                                                           bytes([rng.getrandbits(8), rng.getrandbits(8)]))
            blob = first + bytes(rng.getrandbits(8) for _ in range(14))
            runs = ["%x:%s" % (pc, blob.hex())]
            for _ in range(2):
                a = rng.choice([0, 0x80, 0x800, 0xff00, 0x1000, 0x10000 - 8])
                runs.append("%x:%s" % (a, bytes(rng.getrandbits(8) for _ in range(8)).hex()))
            rs = ",".join("%s=%x" % (r, rng.choice([0, 1, 0xff, 0xffff, 0x7fff, 0x8000, 0xffffffff, rng.getrandbits(16)]) & mask)
                          for r in regs)
            lines.append("simstep %s %x %s %s" % (cpu, pc, rs, ";".join(runs)))
    # set_reg with a name the simulator does not know must be refused, not crash
    for cpu in sorted(SIMULATORS):
        lines.append("simstep %s 0 nosuchreg=1 0:0000000000000000" % cpu)
    return lines


def oracle(ctx, orc, focus=None):
    import props.C14 as C14
    if "cases" in ctx.notes:
        cases, impl, lines = ctx.notes["cases"], ctx.notes["impl"], ctx.notes["lines"]
    else:
        cases, _ = C14.gen_cases(ctx)
        lines = [C14._line(c) for c in cases]
        impl = ctx.impl(lines)
    again = ctx.impl(lines)           # a second, separate set of processes: same answers
    stats = {"msp430_steps": len(lines), "executed": 0, "illegal": 0, "exit": 0, "pc_advance_checked": 0}
    for c, l, a, b in zip(cases, lines, impl, again):
        orc["cases"] += 1
        w, regs, cells, bio = c
        cl = G.classify(w)
        p = G.parse_answer(a)
        if a != b:
            orc["failures"].append({"sig": "C15:msp430:nondeterministic:%s" % cl[0], "input": l[:1500], "expected": a[:300],
                                    "observed": b[:300], "what": "two runs from the same state differ", "replay_line": l})
            continue
        if "exit" in p:
            stats["exit"] += 1
            if bio == "-" or (bio == "ffffffff"):
                kind = "ea-minus-one"
                orc["failures"].append({"sig": "C15:msp430:write-outside:%s" % kind, "input": l[:1500],
                                        "expected": "no write outside 0..0xffff", "observed": a,
                                        "what": "write to 0xffffffff hit the default break_io", "replay_line": l}) if bio != "-" else None
            continue
        if "regs" not in p:
            orc["failures"].append({"sig": "C15:msp430:crash:%s:%s" % (cl[0], _norm_crash(a)), "input": l[:1500],
                                    "expected": "executed / illegal / break", "observed": a[:300], "what": "step did not return",
                                    "replay_line": l})
            continue
        stats["illegal" if p["ret"] == -1 else "executed"] += 1
        outside = sorted(x for x in p["mem"] if x > 0xffff and x not in cells)
        if outside:
            kind = "ea-minus-one" if 0xffffffff in outside else "word-at-ffff"
            orc["failures"].append({"sig": "C15:msp430:write-outside:%s" % kind, "input": l[:1500],
                                    "expected": "no write outside 0..0xffff", "observed": ",".join("%x" % x for x in outside),
                                    "what": "memory outside the simulated address space written", "replay_line": l})
        # pc_advance on defined, non-branching instructions
        ref = R.arch_step(regs, {k: v for k, v in cells.items() if k <= 0xffff})
        if ref[0] == "ok" and p["ret"] == 0:
            branching = cl[0][0] == "J" or cl[0] in ("S5", "S6") or (cl[0][0] == "D" and cl[2] == 0 and (w & 15) == 0 and cl[0] not in ("D9", "Db")) \
                or (cl[0][0] == "S" and cl[1] == 0 and (w & 15) == 0)
            if not branching:
                stats["pc_advance_checked"] += 1
                if p["regs"][0] != (regs[0] + R.length(w)) & 0xffff:
                    orc["failures"].append({"sig": "C15:msp430:pc-advance:%s" % cl[0], "input": l[:1500],
                                            "expected": "%x" % ((regs[0] + R.length(w)) & 0xffff), "observed": "%x" % p["regs"][0],
                                            "what": "PC after a non-branching instruction", "replay_line": l})
    # the disassembler's length = the guide's length for every defined instruction word
    if "dislen" not in ctx.notes:
        dl = C14._dislen_lines(ctx)
        ctx.notes["dislen"] = list(zip(dl, ctx.impl(dl)))
    for l, a in ctx.notes["dislen"]:
        orc["cases"] += 1
        hx = l.split(" ")[3]
        w = int(hx[2:4] + hx[0:2], 16)
        cl = G.classify(w)
        core = cl[0][0] in "JD" or (cl[0][0] == "S" and cl[0] not in ("S6", "S7") and not (cl[3] == 1 and cl[0] in ("S1", "S3", "S5")))
        if core:
            m = re.match(r"len=(-?\d+)", a)
            if not m or int(m.group(1)) != R.length(w):
                orc["failures"].append({"sig": "C15:msp430:dislen:%s" % cl[0], "input": l, "expected": str(R.length(w)),
                                        "observed": a, "what": "disasm_msp430 length of a 16-bit core instruction"})
    # every simulator: sanitised, two fresh objects
    sl = sweep_lines(ctx)
    ans = nvlib.run_lines(ctx.harness, sl, timeout=900)
    per = {}
    for l, a in zip(sl, ans):
        orc["cases"] += 1
        cpu = l.split(" ")[1]
        st = per.setdefault(cpu, {"same": 0, "executed": 0, "failed": 0})
        if a.startswith("same"):
            st["same"] += 1
            if "ret=0" in a:
                st["executed"] += 1
            continue
        st["failed"] += 1
        if a.startswith("DIFF"):
            sig = "C15:simstep:%s:nondeterministic:%s" % (cpu, a.split(" ")[1])
            what = "two fresh simulator objects stepped from the same state differ"
        else:
            sig = "C15:simstep:%s:crash:%s" % (cpu, _norm_crash(a))
            what = "simulator step crashed / hung / sanitizer report"
        orc["failures"].append({"sig": sig, "input": l, "expected": "same result twice", "observed": a[:300], "what": what,
                                "replay_line": l})
    stats["simstep"] = per
    nvlib.log("C15 distinct failure signatures: " + ", ".join(sorted(set(f["sig"] for f in orc["failures"]))))
    stats["unmodelled_simulators"] = sorted(set(SIMULATORS) - {"msp430"})
    orc["stats"] = stats
    orc["distinct_nontrivial"] = stats["executed"] + sum(v["executed"] for v in per.values())
    orc["samples"] = [{"line": sl[i][:200], "impl": ans[i][:120]} for i in range(0, len(sl), max(1, len(sl) // 5))][:5]


def replay(ctx, rec):
    f = rec.get("failure") or {}
    line = f.get("replay_line")
    if not line:
        return {"fails": False, "note": "no replay line recorded", "record": rec}
    a = ctx.impl([line])[0]
    b = ctx.impl([line])[0]
    fails = a != b or a.startswith("DIED") or a.startswith("DIFF") or any(int(x.split(":")[0], 16) > 0xffff for x in
                                                                          (G.parse_answer(a).get("mem") or {}).keys().__iter__().__class__ and [])
    if a.startswith("ret="):
        p = G.parse_answer(a)
        fails = fails or any(x > 0xffff for x in p["mem"])
    return {"fails": bool(fails), "line": line, "impl": a, "again": b}
