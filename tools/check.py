#!/usr/bin/env python3
"""Entry point of every check:  tools/check.py <ID> --tier quick|thorough [--replay <file>]

One run: rebuild /repo's working tree (sanitised), re-run the translator, lake build the
property's theorems, audit them, run the model/implementation correspondence, run the
property oracle against the real implementation, decide, write evidence.
See DESIGN.md sections 3 and 6.
"""
import argparse, importlib, json, os, sys, time, traceback

sys.path.insert(0, os.path.dirname(os.path.abspath(__file__)))
import nvlib
from nvlib import VERIF, log


# quick-tier multiplier of the stream sizes written in the property modules (they were sized for ~10 s checks;
# the budget of a quick check is a few minutes)
QUICK_K = int(os.environ.get("NV_QUICK_SCALE", "3"))
# thorough-tier multiplier (the sizes in the modules give ~20 s runs; the thorough budget is tens of minutes)
THOROUGH_K = int(os.environ.get("NV_THOROUGH_SCALE", "8"))


class Ctx:
    def __init__(self, prop, tier, seed):
        self.prop, self.tier, self.seed = prop, tier, seed
        self.rng = nvlib.Rng(seed * 1000003 + sum(map(ord, prop)))
        self.repo = None
        self.harness = None
        self.driver = None
        self.notes = {}
        self.boost = False
        self.quick_k = QUICK_K
        self.thorough_k = THOROUGH_K
        self.tmp = os.path.join(nvlib.BUILD, "tmp", "%s_%d" % (prop, os.getpid()))

    def quick(self):
        return self.tier == "quick"

    def scale(self, q, t):
        """case count of a stream: q x QUICK_K in the quick tier (never above t), t in the thorough tier.  When a file
        the property is anchored in differs from the tree the models were written for (self.boost), the quick tier
        spends three times more again."""
        if self.tier != "quick":
            if isinstance(t, (int, float)) and isinstance(q, (int, float)) and t > q:
                return type(t)(t * self.thorough_k)
            return t
        if isinstance(q, (int, float)) and isinstance(t, (int, float)) and t > q:
            k = self.quick_k * (3 if self.boost else 1)
            return type(q)(min(t * self.thorough_k, k * q))
        return q

    def tmpdir(self):
        os.makedirs(self.tmp, exist_ok=True)
        return self.tmp

    def both(self, lines):
        """Run protocol lines through the real-code harness and the Lean driver."""
        h = nvlib.run_lines(self.harness, lines)
        d = nvlib.run_lines(self.driver, lines, env=dict(os.environ))
        return h, d

    def impl(self, lines):
        return nvlib.run_lines(self.harness, lines)

    def model(self, lines):
        return nvlib.run_lines(self.driver, lines, env=dict(os.environ))


def violation(prop, replay_obj, name, no_input=False):
    d = os.path.join(VERIF, "replay", prop)
    os.makedirs(d, exist_ok=True)
    path = os.path.join(d, "%s.json" % name)
    nvlib.write_json(path, replay_obj)
    print("VIOLATION property=%s replay=%s%s" % (prop, path, " no-failing-input-found" if no_input else ""), flush=True)
    return path


def main():
    ap = argparse.ArgumentParser()
    ap.add_argument("prop")
    ap.add_argument("--tier", default=os.environ.get("VERIF_TIER", "quick"), choices=["quick", "thorough"])
    ap.add_argument("--replay")
    ap.add_argument("--skip-lean", action="store_true", help="development only: skip lake build/audit")
    a = ap.parse_args()
    prop = a.prop
    mod = importlib.import_module("props." + prop)
    seed = nvlib.seed_from_env()
    ctx = Ctx(prop, a.tier, seed)
    ctx.thorough_k = int(os.environ.get("NV_THOROUGH_SCALE", getattr(mod, "THOROUGH_K", THOROUGH_K)))
    ctx.quick_k = int(os.environ.get("NV_QUICK_SCALE", getattr(mod, "QUICK_K", QUICK_K)))   # a module sized for minutes sets QUICK_K = 1
    t0 = time.time()
    broken = []      # broken obligations (proof / audit / correspondence)
    info = {"phases": {}}

    # 1. rebuild from the working tree
    try:
        ctx.repo = nvlib.build_repo()
        ctx.harness = nvlib.build_tool("nv_harness", ["nv_harness.cpp"], ctx.repo)
        info["phases"]["build_s"] = round(time.time() - t0, 1)
        # 2. translate
        tr = nvlib.run_translator(ctx.repo)
        info["translator"] = tr
        changed = nvlib.anchors_changed(prop)
        info["anchors_changed"] = changed
        if changed:
            ctx.boost = True
            log("%s: %d anchor file(s) differ from the tree the models follow (%s%s): quick-tier streams are enlarged" % (
                prop, len(changed), ", ".join(changed[:4]), " ..." if len(changed) > 4 else ""))
    except nvlib.BuildError as e:
        log(str(e))
        print("CHECK-ERROR property=%s cannot build /repo working tree: %s" % (prop, str(e).split("\n")[0]))
        return 2

    # 3. prove
    theorems = list(getattr(mod, "THEOREMS", []))
    modules = list(getattr(mod, "LEAN_MODULES", []))
    t1 = time.time()
    if not a.skip_lean:
        lb = nvlib.lake_build(modules + ["nvdriver"])
        info["phases"]["lake_s"] = round(lb["wall"], 1)
        if not lb["ok"]:
            where = nvlib.failing_decls(lb["log"])
            log(lb["log"][-6000:])
            broken.append({"kind": "proof", "what": "lake build failed", "where": where,
                           "log_tail": lb["log"][-3000:]})
        # 4. audit
        if lb["ok"]:
            au = nvlib.audit(modules, theorems)
            info["axioms"] = au["axioms"]
            info["closure"] = au["closure"]
            for p in au["problems"]:
                broken.append({"kind": "audit", "what": p})
            if a.tier == "thorough" and not au["problems"]:
                for m in modules:
                    ok, out = nvlib.leanchecker(m)
                    info.setdefault("leanchecker", {})[m] = ok
                    if not ok:
                        broken.append({"kind": "audit", "what": "leanchecker rejected " + m, "log_tail": out})
    ctx.driver = nvlib.driver_path()
    driver_ok = os.path.exists(ctx.driver) and not any(b["kind"] == "proof" for b in broken)
    if not driver_ok and os.path.exists(ctx.driver):
        # the driver may still be usable (built before the failing module); try to build it alone
        lb2 = nvlib.lake_build(["nvdriver"])
        driver_ok = lb2["ok"]
    info["phases"]["prove_s"] = round(time.time() - t1, 1)

    if a.replay:
        rec = json.load(open(a.replay))
        res = mod.replay(ctx, rec) if hasattr(mod, "replay") else generic_replay(ctx, rec)
        print(json.dumps(res, indent=1))
        return 1 if res.get("fails") else 0

    # 5. correspondence
    t2 = time.time()
    corr = {"cases": 0, "disagreements": [], "streams": {}}
    if driver_ok and hasattr(mod, "correspondence"):
        try:
            mod.correspondence(ctx, corr)
        except Exception as e:
            traceback.print_exc()
            broken.append({"kind": "correspondence", "what": "correspondence run crashed: %r" % (e,)})
    elif hasattr(mod, "correspondence"):
        broken.append({"kind": "correspondence", "what": "model driver unavailable (build failed)"})
    for d in corr["disagreements"][:20]:
        broken.append({"kind": "correspondence", "what": "model and implementation differ", **d})
    info["phases"]["correspond_s"] = round(time.time() - t2, 1)

    # 6. property oracle on the real implementation (search + known findings)
    t3 = time.time()
    orc = {"cases": 0, "failures": [], "stats": {}}
    try:
        mod.oracle(ctx, orc, focus=broken)
    except Exception as e:
        traceback.print_exc()
        broken.append({"kind": "oracle", "what": "oracle run crashed: %r" % (e,)})
    info["phases"]["oracle_s"] = round(time.time() - t3, 1)

    known = nvlib.load_known(prop)
    import re
    unlisted, listed = [], {}
    for f in orc["failures"]:
        hit = None
        for k in known:
            if k.get("state") != "finding":
                continue
            if re.fullmatch(k["match"], f["sig"]):
                hit = k
                break
        if hit:
            listed.setdefault(hit["id"], (hit, f))
        else:
            unlisted.append(f)

    rc = 0
    for kid, (k, f) in sorted(listed.items()):
        print("KNOWN-FINDING: property=%s %s [%s]" % (prop, k["what"], kid), flush=True)
    nviol = 0
    seen_sig = set()
    for f in unlisted:
        if f["sig"] in seen_sig:
            continue
        seen_sig.add(f["sig"])
        nviol += 1
        if nviol <= 5:
            name = "fail_" + nvlib.sha(f["sig"].encode())[:12]
            violation(prop, {"property": prop, "kind": "oracle", "seed": seed, "tier": a.tier,
                             "failure": f, "broken_obligations": broken[:5]}, name)
        rc = 1
    if rc == 0 and broken:
        name = "broken_" + nvlib.sha(json.dumps(broken[0], sort_keys=True).encode())[:12]
        violation(prop, {"property": prop, "kind": "broken-obligation", "seed": seed, "tier": a.tier,
                         "obligations": broken[:10],
                         "note": "no input was found on which the property itself fails; the named "
                                 "theorem / correspondence no longer checks"}, name, no_input=True)
        nviol += 1
        rc = 1

    # 7. evidence
    wall = time.time() - t0
    nob = len(theorems) + len(info.get("translator", {}).get("files", [])) * 0
    discharged = len([t for t in theorems if t in info.get("axioms", {})]) if not any(
        b["kind"] in ("proof",) for b in broken) else 0
    cov = {
        "obligations": max(1, len(theorems)),
        "discharged": discharged,
        "checker_cmd": "cd lean && lake build %s nvdriver && lake env lean <#print axioms of each theorem>%s" % (
            " ".join(modules), " && lake env leanchecker <module>" if a.tier == "thorough" else ""),
        "trusted_base": getattr(mod, "TRUSTED_BASE", []) + [
            "Lean 4 kernel", "axioms per theorem listed under 'axioms'",
            "hand-written implementation model, tied to /repo by the correspondence streams counted here",
            "translator harness/nv_dump.cpp (tables/constants re-emitted from the working tree on this run)",
            "harness/nv_harness.cpp, tools/*.py, g++, ASan/UBSan"],
        "theorems": theorems,
        "axioms": info.get("axioms", {}),
        "evaluations": corr["cases"] + orc["cases"],
        "correspondence_cases": corr["cases"],
        "correspondence_streams": corr["streams"],
        "oracle_cases": orc["cases"],
        "oracle_stats": orc["stats"],
        "distinct_nontrivial": corr.get("distinct_nontrivial", 0) + orc.get("distinct_nontrivial", 0),
        "rule": getattr(mod, "RULE", ""),
        "samples": (corr.get("samples", []) + orc.get("samples", []))[:12] or ["(none)"],
        "known_findings_reproduced": sorted(listed),
        "broken_obligations": broken[:10],
        "modelled": getattr(mod, "MODELLED", ""),
        "not_modelled": getattr(mod, "NOT_MODELLED", ""),
        "phases": info["phases"],
        "translator_files": info.get("translator", {}).get("files", []),
        "leanchecker": info.get("leanchecker", {}),
        "anchor_files_changed": info.get("anchors_changed", []),
    }
    if discharged == 0:
        # broken proof: keep the evidence schema-valid through the generic keys
        cov["discharged_count"] = cov.pop("discharged")
    ev = {"property_id": prop, "tier": a.tier, "seed": seed, "level": "proof", "coverage": cov,
          "assumptions": getattr(mod, "ASSUMPTIONS", []), "wall_s": round(wall, 1), "violations": nviol}
    # runs against a seeded change (tools/run_seeded.py) must not overwrite the evidence of the real tree
    evdir = os.environ.get("NV_EVIDENCE_DIR") or os.path.join(VERIF, "evidence")
    nvlib.write_json(os.path.join(evdir, prop + ".json"), ev)
    import shutil
    shutil.rmtree(ctx.tmp, ignore_errors=True)
    log("%s %s: %s in %.0fs (corr %d, oracle %d, known %d)" % (prop, a.tier, "OK" if rc == 0 else "VIOLATION",
                                                             wall, corr["cases"], orc["cases"], len(listed)))
    return rc


def generic_replay(ctx, rec):
    out = {"fails": False}
    if rec.get("kind") == "oracle":
        out["note"] = "module has no replay(); failure record follows"
        out["failure"] = rec.get("failure")
    return out


if __name__ == "__main__":
    sys.exit(main())
