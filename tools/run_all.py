#!/usr/bin/env python3
"""run every check registered in MANIFEST.json (quick tier by default) and print a summary"""
import json, subprocess, sys, time, os
tier = sys.argv[1] if len(sys.argv) > 1 else "quick"
HERE = os.path.dirname(os.path.dirname(os.path.abspath(__file__)))
m = json.load(open(os.path.join(HERE, "MANIFEST.json")))
only = [a for a in sys.argv[2:]]
bad = 0
for c in m["checks"]:
    if only and c["property_id"] not in only:
        continue
    cmd = c["quick_cmd"] if tier == "quick" else c.get("thorough_cmd", c["quick_cmd"])
    t0 = time.time()
    r = subprocess.run(cmd, shell=True, cwd=HERE, stdout=subprocess.PIPE, stderr=subprocess.STDOUT, env=dict(os.environ))
    out = r.stdout.decode(errors="replace")
    viol = [l for l in out.split("\n") if l.startswith("VIOLATION")]
    known = len([l for l in out.split("\n") if l.startswith("KNOWN-FINDING")])
    print("%-4s exit=%d violations=%d known=%d %5.0fs %s" % (c["property_id"], r.returncode, len(viol), known, time.time() - t0, viol[0][:90] if viol else ""), flush=True)
    bad += r.returncode != 0
sys.exit(1 if bad else 0)
