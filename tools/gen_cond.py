"""Generators and the reference semantics for C10 (conditional assembly).

Everything here is written from the property text: condition grammar
  or := and ('||' and)* ; and := cmp ('&&' cmp)* ; cmp := un (('=='|'<'|'>'|'<='|'>=') un)*
  un := '!' un | '(' or ')' | number | name | 'defined' '(' name ')'
32-bit signed values, comparisons and logic yield 0/1, truth = non-zero; block structure
  block := statement | if-line block* ['.else' block*] '.endif'
"""

CMP = ["==", ">=", "<=", ">", "<"]
OPS = CMP + ["||", "&&"]
LEVEL = {"||": 0, "&&": 1, "==": 2, ">=": 2, "<=": 2, ">": 2, "<": 2}
M32 = (1 << 32) - 1


def s32(v):
    v &= M32
    return v - (1 << 32) if v >> 31 else v


class Malformed(Exception):
    def __init__(self, kind):
        Exception.__init__(self, kind)
        self.kind = kind


# ---------------------------------------------------------------------------
# condition trees
# ---------------------------------------------------------------------------

def apply_op(op, a, b):
    if op == "==": return int(a == b)
    if op == ">=": return int(a >= b)
    if op == "<=": return int(a <= b)
    if op == ">": return int(a > b)
    if op == "<": return int(a < b)
    if op == "||": return int(a != 0 or b != 0)
    if op == "&&": return int(a != 0 and b != 0)
    raise ValueError(op)


def tree_eval(t, env):
    """env: name -> ('num', v) | ('text',) | ('sym', v); returns signed value or None (no value)"""
    k = t[0]
    if k == "num": return s32(t[1])
    if k == "name":
        e = env.get(t[1])
        if e is None or e[0] == "text": return None
        return s32(e[1])
    if k == "defined": return int(t[1] in env)
    if k == "not":
        v = tree_eval(t[1], env)
        return None if v is None else int(v == 0)
    if k == "paren": return tree_eval(t[1], env)
    a, b = tree_eval(t[2], env), tree_eval(t[3], env)
    if a is None or b is None: return None
    return apply_op(t[1], a, b)


def level(t):
    return LEVEL[t[1]] if t[0] == "bin" else 3


def render(t):
    k = t[0]
    if k == "num": return [str(t[1])]
    if k == "name": return [t[1]]
    if k == "defined": return ["defined", "(", t[1], ")"]
    if k == "not":
        inner = render(t[1])
        return ["!"] + (["("] + inner + [")"] if t[1][0] == "bin" else inner)
    if k == "paren": return ["("] + render(t[1]) + [")"]
    op, l, r = t[1], t[2], t[3]
    ls = render(l) if level(l) >= LEVEL[op] else ["("] + render(l) + [")"]
    rs = render(r) if level(r) > LEVEL[op] else ["("] + render(r) + [")"]
    return ls + [op] + rs


def gen_tree(rng, depth, names, nums, ops=None):
    ops = ops or OPS
    if depth <= 0 or rng.random() < 0.25:
        c = rng.random()
        if c < 0.5 or not names: return ("num", rng.choice(nums))
        if c < 0.8: return ("name", rng.choice(names))
        return ("defined", rng.choice(names + ["UNDEF1"]))
    c = rng.random()
    if c < 0.12: return ("not", gen_tree(rng, depth - 1, names, nums, ops))
    if c < 0.22: return ("paren", gen_tree(rng, depth - 1, names, nums, ops))
    return ("bin", rng.choice(ops), gen_tree(rng, depth - 1, names, nums, ops), gen_tree(rng, depth - 1, names, nums, ops))


def is_name(tok):
    return (tok[0].isalpha() or tok[0] == "_") and tok.lower() != "defined"


def parse_tokens(toks):
    """reference parser (precedence climbing); returns a tree or raises Malformed(kind)"""
    pos = [0]

    def peek():
        return toks[pos[0]] if pos[0] < len(toks) else None

    def unary():
        t = peek()
        if t is None: raise Malformed("operand-expected:eol")
        pos[0] += 1
        if t == "!": return ("not", unary())
        if t == "(":
            e = expr(0)
            if peek() != ")": raise Malformed("unclosed-paren")
            pos[0] += 1
            return ("paren", e)
        if t.isdigit(): return ("num", int(t))
        if t.lower() == "defined":
            if peek() != "(": raise Malformed("defined-syntax")
            pos[0] += 1
            n = peek()
            if n is None or not is_name(n): raise Malformed("defined-non-name")
            pos[0] += 1
            if peek() != ")": raise Malformed("defined-syntax")
            pos[0] += 1
            return ("defined", n)
        if is_name(t): return ("name", t)
        raise Malformed("operand-expected:" + ("op" if t in OPS else "paren" if t == ")" else "other"))

    def expr(minlevel):
        left = unary()
        while True:
            t = peek()
            if t in LEVEL and LEVEL[t] >= minlevel:
                pos[0] += 1
                right = expr(LEVEL[t] + 1)
                left = ("bin", t, left, right)
            else:
                return left

    e = expr(0)
    if pos[0] != len(toks):
        raise Malformed("trailing:" + ("paren" if toks[pos[0]] == ")" else "other"))
    return e


# ---------------------------------------------------------------------------
# block programs
# ---------------------------------------------------------------------------
# node: ("db", n) | ("lab", name) | ("def", name, value) | ("bad", text) | ("noise", text)
#       | ("mac", name, n) | ("inv", name)
#       | ("if", guard, then_nodes, else_nodes_or_None)      guard: ("cond", toks) | ("ifdef", name) | ("ifndef", name)

class Prog:
    def __init__(self):
        self.nodes = []


def flatten(nodes):
    """-> list of lines: ("stmt", node) | ("if", guard) | ("else",) | ("endif",)"""
    out = []
    for n in nodes:
        if n[0] == "if":
            out.append(("if", n[1]))
            out += flatten(n[2])
            if n[3] is not None:
                out.append(("else",))
                out += flatten(n[3])
            out.append(("endif",))
        else:
            out.append(("stmt", n))
    return out


def reparse(lines):
    """lines -> nodes, or raises Malformed(reason, index)"""
    stack = [[[], None, None]]     # [current list, guard, then-list when in else]
    for i, l in enumerate(lines):
        if l[0] == "stmt":
            stack[-1][0].append(l[1])
        elif l[0] == "if":
            stack.append([[], l[1], None])
        elif l[0] == "else":
            if len(stack) == 1: raise Malformed("stray-else@%d" % i)
            if stack[-1][2] is not None: raise Malformed("second-else@%d" % i)
            stack[-1][2] = stack[-1][0]
            stack[-1][0] = []
        elif l[0] == "endif":
            if len(stack) == 1: raise Malformed("stray-endif@%d" % i)
            cur, g, thn = stack.pop()
            node = ("if", g, cur, None) if thn is None else ("if", g, thn, cur)
            stack[-1][0].append(node)
    if len(stack) != 1: raise Malformed("missing-endif@%d" % len(lines))
    return stack[0][0]


def guard_value(g, env):
    """True/False, or None when the condition has no value"""
    if g[0] in ("ifdef", "ifndef") and not g[1]: return "malformed:no-label"
    if g[0] == "ifdef": return g[1] in env
    if g[0] == "ifndef": return g[1] not in env
    if any(t.isdigit() and int(t) > 0x7fffffff for t in g[1]): return "unjudged"
    try:
        t = parse_tokens(g[1])
    except Malformed as m:
        return "malformed:" + m.kind
    v = tree_eval(t, env)
    return None if v is None else v != 0


def cond_class(toks):
    """known-defect feature of a condition, used to attribute a failure"""
    if "<=" in toks or ">=" in toks: return "le-ge"
    if any(a == "!" and b == "!" for a, b in zip(toks, toks[1:])): return "double-not"
    return "other"


class RefState:
    def __init__(self):
        self.env = {}          # name -> ('num', v) | ('text',) | ('sym', addr)
        self.macros = {}       # name -> byte
        self.out = []
        self.syms = []
        self.error = None
        self.unjudged = False   # e.g. a redefinition: reported by the assembler, but not a C10 matter
        self.taken_any = False
        self.classes = set()    # known-defect features of the conditions that were evaluated


def ref_run(nodes, st):
    """reference semantics: executes exactly the selected statements"""
    for n in nodes:
        if st.error or st.unjudged: return
        k = n[0]
        if k == "db": st.out.append(n[1] & 255)
        elif k == "lab":
            if n[1] in st.env: st.unjudged = True; return
            st.env[n[1]] = ("sym", len(st.out)); st.syms.append((n[1], len(st.out)))
        elif k == "def":
            if n[1] in st.env: st.unjudged = True; return
            st.env[n[1]] = ("num", int(n[2])) if n[2].isdigit() else ("text",)
        elif k == "mac":
            st.env[n[1]] = ("text",); st.macros[n[1]] = n[2]
        elif k == "inv":
            if n[1] not in st.macros: st.error = "unknown macro " + n[1]; return
            st.out.append(st.macros[n[1]])
        elif k == "bad" and n[1] == BAD_TEXTS[0]:
            st.error = "bad statement selected"; return
        elif k in ("bad", "noise"):
            st.unjudged = True; return      # what these do when selected is not a C10 matter
        elif k == "if":
            v = guard_value(n[1], st.env)
            if n[1][0] == "cond": st.classes.add(cond_class(n[1][1]))
            if v == "unjudged": st.unjudged = True; return
            if v is None: st.error = "condition without value"; return
            if isinstance(v, str): st.error = v; return
            if v:
                st.taken_any = True
                ref_run(n[2], st)
            elif n[3] is not None:
                st.taken_any = True
                ref_run(n[3], st)


def leak_before(lines, upto):
    """Has some branch been assembled (taken) strictly before line `upto`, judged on the prefix
    by the reference semantics?  (the code's ifdef_count is then no longer exact)"""
    env = {}
    nout = 0
    stack = []      # per open conditional: [parent_active, value]
    active = True
    leak = False
    for l in lines[:upto]:
        if l[0] == "stmt":
            n = l[1]
            if not active: continue
            if n[0] == "db" or n[0] == "inv": nout += 1
            elif n[0] == "lab": env.setdefault(n[1], ("sym", nout))
            elif n[0] == "def": env.setdefault(n[1], ("num", int(n[2])) if n[2].isdigit() else ("text",))
            elif n[0] == "mac": env.setdefault(n[1], ("text",))
        elif l[0] == "if":
            v = guard_value(l[1], env) if active else False
            if v is None or isinstance(v, str): return True, True       # conservative
            stack.append([active, v])
            if active and v: leak = True
            active = active and bool(v)
        elif l[0] == "else":
            if stack:
                pa, v = stack[-1]
                active = pa and not v
                if active: leak = True
        elif l[0] == "endif":
            if stack:
                pa, v = stack.pop()
                active = pa
    parent_active = stack[-1][0] if stack else True
    return leak, parent_active


def has_else_under_then_with_else(nodes, under=False):
    for n in nodes:
        if n[0] == "if":
            if under and n[3] is not None: return True
            if has_else_under_then_with_else(n[2], under or n[3] is not None): return True
            if n[3] is not None and has_else_under_then_with_else(n[3], under): return True
    return False


def guard_text(g):
    if g[0] == "cond": return ".if " + " ".join(g[1])
    return ".%s %s" % (g[0], g[1])


def stmt_text(n):
    k = n[0]
    if k == "db": return ".db %d" % n[1]
    if k == "lab": return "%s:" % n[1]
    if k == "def": return ".define %s %s" % (n[1], n[2])
    if k in ("bad", "noise"): return n[1]
    if k == "mac": return ".macro %s\n.db %d\n.endm" % (n[1], n[2])
    if k == "inv": return n[1]
    raise ValueError(k)


def source_of(lines):
    out = []
    for l in lines:
        if l[0] == "stmt": out.append(stmt_text(l[1]))
        elif l[0] == "if": out.append(guard_text(l[1]))
        elif l[0] == "else": out.append(".else")
        else: out.append(".endif")
    return "\n".join(out) + "\n"


def blk_items(lines):
    """protocol words of the `blk` command, or None when a line has no blk form"""
    out = []
    for l in lines:
        if l[0] == "stmt":
            n = l[1]
            if n[0] == "db": out.append("db:%d" % n[1])
            elif n[0] == "lab": out.append("lab:" + n[1])
            elif n[0] == "def": out.append("def:%s:%s" % (n[1], n[2]))
            elif n[0] == "bad" and n[1] == ".bogus_directive 1": out.append("bad")
            else: return None
        elif l[0] == "if":
            g = l[1]
            if g[0] == "cond": out.append("if:" + ",".join(g[1]))
            else: out.append("%s:%s" % (g[0], g[1]))
        else:
            out.append(l[0])
    return out


BAD_TEXTS = [".bogus_directive 1", "mov.w #,", ".db 1 +", "nosuchinsn r1, (", ".define", ".db ,", "1 2 3"]
NOISE_TEXTS = [".db 1 ; .endif", ".db \".endif\"", "; .else", "// .endif", ".db 7 /* .endif */"]


class BlockGen:
    """random well-formed block trees whose conditions only mention names introduced earlier in the text"""

    def __init__(self, rng, simple=False):
        self.rng = rng
        self.simple = simple     # only statement kinds that the `blk` command knows
        self.marker = 0
        self.nlab = 0
        self.names = []          # names introduced so far (anywhere in the text)
        self.sure = []           # value names that are certainly defined (introduced at top level)

    def cond(self):
        rng = self.rng
        nums = [0, 1, 2, 3, 5, 7, 100, 2147483647]
        c = rng.random()
        if c < 0.2 and self.names: return (rng.choice(["ifdef", "ifndef"]), rng.choice(self.names + ["NEVER"]))
        if c < 0.3: return ("cond", [str(rng.choice([0, 1, 1, 2]))])
        if c < 0.5 and self.names:
            n = rng.choice(self.names + ["NEVER"])
            t = ("defined", n) if rng.random() < 0.6 else ("not", ("defined", n))
            if rng.random() < 0.4: t = ("bin", rng.choice(["&&", "||"]), t, ("num", rng.choice([0, 1])))
            return ("cond", render(t))
        # value names are only used under a defined() guard so that the condition always has a value
        ops = OPS
        t = gen_tree(rng, rng.randrange(1, 4), self.sure, nums, ops)
        return ("cond", render(t))

    def stmts(self, depth, live, sure=False):
        rng = self.rng
        out = []
        for _ in range(rng.randrange(0, 4)):
            c = rng.random()
            if c < 0.4:
                self.marker = (self.marker % 250) + 1
                out.append(("db", self.marker))
            elif c < 0.55:
                self.nlab += 1
                nm = "L%d" % self.nlab
                self.names.append(nm)
                if sure: self.sure.append(nm)
                out.append(("lab", nm))
            elif c < 0.7:
                self.nlab += 1
                nm = "D%d" % self.nlab
                self.names.append(nm)
                if sure: self.sure.append(nm)
                out.append(("def", nm, str(rng.choice([0, 1, 5, 42]))))
            elif c < 0.8 and not live:
                out.append(("bad", BAD_TEXTS[0] if self.simple else rng.choice(BAD_TEXTS)))
            elif c < 0.85 and not live and not self.simple:
                out.append(("noise", rng.choice(NOISE_TEXTS)))
            elif c < 0.9 and not self.simple:
                self.nlab += 1
                nm = "m%d" % self.nlab
                self.marker = (self.marker % 250) + 1
                self.names.append(nm)
                out.append(("mac", nm, self.marker))
                if rng.random() < 0.7: out.append(("inv", nm))
            elif depth > 0:
                out.append(self.block(depth - 1, live))
        return out

    def block(self, depth, live):
        rng = self.rng
        g = self.cond()
        # whether the branch is live is only known to the reference run; `live` here is a static
        # over-approximation used to keep failing statements out of branches that may be selected:
        # constant conditions are decided, everything else is treated as possibly selected.
        tv = None
        if g[0] == "cond" and len(g[1]) == 1 and g[1][0].isdigit(): tv = g[1][0] != "0"
        thn = self.stmts(depth, live and tv is not False)
        els = None
        if rng.random() < 0.5:
            els = self.stmts(depth, live and tv is not True)
        return ("if", g, thn, els)

    def program(self, depth):
        nodes = self.stmts(depth, True, True)
        while not any(n[0] == "if" for n in nodes):
            nodes.append(self.block(depth, True))
            nodes += self.stmts(depth, True, True)
        return nodes
