#!/usr/bin/env python3
"""Shared machinery for the naken_asm verification checks.

Everything here is deterministic given (working tree of /repo, VERIF_SEED).
Paths are derived from this file's location so that a snapshot of /verif
(vp run) works from wherever it was placed.
"""
import fcntl, hashlib, json, os, re, subprocess, sys, time, shutil, random
from concurrent.futures import ThreadPoolExecutor

VERIF = os.path.dirname(os.path.dirname(os.path.abspath(__file__)))
REPO = os.environ.get("NV_REPO", "/repo")
BUILD = os.path.join(VERIF, ".build")
LEAN = os.path.join(VERIF, "lean")
GUARD = "NAKEN_ASM_VERIF"
SAN_FLAGS = ["-O1", "-g", "-fsanitize=address,bounds,integer-divide-by-zero",
             "-fno-sanitize-recover=all", "-fno-omit-frame-pointer",
             "-D" + GUARD, "-DUNIT_TEST_OFF", "-w"]
SRC_DIRS = ["asm", "common", "core", "disasm", "fileio", "simulate", "table"]
NPROC = os.cpu_count() or 4

SAN_ENV = dict(os.environ)
SAN_ENV["ASAN_OPTIONS"] = "detect_leaks=0:abort_on_error=0:exitcode=99:allocator_may_return_null=1:max_allocation_size_mb=2048"
SAN_ENV["UBSAN_OPTIONS"] = "print_stacktrace=1:halt_on_error=1:exitcode=99"


def log(*a):
    print(*a, file=sys.stderr, flush=True)


class Lock:
    def __init__(self, name):
        os.makedirs(BUILD, exist_ok=True)
        self.path = os.path.join(BUILD, name + ".lock")

    def __enter__(self):
        self.f = open(self.path, "w")
        fcntl.flock(self.f, fcntl.LOCK_EX)
        return self

    def __exit__(self, *a):
        fcntl.flock(self.f, fcntl.LOCK_UN)
        self.f.close()


def sha(b):
    return hashlib.sha256(b).hexdigest()


def run(cmd, **kw):
    return subprocess.run(cmd, stdout=subprocess.PIPE, stderr=subprocess.PIPE, **kw)


# ---------------------------------------------------------------------------
# Building /repo's current working tree with sanitizers
# ---------------------------------------------------------------------------

def repo_sources():
    out = []
    for d in SRC_DIRS:
        p = os.path.join(REPO, d)
        for f in sorted(os.listdir(p)):
            if f.endswith(".cpp"):
                out.append(os.path.join(d, f))
    return out


def _compile_one(args):
    rel, objdir, flags = args
    src = os.path.join(REPO, rel)
    # key = hash of flags + preprocessed text, so header edits are seen
    pre = run(["g++", "-E", "-P", "-I" + REPO] + [f for f in flags if f.startswith("-D")] + [src])
    if pre.returncode != 0:
        return rel, None, pre.stderr.decode(errors="replace")
    key = sha(" ".join(flags).encode() + b"\0" + pre.stdout)[:24]
    obj = os.path.join(objdir, rel.replace("/", "_")[:-4] + "." + key + ".o")
    if not os.path.exists(obj):
        tmp = obj + ".tmp%d" % os.getpid()
        r = run(["g++", "-c", src, "-o", tmp, "-I" + REPO] + flags)
        if r.returncode != 0:
            return rel, None, r.stderr.decode(errors="replace")
        os.replace(tmp, obj)
    return rel, obj, ""


def build_repo(flags=None, tag="san"):
    """Compile every library source of /repo; return dict with archive and exes."""
    flags = list(flags or SAN_FLAGS)
    objdir = os.path.join(BUILD, tag, "obj")
    os.makedirs(objdir, exist_ok=True)
    with Lock("build_" + tag):
        t0 = time.time()
        srcs = repo_sources()
        with ThreadPoolExecutor(NPROC) as ex:
            res = list(ex.map(_compile_one, [(s, objdir, flags) for s in srcs]))
        bad = [(r, e) for r, o, e in res if o is None]
        if bad:
            raise BuildError("compile failed: " + bad[0][0] + "\n" + bad[0][1][:4000])
        objs = sorted(o for _, o, _ in res)
        # prune stale objects
        keep = set(objs)
        for f in os.listdir(objdir):
            p = os.path.join(objdir, f)
            if p.endswith(".o") and p not in keep and time.time() - os.path.getmtime(p) > 3600:
                os.unlink(p)
        akey = sha("\n".join(objs).encode())[:16]
        lib = os.path.join(BUILD, tag, "libnaken_%s.a" % akey)
        if not os.path.exists(lib):
            for f in os.listdir(os.path.join(BUILD, tag)):
                if f.startswith("libnaken_") or f.startswith("naken_asm_") or f.startswith("naken_util_"):
                    os.unlink(os.path.join(BUILD, tag, f))
            tmp = lib + ".tmp"
            if os.path.exists(tmp):
                os.unlink(tmp)
            r = run(["ar", "cr", tmp] + objs)
            if r.returncode != 0:
                raise BuildError("ar failed " + r.stderr.decode())
            os.replace(tmp, lib)
        exes = {}
        for name, extra in (("naken_asm", ['-DINCLUDE_PATH="/usr/local/share/naken_asm/include"']),
                            ("naken_util", []),
                            # the configuration /repo's own config.mak builds: the interactive loop reads with
                            # readline() instead of fgets() (main/naken_util.cpp is the only user of READLINE)
                            ("naken_util_rl", ["-DREADLINE"])):
            src = os.path.join(REPO, "main", name.replace("_rl", "") + ".cpp")
            pre = run(["g++", "-E", "-P", "-I" + REPO, src] + extra + [f for f in flags if f.startswith("-D")])
            k = sha(pre.stdout + akey.encode())[:16]
            exe = os.path.join(BUILD, tag, "%s_%s" % (name, k))
            if not os.path.exists(exe):
                for f in os.listdir(os.path.join(BUILD, tag)):
                    if f.startswith(name + "_") and not (name == "naken_util" and f.startswith("naken_util_rl_")):
                        os.unlink(os.path.join(BUILD, tag, f))
                r = run(["g++", "-o", exe + ".tmp", src, lib, "-I" + REPO] + extra + flags +
                        (["-lreadline"] if name.endswith("_rl") else []))
                if r.returncode != 0:
                    raise BuildError("link %s failed: %s" % (name, r.stderr.decode()[:3000]))
                os.replace(exe + ".tmp", exe)
            exes[name] = exe
        return {"lib": lib, "akey": akey, "flags": flags, "wall": time.time() - t0, **exes}


class BuildError(Exception):
    pass


def build_tool(name, sources, repo, extra=None):
    """Compile a harness/translator program from /verif/harness against the repo lib."""
    srcs = [os.path.join(VERIF, "harness", s) for s in sources]
    h = hashlib.sha256()
    for s in srcs:
        h.update(open(s, "rb").read())
    for f in sorted(os.listdir(os.path.join(VERIF, "harness"))):
        if f.endswith(".h"):
            h.update(open(os.path.join(VERIF, "harness", f), "rb").read())
    h.update(repo["akey"].encode())
    # headers of /repo that the tool includes are covered by preprocessing
    for one in srcs:
        pre = run(["g++", "-E", "-P", "-I" + REPO, "-I" + os.path.join(VERIF, "harness")] +
                  [f for f in repo["flags"] if f.startswith("-D")] + [one])
        h.update(pre.stdout)
    out = os.path.join(BUILD, "tools", "%s_%s" % (name, h.hexdigest()[:16]))
    os.makedirs(os.path.dirname(out), exist_ok=True)
    with Lock("tool_" + name):
        if not os.path.exists(out):
            for f in os.listdir(os.path.dirname(out)):
                if f.startswith(name + "_"):
                    os.unlink(os.path.join(os.path.dirname(out), f))
            r = run(["g++", "-std=gnu++17", "-o", out + ".tmp"] + srcs + [repo["lib"], "-I" + REPO,
                     "-I" + os.path.join(VERIF, "harness")] + repo["flags"] + (extra or []))
            if r.returncode != 0:
                raise BuildError("build %s failed:\n%s" % (name, r.stderr.decode()[:6000]))
            os.replace(out + ".tmp", out)
    return out


# ---------------------------------------------------------------------------
# Lean side
# ---------------------------------------------------------------------------

def write_if_changed(path, text):
    os.makedirs(os.path.dirname(path), exist_ok=True)
    try:
        if open(path).read() == text:
            return False
    except FileNotFoundError:
        pass
    with open(path, "w") as f:
        f.write(text)
    return True


def run_translator(repo):
    """Re-emit lean/NakenVerif/Generated/*.lean from the current sources."""
    extra = sorted(f for f in os.listdir(os.path.join(VERIF, "harness")) if f.startswith("nv_dump_") and f.endswith(".cpp"))
    exe = build_tool("nv_dump", ["nv_dump.cpp"] + extra, repo)
    r = run([exe], env=SAN_ENV)
    if r.returncode != 0:
        raise BuildError("nv_dump failed: " + r.stderr.decode()[:2000])
    # output: sections "=== <File>.lean" followed by content
    cur, buf, changed = None, [], []
    files = {}
    for line in r.stdout.decode().split("\n"):
        if line.startswith("=== "):
            if cur:
                files[cur] = "\n".join(buf) + "\n"
            cur, buf = line[4:].strip(), []
        else:
            buf.append(line)
    if cur:
        files[cur] = "\n".join(buf).rstrip("\n") + "\n"
    with Lock("lake"):
        for name, text in files.items():
            if write_if_changed(os.path.join(LEAN, "NakenVerif", "Generated", name), text):
                changed.append(name)
    return {"files": sorted(files), "changed": changed}


def lake_build(targets):
    with Lock("lake"):
        t0 = time.time()
        r = subprocess.run(["lake", "build"] + targets, cwd=LEAN, stdout=subprocess.PIPE,
                           stderr=subprocess.STDOUT)
        out = r.stdout.decode(errors="replace")
        return {"ok": r.returncode == 0, "log": out, "wall": time.time() - t0}


def failing_decls(log_text):
    """Best effort: file:line of errors in a lake log."""
    return sorted(set(re.findall(r"error: ([^\s:]+\.lean:\d+)", log_text)))


FORBIDDEN = re.compile(r"\bsorry\b|\badmit\b|^\s*axiom\s|native_decide|implemented_by|\bunsafe\s|maxHeartbeats\s+0\b|@\[extern")


def strip_lean_comments(src):
    out, i, depth, n = [], 0, 0, len(src)
    while i < n:
        if src.startswith("/-", i):
            depth += 1; i += 2; continue
        if depth and src.startswith("-/", i):
            depth -= 1; i += 2; continue
        if depth:
            if src[i] == "\n":
                out.append("\n")
            i += 1; continue
        if src.startswith("--", i):
            while i < n and src[i] != "\n":
                i += 1
            continue
        if src[i] == '"':
            j = i + 1
            while j < n and src[j] != '"':
                j += 2 if src[j] == "\\" else 1
            out.append('""'); i = j + 1; continue
        out.append(src[i]); i += 1
    return "".join(out)


def lean_closure(modules):
    """All NakenVerif.* modules transitively imported by the given modules."""
    seen, todo = set(), list(modules)
    while todo:
        m = todo.pop()
        if m in seen or not m.startswith("NakenVerif"):
            continue
        p = os.path.join(LEAN, *m.split(".")) + ".lean"
        if not os.path.exists(p):
            continue
        seen.add(m)
        for imp in re.findall(r"^\s*(?:public\s+)?import\s+(\S+)", open(p).read(), re.M):
            todo.append(imp)
    return sorted(seen)


def audit(modules, theorems):
    """grep the closure for forbidden constructs and #print axioms of every theorem."""
    problems = []
    closure = lean_closure(modules)
    for m in closure:
        p = os.path.join(LEAN, *m.split(".")) + ".lean"
        src = strip_lean_comments(open(p).read())
        for ln, line in enumerate(src.split("\n"), 1):
            if FORBIDDEN.search(line):
                problems.append("%s:%d: forbidden construct: %s" % (m, ln, line.strip()[:80]))
    axioms = {}
    if theorems:
        txt = "".join("import %s\n" % m for m in modules) + "".join("#print axioms %s\n" % t for t in theorems)
        os.makedirs(os.path.join(BUILD, "audit"), exist_ok=True)
        f = os.path.join(BUILD, "audit", "Audit_%s_%d.lean" % (sha(txt.encode())[:10], os.getpid()))
        open(f, "w").write(txt)
        with Lock("lake"):
            r = subprocess.run(["lake", "env", "lean", f], cwd=LEAN, stdout=subprocess.PIPE, stderr=subprocess.STDOUT)
        os.unlink(f)
        out = r.stdout.decode(errors="replace")
        if r.returncode != 0:
            problems.append("axiom audit failed: " + out[:1500])
        # parse "'name' depends on axioms: [a, b]" / "'name' does not depend on any axioms"
        for m_ in re.finditer(r"'([^']+)' depends on axioms: \[([^\]]*)\]", out, re.S):
            axioms[m_.group(1)] = [a.strip() for a in m_.group(2).replace("\n", " ").split(",") if a.strip()]
        for m_ in re.finditer(r"'([^']+)' does not depend on any axioms", out):
            axioms[m_.group(1)] = []
        for t in theorems:
            if t not in axioms:
                problems.append("theorem %s not found by #print axioms" % t)
        allowed = {"propext", "Classical.choice", "Quot.sound"}
        for t, axs in axioms.items():
            for a in axs:
                if a in allowed or "._native.bv_decide.ax" in a:
                    continue
                problems.append("theorem %s depends on non-allowed axiom %s" % (t, a))
    return {"problems": problems, "axioms": axioms, "closure": closure}


def leanchecker(module):
    with Lock("lake"):
        r = subprocess.run(["lake", "env", "leanchecker", module], cwd=LEAN, stdout=subprocess.PIPE,
                           stderr=subprocess.STDOUT)
    return r.returncode == 0, r.stdout.decode(errors="replace")[-2000:]


def driver_path():
    return os.path.join(LEAN, ".lake", "build", "bin", "nvdriver")


# ---------------------------------------------------------------------------
# Line protocol
# ---------------------------------------------------------------------------

def hexs(s):
    if isinstance(s, str):
        s = s.encode("latin-1")
    return s.hex() if s else "-"


def unhex(s):
    return b"" if s == "-" else bytes.fromhex(s)


def run_lines(exe, lines, env=None, timeout=300, shards=None):
    """Feed protocol lines to a line-protocol program; returns list of answer lines.
    Work is split into shards run in parallel; a shard that dies yields 'DIED <rc> <stderr tail>'
    answers for the line it died on and is restarted after it."""
    lines = list(lines)
    if not lines:
        return []
    shards = shards or min(NPROC, max(1, len(lines) // 200))
    size = (len(lines) + shards - 1) // shards
    chunks = [lines[i:i + size] for i in range(0, len(lines), size)]

    def work(chunk):
        out = []
        pos = 0
        while pos < len(chunk):
            data = ("\n".join(chunk[pos:]) + "\n").encode("latin-1")
            try:
                # the limit is for a hang on ONE line; a long shard on a loaded machine is not a hang
                r = subprocess.run([exe], input=data, stdout=subprocess.PIPE, stderr=subprocess.PIPE,
                                   env=env or SAN_ENV, timeout=timeout + 0.25 * (len(chunk) - pos))
                rc, so, se = r.returncode, r.stdout, r.stderr
            except subprocess.TimeoutExpired as e:
                rc, so, se = -999, e.stdout or b"", b"timeout"
            got = so.decode("latin-1").split("\n")
            if got and got[-1] == "":
                got.pop()
            # only complete answer lines count
            if rc != 0 and so and not so.endswith(b"\n") and got:
                got.pop()
            got = got[:len(chunk) - pos]
            out.extend(got)
            pos += len(got)
            if pos < len(chunk):
                if rc == 0:
                    out.extend(["MISSING"] * (len(chunk) - pos))
                    break
                tail = se.decode("latin-1", errors="replace")
                m = re.search(r"(ERROR: AddressSanitizer: [^\n]*|runtime error: [^\n]*|SUMMARY: [^\n]*)", tail)
                out.append("DIED rc=%d %s" % (rc, (m.group(1) if m else tail.strip()[-200:]).replace("\n", " ")))
                pos += 1
        return out

    with ThreadPoolExecutor(len(chunks)) as ex:
        res = list(ex.map(work, chunks))
    return [x for r in res for x in r]


# ---------------------------------------------------------------------------
# Anchor fingerprints: which of the files a property is anchored in differ from the tree the models were written for
# ---------------------------------------------------------------------------

def anchor_files(prop):
    """files (relative to the repository root) named by the property's anchors in properties.jsonl, globs expanded"""
    import glob
    out = set()
    for line in open(os.path.join(VERIF, "properties.jsonl")):
        p = json.loads(line)
        if p["id"] != prop:
            continue
        for pat in p.get("anchors", {}).get("files", []):
            for f in glob.glob(os.path.join(REPO, pat)):
                if os.path.isfile(f) and f.endswith((".cpp", ".h", ".c")):
                    out.add(os.path.relpath(f, REPO))
    return sorted(out)


def anchor_fingerprint(prop):
    out = {}
    for f in anchor_files(prop):
        out[f] = sha(open(os.path.join(REPO, f), "rb").read())[:16]
    return out


def anchors_changed(prop):
    """anchor files whose content differs from tools/anchor_fingerprints.json (written by tools/fingerprint_regen.py for
    the tree the models follow); an unknown property or a missing baseline gives []"""
    p = os.path.join(VERIF, "tools", "anchor_fingerprints.json")
    if not os.path.exists(p):
        return []
    base = json.load(open(p)).get(prop)
    if base is None:
        return []
    cur = anchor_fingerprint(prop)
    return sorted(f for f in set(cur) | set(base) if cur.get(f) != base.get(f))


# ---------------------------------------------------------------------------
# Known findings, evidence, verdicts
# ---------------------------------------------------------------------------

def load_known(prop):
    out = []
    for name in ("known_findings.json", "known_findings_sweep.json"):
        p = os.path.join(VERIF, name)
        if os.path.exists(p):
            out += [e for e in json.load(open(p))["entries"] if e["property"] == prop]
    return out


class Rng(random.Random):
    pass


def seed_from_env():
    try:
        return int(os.environ.get("VERIF_SEED", "0"))
    except ValueError:
        return 0


def write_json(path, obj):
    os.makedirs(os.path.dirname(path), exist_ok=True)
    tmp = path + ".tmp%d" % os.getpid()
    with open(tmp, "w") as f:
        json.dump(obj, f, indent=1, sort_keys=True)
        f.write("\n")
    os.replace(tmp, path)


# ---------------------------------------------------------------------------
# helpers around the `prog` harness command and the real executables
# ---------------------------------------------------------------------------

def prog_line(source, opts="-", includes=None):
    """protocol line for the in-process two-pass assembly of `source` (str/bytes)"""
    parts = ["prog", opts or "-", hexs(source)]
    for name, content in (includes or {}).items():
        parts += [hexs(name), hexs(content)]
    return " ".join(parts)


def parse_prog(ans):
    """'st=0 err=0 ... img=a:hex;b:hex syms=n=addr@scope,...' -> dict (image as {addr: byte})"""
    if not ans.startswith("st="):
        return {"raw": ans, "died": True}
    d = {"raw": ans, "died": False}
    for kv in ans.split(" "):
        k, _, v = kv.partition("=")
        d[k] = v
    for k in ("st", "err", "bpa", "ic"):
        d[k] = int(d[k])
    for k in ("low", "high", "entry"):
        d[k] = int(d[k], 16)
    img = {}
    if d.get("img", "-") != "-":
        for seg in d["img"].split(";"):
            a, _, hx = seg.partition(":")
            a = int(a, 16)
            for i in range(0, len(hx), 2):
                img[a + i // 2] = int(hx[i:i + 2], 16)
    d["image"] = img
    kinds = {}
    if d.get("dbg", "-") != "-":
        for seg in d["dbg"].split(";"):
            a, _, ks = seg.partition(":")
            a = int(a, 16)
            for i, c in enumerate(ks):
                kinds[a + i] = c
    d["kinds"] = kinds
    for key in ("syms", "p1"):
        out = []
        if d.get(key, "-") not in ("-", None):
            for s in d[key].split(","):
                name, _, rest = s.rpartition("=")
                addr, _, scope = rest.partition("@")
                out.append((name, int(addr, 16), int(scope.rstrip("!")), scope.endswith("!")))
        d[key + "_list"] = out
    return d


def run_asm(exe, source, tmpdir, args=None, name="t", outtype="bin", timeout=60, extra_files=None):
    """Run the real (sanitised) naken_asm on `source`.  Returns dict(rc, out, data, path, lst)."""
    os.makedirs(tmpdir, exist_ok=True)
    src = os.path.join(tmpdir, name + ".asm")
    ext = {"bin": "bin", "hex": "hex", "srec": "srec", "elf": "elf", "wdc": "wdc", "uf2": "uf2",
           "amiga": "amiga", "macho": "macho"}[outtype]
    outp = os.path.join(tmpdir, name + "." + ext)
    with open(src, "wb") as f:
        f.write(source if isinstance(source, bytes) else source.encode("latin-1"))
    for fn, content in (extra_files or {}).items():
        with open(os.path.join(tmpdir, fn), "wb") as f:
            f.write(content if isinstance(content, bytes) else content.encode("latin-1"))
    if os.path.exists(outp):
        os.unlink(outp)
    cmd = [exe, "-type", outtype, "-o", outp] + list(args or []) + [src]
    try:
        r = subprocess.run(cmd, stdout=subprocess.PIPE, stderr=subprocess.PIPE, env=SAN_ENV, timeout=timeout, cwd=tmpdir)
        rc, so, se = r.returncode, r.stdout, r.stderr
    except subprocess.TimeoutExpired as e:
        rc, so, se = -999, e.stdout or b"", b"timeout"
    data = open(outp, "rb").read() if os.path.exists(outp) else None
    lstp = os.path.join(tmpdir, name + ".lst")
    lst = open(lstp, "rb").read() if os.path.exists(lstp) else None
    return {"rc": rc, "out": so.decode("latin-1"), "err": se.decode("latin-1"), "data": data, "path": outp, "lst": lst,
            "errors": so.decode("latin-1").count("Error")}


def run_util(exe, args, stdin_text="", timeout=60, cwd=None):
    try:
        r = subprocess.run([exe] + list(args), input=stdin_text.encode("latin-1"), stdout=subprocess.PIPE,
                           stderr=subprocess.PIPE, env=SAN_ENV, timeout=timeout, cwd=cwd)
        return {"rc": r.returncode, "out": r.stdout.decode("latin-1"), "err": r.stderr.decode("latin-1")}
    except subprocess.TimeoutExpired as e:
        return {"rc": -999, "out": (e.stdout or b"").decode("latin-1"), "err": "timeout"}
