"""Generator of MSP430 simulator states for C14/C15 (seeded only from the rng passed in)."""

BOUND16 = [0, 1, 2, 0x7f, 0x80, 0xff, 0x100, 0x7fff, 0x8000, 0xfffe, 0xffff, 0x0099, 0x9999, 0x1234, 0x00a5]
BOUND8 = [0, 1, 0x7f, 0x80, 0xff, 0x99, 0x09, 0x55, 0xaa]
SPS = [0x0800, 0x0800, 0x0280, 0, 2, 0xfffe, 0xffff, 1, 0x0801]
PCS = [0xf000, 0xf000, 0xf000, 0x0200, 0, 0xfffc, 0xfffe, 0xf001, 0x7ffe]
SRS = [0, 1, 2, 4, 0x100, 0x107, 0x105, 0x003, 0xffff, 0x00f8, 0x0104]


def reg_kind(r):
    return r if r < 4 else 4


def classify(w):
    """stratum of an opcode word: (class, As, Ad, bw, src kind, dst kind)"""
    if (w & 0xe000) == 0x2000:
        return ("J%d" % ((w >> 10) & 7), (w >> 9) & 1, 0, 0, 0, 0)
    if (w & 0xfc00) == 0x1000:
        return ("S%d" % ((w >> 7) & 7), (w >> 4) & 3, 0, (w >> 6) & 1, reg_kind(w & 15), 0)
    if (w >> 12) < 4:
        return ("X%x" % (w >> 10), 0, 0, 0, 0, 0)
    return ("D%x" % (w >> 12), (w >> 4) & 3, (w >> 7) & 1, (w >> 6) & 1, reg_kind((w >> 8) & 15), reg_kind(w & 15))


def opcode_fields(w):
    """registers an instruction uses (src, dst) or (reg,) -- for placing operand cells"""
    if (w & 0xe000) == 0x2000:
        return []
    if (w & 0xfc00) == 0x1000:
        return [w & 15]
    return [(w >> 8) & 15, w & 15]


def pick16(rng):
    return rng.choice(BOUND16) if rng.random() < 0.75 else rng.getrandbits(16)


def pick8(rng):
    return rng.choice(BOUND8) if rng.random() < 0.7 else rng.getrandbits(8)


def make_state(rng, w, tame=0.6):
    """(regs[16], cells{addr: byte}) for first opcode word w.
    `tame` = probability of an aligned, well-formed state (even PC/SP, even operand addresses)."""
    well = rng.random() < tame
    regs = [pick16(rng) for _ in range(16)]
    if well:
        regs[0] = rng.choice([0xf000, 0xf000, 0x0200, 0xfffc, 0xfffe, 0, 0x7ffe])
        regs[1] = rng.choice([0x0800, 0x0280, 0, 2, 0xfffe, 0x0a00])
        for i in range(4, 16):
            if rng.random() < 0.7:
                regs[i] &= 0xfffe
    else:
        regs[0] = rng.choice(PCS)
        regs[1] = rng.choice(SPS)
    regs[2] = rng.choice(SRS) if rng.random() < 0.8 else rng.getrandbits(16)
    regs[3] = 0 if rng.random() < 0.7 else pick16(rng)
    used = opcode_fields(w)
    # source = destination register and aliasing with PC/SP come from the opcode itself
    x1, x2 = pick16(rng), pick16(rng)
    if well:
        if rng.random() < 0.8:
            x1 &= 0xfffe
        if rng.random() < 0.8:
            x2 &= 0xfffe
    # steer effective addresses to the edges of the address space now and then
    if used and rng.random() < 0.25:
        r = rng.choice(used)
        target = rng.choice([0, 0xfffe, 0xffff, 0xfffc, 2])
        if rng.random() < 0.5:
            x1 = (target - regs[r]) & 0xffff
        else:
            x2 = (target - regs[r]) & 0xffff
    pc = regs[0]
    cells = {}
    interesting = set()
    for r in set(used + [1]):
        v = regs[r]
        for base in (v, (v + x1) & 0xffff, (v + x2) & 0xffff, (v - 2) & 0xffff, (v + 2) & 0xffff,
                     (v - 1) & 0xffff, (v - 4) & 0xffff):
            interesting.add(base)
            interesting.add((base + 1) & 0xffff)
    for x in (x1, x2, (pc + 2 + x1) & 0xffff, (pc + 4 + x2) & 0xffff, (pc + 2 + x2) & 0xffff):
        interesting.add(x)
        interesting.add((x + 1) & 0xffff)
    for a in sorted(interesting):
        if rng.random() < 0.85:
            cells[a] = pick8(rng)
    if rng.random() < 0.5:
        # BCD digits only (DADD operands)
        for a in list(cells):
            cells[a] = rng.choice([0, 1, 9, 0x10, 0x49, 0x50, 0x51, 0x99, 0x90, 0x09])
        for i in range(4, 16):
            if rng.random() < 0.8:
                regs[i] = rng.choice([0, 1, 0x9999, 0x0999, 0x5000, 0x4999, 0x0099, 0x0100, 0x1234, 0x9000])
    # the instruction stream last, so that it is what the decoder sees
    for i, word in enumerate((w, x1, x2)):
        a = (pc + 2 * i) & 0xffff
        cells[a] = word & 0xff
        cells[(a + 1)] = word >> 8      # 0x10000 when pc = 0xffff (what the simulator's 32-bit read sees)
    return regs, cells


def flag_boundary_cases(rng):
    """deterministic grid for the flag rules: every double-operand instruction x .B/.W x source in {each constant of
    the two constant generators, register} x destination register holding each boundary value (x boundary source)"""
    out = []
    b8, b16 = [0, 1, 0x7f, 0x80, 0xff], [0, 1, 0x7fff, 0x8000, 0xffff]
    cg = [(2, 2), (2, 3), (3, 0), (3, 1), (3, 2), (3, 3)]          # (register, As): #4 #8 #0 #1 #2 #-1
    for op in range(4, 16):
        for bw in (0, 1):
            vals = b8 if bw else b16
            hi = rng.choice([0, 0xff00, 0x1200]) if bw else 0
            for dv in vals:
                for (sr, As) in cg:
                    w = (op << 12) | (sr << 8) | (bw << 6) | (As << 4) | 6          # dst r6
                    regs = [0xf000, 0x0800, rng.choice([0, 1, 0x100, 0x107]), 0] + [0] * 12
                    regs[6] = dv | hi
                    out.append((w, regs, {0xf000: w & 255, 0xf001: w >> 8, 0xf002: 0, 0xf003: 0}, "-"))
                for sv in vals:
                    w = (op << 12) | (5 << 8) | (bw << 6) | 6                          # src r5, dst r6
                    regs = [0xf000, 0x0800, rng.choice([0, 1, 0x100, 0x107]), 0] + [0] * 12
                    regs[5], regs[6] = sv | hi, dv | hi
                    out.append((w, regs, {0xf000: w & 255, 0xf001: w >> 8, 0xf002: 0, 0xf003: 0}, "-"))
    for op in (0, 1, 2, 3, 4):      # rrc swpb rra sxt push, register and CG operands
        for bw in (0, 1):
            for dv in (b8 if bw else b16):
                for c in (0, 1):
                    w = 0x1000 | (op << 7) | (bw << 6) | 6
                    regs = [0xf000, 0x0800, c, 0] + [0] * 12
                    regs[6] = dv
                    out.append((w, regs, {0xf000: w & 255, 0xf001: w >> 8, 0x7fe: 0x55, 0x7ff: 0xaa}, "-"))
            for (sr, As) in cg:
                w = 0x1000 | (op << 7) | (bw << 6) | (As << 4) | sr
                regs = [0xf000, 0x0800, 0, 0] + [0] * 12
                out.append((w, regs, {0xf000: w & 255, 0xf001: w >> 8, 0x7fe: 0x55, 0x7ff: 0xaa}, "-"))
    return out


def _bcd_byte(a):
    return (a % 10) | (((a * 3 + 1) % 10) << 4)


def pcsp_cases(rng):
    """deterministic grid of the PC/SP special cases: every single-operand instruction (RRC SWPB RRA SXT PUSH CALL) with
    PC and SP as operand register in every As mode, .B/.W, and every double-operand instruction with PC or SP as source
    (every As) and/or as destination (Ad 0/1), .B/.W.  Two states per opcode word: a canonical one (PC 0x8000, SP 0x0400,
    every cell a distinct BCD byte, so that nothing of it is `undefined` for alignment or DADD reasons) and a seeded
    well-formed one."""
    ops = []
    for op in range(6):
        for bw in (0, 1):
            for As in range(4):
                for r in (0, 1):
                    ops.append(0x1000 | (op << 7) | (bw << 6) | (As << 4) | r)
    for op in range(4, 16):
        for bw in (0, 1):
            for As in range(4):
                for Ad in (0, 1):
                    for (s, d) in ((0, 0), (0, 1), (1, 0), (1, 1), (0, 6), (1, 6), (5, 0), (5, 1)):
                        ops.append((op << 12) | (s << 8) | (Ad << 7) | (bw << 6) | (As << 4) | d)
    out = []
    for w in ops:
        pc, sp = 0x8000, 0x0400
        regs = [pc, sp, 0, 0, 0x0210, 0x0220, 0x0230, 0x0240] + [0x0250 + 0x10 * i for i in range(8)]
        cells = {}
        for base, n in ((sp - 8, 32), (pc, 32), (0x0200, 0x70), (0, 16), (0x8400, 16), (0x0800, 16)):
            for a in range(base, base + n):
                cells[a] = _bcd_byte(a)
        for i, word in enumerate((w, 2, 6)):
            cells[pc + 2 * i] = word & 0xff
            cells[pc + 2 * i + 1] = word >> 8
        out.append((w, regs, cells, "-"))
        regs2, cells2 = make_state(rng, w, tame=1.0)
        out.append((w, regs2, cells2, "-"))
    return out


def line(regs, cells, bio="-", cmd="sim"):
    return "%s msp430 %s %s %s" % (cmd, bio, ",".join("%x" % r for r in regs),
                                  ",".join("%x:%02x" % (a, cells[a]) for a in sorted(cells)) or "-")


def parse_answer(ans):
    """'ret=0 regs=.. cyc=1 mem=a:b,..' -> dict or {'exit': n} or {'raw': ans}"""
    if ans.startswith("exit="):
        return {"exit": int(ans[5:])}
    if not ans.startswith("ret="):
        return {"raw": ans}
    d = {}
    for kv in ans.split(" "):
        k, _, v = kv.partition("=")
        d[k] = v
    out = {"ret": int(d["ret"]), "regs": [int(x, 16) for x in d["regs"].split(",")], "cyc": int(d.get("cyc", "0")),
           "end": d.get("end"), "ncc": d.get("ncc")}
    mem = {}
    if d.get("mem", "-") != "-":
        for item in d["mem"].split(","):
            a, _, b = item.partition(":")
            mem[int(a, 16)] = int(b, 16)
    out["mem"] = mem
    return out


def stratified_opcodes(rng, per_stratum):
    """a subset of the 65,536 opcode words that covers every stratum `per_stratum` times"""
    strata = {}
    for w in range(65536):
        strata.setdefault(classify(w), []).append(w)
    out = []
    for key in sorted(strata):
        ws = strata[key]
        for _ in range(per_stratum):
            out.append(rng.choice(ws))
    return out, len(strata)
