#!/usr/bin/env python3
"""Run checks against the seeded changes kept under /verif/seeded/<name>/ (patch.diff, meta.json).

usage: run_seeded.py [name ...] [--props C04,C12] [--tier quick]
For each change: git -C /repo apply patch.diff; run the property's check (and any extra --props);
record exit status and VIOLATION lines; git -C /repo checkout -- . (option --inplace=1).
Default: the same in a scratch worktree of /repo's HEAD under /tmp/wt (checks run with NV_REPO pointing at
it), so that other work reading /repo is not disturbed; the worktree is removed afterwards.
Writes seeded/RESULTS.json.  Never commits anything in /repo.
"""
import json, os, subprocess, sys, time
VERIF = os.path.dirname(os.path.dirname(os.path.abspath(__file__)))
REPO = "/repo"

def sh(cmd, **kw):
    return subprocess.run(cmd, stdout=subprocess.PIPE, stderr=subprocess.STDOUT, **kw)

def main():
    args = [a for a in sys.argv[1:] if not a.startswith("--")]
    opts = dict(a[2:].split("=", 1) for a in sys.argv[1:] if a.startswith("--") and "=" in a)
    tier = opts.get("tier", "quick")
    names = args or sorted(d for d in os.listdir(os.path.join(VERIF, "seeded")) if os.path.isdir(os.path.join(VERIF, "seeded", d)))
    global REPO
    env_extra = {}
    wt = None
    if opts.get("inplace") != "1":
        wt = "/tmp/wt/seedrun_%d" % os.getpid()
        os.makedirs("/tmp/wt", exist_ok=True)
        r = sh(["git", "-C", "/repo", "worktree", "add", "-q", "--detach", wt, "HEAD"])
        assert r.returncode == 0, r.stdout
        REPO = wt
        env_extra = {"NV_REPO": wt, "NV_EVIDENCE_DIR": os.path.join(VERIF, ".build", "seeded_evidence")}
    assert sh(["git", "-C", REPO, "status", "--porcelain"]).stdout.strip() == b"", "/repo not clean"
    resp = os.path.join(VERIF, "seeded", "RESULTS.json")
    results = json.load(open(resp)) if os.path.exists(resp) else {}
    for name in names:
        d = os.path.join(VERIF, "seeded", name)
        meta = json.load(open(os.path.join(d, "meta.json")))
        props = opts.get("props", meta["property"]).split(",")
        r = sh(["git", "-C", REPO, "apply", os.path.join(d, "patch.diff")])
        if r.returncode != 0:
            print(name, "patch does not apply:", r.stdout.decode()[:300]); results[name] = {"error": "patch does not apply"}; continue
        try:
            res = {}
            for p in props:
                t0 = time.time()
                c = sh([sys.executable, os.path.join(VERIF, "tools", "check.py"), p, "--tier", tier], cwd=VERIF,
                       env=dict(os.environ, VERIF_SEED=opts.get("seed", "0"), **env_extra))
                out = c.stdout.decode(errors="replace")
                viol = [l for l in out.split("\n") if l.startswith("VIOLATION")]
                res[p] = {"exit": c.returncode, "violations": len(viol), "first": viol[:2], "wall_s": round(time.time() - t0, 1),
                          "no_input": any("no-failing-input-found" in v for v in viol)}
                print("%-10s %-4s exit=%d violations=%d %s" % (name, p, c.returncode, len(viol), viol[0][:110] if viol else ""))
            results[name] = {"property": meta["property"], "summary": meta.get("summary", "")[:200], "checks": res,
                             "caught": any(v["exit"] == 1 and v["violations"] > 0 for v in res.values())}
        finally:
            sh(["git", "-C", REPO, "checkout", "--", "."])
    json.dump(results, open(resp, "w"), indent=1, sort_keys=True)
    assert sh(["git", "-C", REPO, "status", "--porcelain"]).stdout.strip() == b"", "/repo not clean after run"
    if wt:
        sh(["git", "-C", "/repo", "worktree", "remove", "--force", wt])

if __name__ == "__main__":
    main()
