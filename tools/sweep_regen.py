#!/usr/bin/env python3
"""DEVELOPMENT TOOL, never run by a check: rewrite the entries of known_findings_sweep.json for the named properties
from the failures of the all-CPU sweeps (tools/cpu_sweep.py) on the CURRENT tree, thorough tier (its input sets contain
the quick tier's).  Run it only on a tree whose failures have been triaged: every entry it writes claims that the
unchanged code violates the property on that input (notes/sweep.md records the triage).
usage: NV_REPO=<tree> sweep_regen.py C01 C06 C07 C08 [--class=<regex on the signature>]"""
import sys, os, json, re
sys.path.insert(0, os.path.dirname(os.path.abspath(__file__)))
import nvlib, cpu_sweep
from check import Ctx

KIND_WHAT = {"short": "length below one address unit", "nonlocal": "text/length depend on bytes outside the instruction",
             "nonul": "text not NUL-terminated in the buffer", "crash": "sanitizer report / crash", "hang": "no return within 20 s"}


def main():
    props = [a for a in sys.argv[1:] if not a.startswith("--")]
    cls = ([a.split("=", 1)[1] for a in sys.argv[1:] if a.startswith("--class=")] or [None])[0]
    assert not os.environ.get("NV_SWEEP_ONLY"), "NV_SWEEP_ONLY restricts the input sets"
    repo = nvlib.build_repo()
    path = os.path.join(nvlib.VERIF, "known_findings_sweep.json")
    data = json.load(open(path))
    for prop in props:
        ctx = Ctx(prop, "thorough", 0)
        ctx.repo = repo
        ctx.harness = nvlib.build_tool("nv_harness", ["nv_harness.cpp"], repo)
        # the member sets of the old entries must not hide members: drop them first
        # (--class=<regex>: only the entries / failures whose signature matches are dropped and rewritten, every other
        # entry of the property stays as it is)
        keep = lambda sig: cls is not None and not re.search(cls, sig)
        data["entries"] = [e for e in data["entries"] if e["property"] != prop or keep(e["match"].replace("\\", ""))]
        json.dump(data, open(path, "w"), indent=1)
        orc = {"cases": 0, "failures": [], "stats": {}}
        getattr(cpu_sweep, prop.lower() + "_oracle")(ctx, orc)
        ents, seen = [], set()
        members = orc.get("_c08_members", {})
        for f in orc["failures"]:
            sig = f["sig"]
            m = re.match(r"^(C08:sweep:[a-z0-9_]+:(?:short|nonlocal|nonul|crash|hang)(?:@[a-z0-9]+)?):([0-9a-f]{4})$", sig)
            if m:
                sig = m.group(1)          # member of a class: the class entry below names every member
            if sig in seen or keep(sig):
                continue
            seen.add(sig)
            e = {"property": prop, "id": "sweep-" + nvlib.sha(sig.encode())[:10], "state": "finding", "match": re.escape(sig),
                 "what": ("%s: %s; expected %s; observed %s" % (f["input"], f["what"], f["expected"], f["observed"]))[:400],
                 "replay": f.get("replay_line", "")}
            if sig in members:
                mem = members[sig]
                kind = sig.split(":")[3].split("@")[0]
                e.update({"sig": sig, "members": cpu_sweep.set_to_ranges(mem),
                          "what": "%s: %d of the 65536 16-bit patterns of this input set are disassembled with defect '%s' (%s)" % (
                              sig, len(mem), kind, KIND_WHAT.get(kind, kind))})
            ents.append(e)
        data["entries"] += ents
        print(prop, "entries:", len(ents), "cases:", orc["cases"])
        json.dump(data, open(path, "w"), indent=1)


if __name__ == "__main__":
    main()
