#!/usr/bin/env python3
"""DEVELOPMENT TOOL, never run by a check: regenerate known_findings_sweep.json (and tools/sweep_maxlen.json with
--maxlen) from the failures of the sweeps of tools/cpu_sweep.py on the CURRENT tree (thorough tier = superset of
the quick tier).  Run it only on a tree whose failures have been looked at: every entry it writes says that the
unchanged code violates the property on that input.  usage: sweep_regen.py C01 C06 C07 C08 [--maxlen]"""
import sys, os, json, re
sys.path.insert(0, os.path.dirname(os.path.abspath(__file__)))
import nvlib, cpu_sweep
from check import Ctx

def main():
    props = [a for a in sys.argv[1:] if not a.startswith("--")]
    repo = nvlib.build_repo()
    path = os.path.join(nvlib.VERIF, "known_findings_sweep.json")
    data = json.load(open(path))
    for prop in props:
        ctx = Ctx(prop, "thorough", 0)
        ctx.repo = repo
        ctx.harness = nvlib.build_tool("nv_harness", ["nv_harness.cpp"], repo)
        if prop == "C08" and "--maxlen" in sys.argv:
            res = cpu_sweep.disxb_all(ctx, cpu_sweep.cpu_table(ctx), cpu_sweep.A0)
            nvlib.write_json(os.path.join(nvlib.VERIF, "tools", "sweep_maxlen.json"), {c: r["max"] for c, r in res.items()})
        # member sets must be rebuilt from scratch: hide the old ones
        data["entries"] = [e for e in data["entries"] if e["property"] != prop]
        json.dump(data, open(path, "w"), indent=1)
        orc = {"cases": 0, "failures": [], "stats": {}}
        getattr(cpu_sweep, prop.lower() + "_oracle")(ctx, orc)
        ents = []
        groups = {}
        for f in orc["failures"]:
            m = re.match(r"^(C08:sweep:[a-z0-9_]+:(?:short|nonlocal|nonul|crash)):([0-9a-f]{4})$", f["sig"])
            if m:
                groups.setdefault(m.group(1), []).append(f)
                continue
            ents.append({"property": prop, "id": "sweep-" + nvlib.sha(f["sig"].encode())[:10], "state": "finding",
                         "match": re.escape(f["sig"]), "what": ("%s: %s; expected %s; observed %s" % (f["input"], f["what"], f["expected"], f["observed"]))[:400],
                         "replay": f.get("replay_line", "")})
        if prop == "C08":
            # full member sets (the oracle reports only the first few new members of a class)
            res = cpu_sweep.disxb_all(ctx, cpu_sweep.cpu_table(ctx), cpu_sweep.A0)
            for c, r in res.items():
                for kind, members in r["bad"].items():
                    sig = "C08:sweep:%s:%s" % (c, kind)
                    ents.append({"property": prop, "id": "sweep-" + nvlib.sha(sig.encode())[:10], "state": "finding",
                                 "match": re.escape(sig), "sig": sig, "members": cpu_sweep.set_to_ranges(members),
                                 "what": ".%s: %d of the 65536 two-byte prefixes (+ fixed tail) are disassembled with defect '%s' (%s)" % (
                                     c, len(members), kind, {"short": "length below one address unit", "nonlocal": "text/length depend on bytes after the reported length",
                                                             "nonul": "text not NUL-terminated in the buffer", "crash": "sanitizer report / crash"}[kind]),
                                 "replay": "disx %s %x %04x%s" % (c, cpu_sweep.A0, sorted(members)[0], cpu_sweep.TAIL)})
        data["entries"] += ents
        print(prop, "entries:", len(ents))
        json.dump(data, open(path, "w"), indent=1)

if __name__ == "__main__":
    main()
