#!/usr/bin/env python3
"""Regenerate the generated blocks of DESIGN.md: the seeded-change table (tools/seeded_table.py), the per-property
status table (from MANIFEST.json + evidence/*.json) and the list of fix: / hook commits of /repo."""
import json, os, re, subprocess, sys
V = os.path.dirname(os.path.dirname(os.path.abspath(__file__)))
sys.path.insert(0, os.path.join(V, "tools"))


def block(s, name, body):
    b, e = "<!-- %s-BEGIN -->" % name, "<!-- %s-END -->" % name
    new = b + "\n" + body.rstrip("\n") + "\n" + e
    if b in s:
        return s[:s.index(b)] + new + s[s.index(e) + len(e):]
    return s.rstrip("\n") + "\n\n" + new + "\n"


def status_table():
    m = json.load(open(os.path.join(V, "MANIFEST.json")))
    rows = ["| id | claimed | theorems (axiom-audited) | quick: cases, wall | known findings reproduced | modelled / not modelled (short) |",
            "|---|---|---|---|---|---|"]
    checks = {c["property_id"]: c for c in m["checks"]}
    na = {n["property_id"]: n["reason"] for n in m.get("not_applicable", [])}
    for i in range(1, 21):
        pid = "C%02d" % i
        if pid in checks:
            evp = os.path.join(V, "evidence", pid + ".json")
            if os.path.exists(evp):
                e = json.load(open(evp)); c = e["coverage"]
                rows.append("| %s | %s | %d | %d, %.0f s | %d | %s // NOT: %s |" % (
                    pid, checks[pid]["level_claimed"]["category"], len(c.get("theorems", [])), c.get("evaluations", 0), e.get("wall_s", 0),
                    len(c.get("known_findings_reproduced", [])), re.sub(r"\s+", " ", str(c.get("modelled", "")))[:140].replace("|", "/"),
                    re.sub(r"\s+", " ", str(c.get("not_modelled", "")))[:140].replace("|", "/")))
            else:
                rows.append("| %s | %s | - | - | - | (no evidence yet) |" % (pid, checks[pid]["level_claimed"]["category"]))
        else:
            rows.append("| %s | not claimed | - | - | - | %s |" % (pid, na.get(pid, "?").replace("|", "/")))
    return "\n".join(rows)


def fix_list():
    out = subprocess.run(["git", "-C", "/repo", "log", "--reverse", "--format=%h %s"], stdout=subprocess.PIPE).stdout.decode().split("\n")
    rows = []
    for l in out:
        if " fix:" in l[:16] or "verif hook" in l:
            rows.append("* `%s` %s" % (l.split(" ", 1)[0], l.split(" ", 1)[1].replace("|", "/")[:230]))
    return "%d commits on top of the pinned upstream commit (oldest first):\n\n" % len(rows) + "\n".join(rows)


def as_built():
    """Appendix B: the builders' as-built notes (notes/*.md), demoted by two heading levels"""
    out = []
    d = os.path.join(V, "notes")
    for f in sorted(os.listdir(d)):
        if not f.endswith(".md"):
            continue
        txt = open(os.path.join(d, f)).read().strip()
        txt = re.sub(r"(?m)^(#+) ", lambda m: "#" * min(6, len(m.group(1)) + 2) + " ", txt)
        out.append("### B.%s (notes/%s)\n\n%s\n" % (f[:-3], f, txt))
    return "\n".join(out)


def main():
    subprocess.run([sys.executable, os.path.join(V, "tools", "seeded_table.py")], check=True)
    p = os.path.join(V, "DESIGN.md")
    s = open(p).read()
    s = block(s, "STATUS-TABLE", status_table())
    s = block(s, "FIX-LIST", fix_list())
    s = block(s, "AS-BUILT", as_built())
    open(p, "w").write(s)

if __name__ == "__main__":
    main()
