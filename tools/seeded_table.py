#!/usr/bin/env python3
"""Rewrite the table between <!-- SEEDED-TABLE-BEGIN --> and <!-- SEEDED-TABLE-END --> in DESIGN.md from
seeded/*/meta.json and seeded/RESULTS.json."""
import json, os, re
V = os.path.dirname(os.path.dirname(os.path.abspath(__file__)))
res = json.load(open(os.path.join(V, "seeded", "RESULTS.json")))
rows = ["| change | property | what it does (short) | needs to manifest | caught by | how |", "|---|---|---|---|---|---|"]
for name in sorted(d for d in os.listdir(os.path.join(V, "seeded")) if os.path.isdir(os.path.join(V, "seeded", d))):
    meta = json.load(open(os.path.join(V, "seeded", name, "meta.json")))
    r = res.get(name, {})
    caught = [p for p, c in r.get("checks", {}).items() if c.get("exit") == 1 and c.get("violations", 0) > 0]
    how = []
    for p in caught:
        c = r["checks"][p]
        how.append("%s: %s" % (p, "broken obligation, no failing input found" if c.get("no_input") else "failing input replayed"))
    clean = lambda s: re.sub(r"\s+", " ", s).replace("|", "/")
    rows.append("| %s | %s | %s | %s | %s | %s |" % (name, meta["property"], clean(meta.get("summary", ""))[:160],
                clean(meta.get("needs_to_manifest", ""))[:160], ", ".join(caught) or ("**missed**" if r else "not run yet"),
                "; ".join(how) or "-"))
p = os.path.join(V, "DESIGN.md")
s = open(p).read()
b, e = "<!-- SEEDED-TABLE-BEGIN -->", "<!-- SEEDED-TABLE-END -->"
new = b + "\n" + "\n".join(rows) + "\n" + e
if b in s:
    s = s[:s.index(b)] + new + s[s.index(e) + len(e):]
else:
    s = s.rstrip("\n") + "\n\n" + new + "\n"
open(p, "w").write(s)
print(len(rows) - 2, "rows")
