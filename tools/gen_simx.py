"""Generators of `simx <cpu> <state> <cells>` lines (C15): complete simulator states inside each
simulator's own invariant, first opcode byte/word exhaustive, operands sampled, boundary biased."""


def hexarr(vals, digits):
    return "".join("%0*x" % (digits, v) for v in vals)


def kv(pairs):
    return ",".join("%s=%s" % (k, v if isinstance(v, str) else "%x" % v) for k, v in pairs)


def cells(d):
    return ",".join("%x:%02x" % (a, d[a]) for a in sorted(d)) if d else "-"


def common(rng, extra_show=True):
    return [("cyc", rng.choice([0, 0, 1, 0x1000, 0x7fff0000])), ("stop", rng.choice([0, 0, 1])),
            ("show", rng.choice([0, 0, 0, 1]) if extra_show else 0)]


# ---- tms1000 ------------------------------------------------------------------------------
def tms1000_lines(rng, per_opcode):
    """all 256 opcodes x per_opcode states: X/Y/A at 0 and max, PC at the LFSR corner values, CL/S both ways,
    RAM nibbles 0 / 15 / random"""
    lines, strata = [], set()
    for opcode in range(256):
        for i in range(per_opcode):
            edge = i < 4
            pc = rng.choice([0, 0x1f, 0x3f, 0x20, 0x3e]) if edge else rng.randrange(64)
            pa = rng.choice([0, 15]) if edge else rng.randrange(16)
            x = rng.choice([0, 3]) if edge else rng.randrange(4)
            y = rng.choice([0, 15]) if edge else rng.randrange(16)
            a = rng.choice([0, 15, 9]) if edge else rng.randrange(16)
            ramkind = rng.randrange(3)
            ram = [0 if ramkind == 0 else 15 if ramkind == 1 else rng.randrange(16) for _ in range(64)]
            ram[(x << 4) | y] = rng.choice([0, 1, 15, rng.randrange(16)])
            st = [("pc", pc), ("pa", pa), ("pb", rng.choice([0, 15, rng.randrange(16)])), ("cl", rng.randrange(2)),
                  ("sr", rng.choice([0, 0x3f, rng.randrange(64)])), ("s", rng.randrange(2)), ("a", a), ("x", x), ("y", y),
                  ("r", rng.choice([0, 0xffff, rng.getrandbits(16)])), ("o", rng.getrandbits(8)),
                  ("k", rng.choice([0, 15, rng.randrange(16)]))] + common(rng) + [("ram", hexarr(ram, 2))]
            mem = {(pa << 6) | pc: opcode}
            for _ in range(3):
                mem[rng.randrange(0x400)] = rng.getrandbits(8)
            mem[(pa << 6) | pc] = opcode
            lines.append("simx tms1000 %s %s" % (kv(st), cells(mem)))
            strata.add((opcode, x, y))
    return lines, {"opcodes": 256, "strata(opcode,x,y)": len(strata)}


GENERATORS = {"tms1000": tms1000_lines}
