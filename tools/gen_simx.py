"""Generators of `simx <cpu> <state> <cells>` lines (C15): complete simulator states inside each
simulator's own invariant, first opcode byte/word exhaustive, operands sampled, boundary biased."""


def hexarr(vals, digits):
    return "".join("%0*x" % (digits, v) for v in vals)


def kv(pairs):
    return ",".join("%s=%s" % (k, v if isinstance(v, str) else "%x" % v) for k, v in pairs)


def cells(d):
    return ",".join("%x:%02x" % (a, d[a]) for a in sorted(d)) if d else "-"


def common(rng, extra_show=True):
    return [("cyc", rng.choice([0, 0, 1, 0x1000, 0x7fff0000])), ("stop", rng.choice([0, 0, 1])),
            ("show", rng.choice([0, 0, 0, 1]) if extra_show else 0)]


# ---- tms1000 ------------------------------------------------------------------------------
def tms1000_lines(rng, per_opcode):
    """all 256 opcodes x per_opcode states: X/Y/A at 0 and max, PC at the LFSR corner values, CL/S both ways,
    RAM nibbles 0 / 15 / random"""
    lines, strata = [], set()
    for opcode in range(256):
        for i in range(per_opcode):
            edge = i < 4
            pc = rng.choice([0, 0x1f, 0x3f, 0x20, 0x3e]) if edge else rng.randrange(64)
            pa = rng.choice([0, 15]) if edge else rng.randrange(16)
            x = rng.choice([0, 3]) if edge else rng.randrange(4)
            y = rng.choice([0, 15]) if edge else rng.randrange(16)
            a = rng.choice([0, 15, 9]) if edge else rng.randrange(16)
            ramkind = rng.randrange(3)
            ram = [0 if ramkind == 0 else 15 if ramkind == 1 else rng.randrange(16) for _ in range(64)]
            ram[(x << 4) | y] = rng.choice([0, 1, 15, rng.randrange(16)])
            st = [("pc", pc), ("pa", pa), ("pb", rng.choice([0, 15, rng.randrange(16)])), ("cl", rng.randrange(2)),
                  ("sr", rng.choice([0, 0x3f, rng.randrange(64)])), ("s", rng.randrange(2)), ("a", a), ("x", x), ("y", y),
                  ("r", rng.choice([0, 0xffff, rng.getrandbits(16)])), ("o", rng.getrandbits(8)),
                  ("k", rng.choice([0, 15, rng.randrange(16)]))] + common(rng) + [("ram", hexarr(ram, 2))]
            mem = {(pa << 6) | pc: opcode}
            for _ in range(3):
                mem[rng.randrange(0x400)] = rng.getrandbits(8)
            mem[(pa << 6) | pc] = opcode
            lines.append("simx tms1000 %s %s" % (kv(st), cells(mem)))
            strata.add((opcode, x, y))
    return lines, {"opcodes": 256, "strata(opcode,x,y)": len(strata)}


# ---- 8008 -----------------------------------------------------------------------------------
def i8008_lines(rng, per_opcode):
    """all 256 opcodes x per_opcode states: SP at 0 and 7 (both edges of stack[8]), PC at 0 / 0xffff / 0xfffe (operands
    wrapping through the top of memory), H:L at 0 and 0xffff, every flag combination over the run"""
    lines, strata = [], set()
    for opcode in range(256):
        for i in range(per_opcode):
            edge = i < 4
            pc = rng.choice([0, 0xffff, 0xfffe, 0xfffd, 0x3fff]) if edge else rng.getrandbits(16)
            sp = rng.choice([0, 7]) if edge else rng.randrange(8)
            reg = [rng.choice([0, 0xff, 0x80, 0x7f, rng.getrandbits(8)]) for _ in range(8)]
            if edge:
                reg[5], reg[6] = rng.choice([(0, 0), (0xff, 0xff), (0xff, 0xfe), (0x3f, 0xff)])
            stack = [rng.choice([0, 0xffff, rng.getrandbits(16)]) for _ in range(8)]
            st = [("pc", pc), ("sp", sp), ("fp", rng.randrange(2)), ("fs", rng.randrange(2)), ("fc", rng.randrange(2)),
                  ("fz", rng.randrange(2))] + common(rng) + [("reg", hexarr(reg, 2)), ("stack", hexarr(stack, 4))]
            mem = {}
            for k in range(1, 4):
                mem[(pc + k) & 0xffff] = rng.choice([0, 0xff, rng.getrandbits(8)])
            if pc == 0xffff:
                mem[0x10000] = rng.getrandbits(8)          # Memory::read16(0xffff) reads address 0x10000
            mem[(reg[5] << 8) | reg[6]] = rng.getrandbits(8)
            mem[pc] = opcode
            lines.append("simx 8008 %s %s" % (kv(st), cells(mem)))
            strata.add((opcode, sp))
    return lines, {"opcodes": 256, "strata(opcode,sp)": len(strata)}


# ---- lc3 ------------------------------------------------------------------------------------
def lc3_lines(rng, per_pattern):
    """first opcode byte (bits 15..8: operation, DR, n/z/p) exhaustive x 4 patterns of the low byte (mode bit 5,
    0x3f / 0x00 / 0xc0 forms) + random low bytes; PC at 0 / 0xffff, registers at 0 / 0xffff / 0x8000, PSR with
    every n/z/p and the privilege bit, stop_running both ways"""
    lines, strata = [], set()
    lows = [0x00, 0x3f, 0xc0, 0x20, 0x1f, 0xff]
    for hi in range(256):
        for i in range(per_pattern):
            lo = lows[i] if i < len(lows) else rng.getrandbits(8)
            opcode = (hi << 8) | lo
            edge = i < 4
            pc = rng.choice([0, 0xffff, 0xfffe, 0x3000, 0x7fff, 0x8000]) if edge else rng.getrandbits(16)
            reg = [rng.choice([0, 0xffff, 0x8000, 0x7fff, 1, rng.getrandbits(16)]) for _ in range(8)]
            psr = rng.choice([0, 1, 2, 4, 7, 0x8000, 0x8002, 0x0700, rng.getrandbits(16)])
            st = [("pc", pc), ("psr", psr)] + common(rng) + [("reg", hexarr(reg, 4))]
            mem = {}
            def word(a, v):
                mem[(a & 0xffff) * 2] = v >> 8
                mem[(a & 0xffff) * 2 + 1] = v & 0xff
            # operands: pc-relative, base+offset, trap vector, indirect targets
            off9 = opcode & 0x1ff
            if off9 & 0x100:
                off9 |= 0xff00
            tgt = (pc + 1 + off9) & 0xffff
            ind = rng.choice([0, 0xffff, rng.getrandbits(16)])
            word(tgt, ind)
            word(ind, rng.getrandbits(16))
            word(opcode & 0xff, rng.getrandbits(16))
            off6 = opcode & 0x3ff
            if off6 & 0x200:
                off6 |= 0xfe00
            word(reg[(opcode >> 6) & 7] + off6, rng.getrandbits(16))
            word(pc, opcode)
            lines.append("simx lc3 %s %s" % (kv(st), cells(mem)))
            strata.add((hi, lo & 0x20))
    return lines, {"first_bytes": 256, "strata(hi,bit5)": len(strata)}


def parse_answer(a):
    """'ret=<r> k=v,... mem=<cells>' -> (ret, {k: str}, {addr: byte}) or None"""
    parts = a.split(" ")
    if len(parts) != 3 or not parts[0].startswith("ret=") or not parts[2].startswith("mem="):
        return None
    st = dict(x.split("=", 1) for x in parts[1].split(","))
    mem = {}
    if parts[2] != "mem=-":
        for c in parts[2][4:].split(","):
            x, y = c.split(":")
            mem[int(x, 16)] = int(y, 16)
    return int(parts[0][4:]), st, mem


def _arr(st, k, digits):
    v = st[k]
    return [int(v[i:i + digits], 16) for i in range(0, len(v), digits)]


def inv_tms1000(st):
    bad = [k for k, lim in (("pc", 64), ("pa", 16), ("pb", 16), ("sr", 64), ("cl", 2), ("s", 2), ("a", 16), ("x", 4), ("y", 16))
           if int(st[k], 16) >= lim]
    if any(v >= 16 for v in _arr(st, "ram", 2)):
        bad.append("ram")
    return bad


def inv_8008(st):
    return ["sp"] if int(st["sp"], 16) >= 8 else []


# the invariant each simulator maintains (checked on the REAL state after every step) and the size of its address space
def inv_6502(st):
    return [k for k in ("a", "x", "y", "sp") if int(st[k], 16) > 0xff]


INVARIANT = {"tms1000": inv_tms1000, "8008": inv_8008, "lc3": lambda st: [], "6502": inv_6502, "tms9900": lambda st: [],
             "ebpf": lambda st: [], "1802": lambda st: [k for k in ("p", "x") if int(st[k], 16) > 15]}
MEM_LIMIT = {"tms1000": 0x400, "8008": 0x10000, "lc3": 0x20000, "6502": 0x10000, "tms9900": 0x10000, "ebpf": 0, "1802": 0x10000}
# tms1000 never writes simulated memory: its limit is only used for "cells not given must stay absent"

# ---- 6502 -----------------------------------------------------------------------------------
def m6502_lines(rng, per_opcode):
    """all 256 opcodes x per_opcode states: SP at 0x00 / 0xff (both edges of the stack page), X / Y at 0 and 0xff (index
    wrap in zero page and at 0xffff), PC at 0xfffd..0xffff (operands and the next PC beyond 64 KiB) and at the operand's own
    address (self-modifying store: the disassembler measures the new byte), decimal flag both ways, stop_running both ways,
    a few cases with break_io armed on the written address (answer exit=<status>)"""
    lines, strata = [], set()
    for opcode in range(256):
        for i in range(per_opcode):
            edge = i < 5
            pc = rng.choice([0xffff, 0xfffe, 0xfffd, 0, 0x00fe, 0x01ff]) if edge else rng.getrandbits(16)
            sp = rng.choice([0, 0xff, 1, 0xfe]) if edge else rng.getrandbits(8)
            x = rng.choice([0, 0xff, 1]) if edge else rng.getrandbits(8)
            y = rng.choice([0, 0xff, 1]) if edge else rng.getrandbits(8)
            a = rng.choice([0, 0xff, 0x80, 0x7f, 0x99, 0x0f, rng.getrandbits(8)])
            sr = rng.choice([0, 0xff, 0x08, 0x09, 0x01, rng.getrandbits(8)])
            mem = {}
            lo, hi = rng.choice([(0, 0), (0xff, 0xff), (0xff, 0), (0xfe, 0xff), (rng.getrandbits(8), rng.getrandbits(8))])
            kind = rng.randrange(8)
            if kind == 0:                                   # operand address = the instruction itself
                lo, hi = pc & 0xff, (pc >> 8) & 0xff
            mem[(pc + 1) & 0xffff], mem[(pc + 2) & 0xffff] = lo, hi
            mem[pc + 1], mem[pc + 2] = lo, hi               # what calc_address / the disassembler read unmasked
            for base in (lo, (lo + x) & 0xff, lo + x, (lo + 1) & 0xff, (lo + 1 + x) & 0xff, lo | (hi << 8), ((lo | (hi << 8)) + 1) & 0xffff,
                         0x100 + sp, 0x100 + ((sp + 1) & 0xff), 0x100 + ((sp + 2) & 0xff), 0x100 + ((sp + 3) & 0xff)):
                mem.setdefault(base, rng.choice([0, 0xff, rng.getrandbits(8)]))
            mem[pc] = opcode
            st = [("a", a), ("x", x), ("y", y), ("sr", sr), ("pc", pc), ("sp", sp)] + common(rng)
            if kind == 1 and i >= 5:
                st.append(("bio", rng.choice([lo, lo | (hi << 8), 0x100 + sp, (lo + x) & 0xff])))
            lines.append("simx 6502 %s %s" % (kv(st), cells(mem)))
            strata.add((opcode, sp in (0, 0xff), pc >= 0xfffd))
    return lines, {"opcodes": 256, "strata(opcode,sp edge,pc top)": len(strata)}


# ---- tms9900 / ebpf: simulators that execute nothing ------------------------------------------
def tms9900_lines(rng, per_opcode):
    lines = []
    for b in range(256):
        for i in range(max(1, per_opcode // 4)):
            pc = rng.choice([0, 0xffff, 0xfffe, rng.getrandbits(16)])
            st = [("pc", pc), ("wp", rng.choice([0, 0xffe0, 0xffff, rng.getrandbits(16)])), ("st", rng.getrandbits(16))] + common(rng)
            mem = {pc: b, (pc + 1) & 0xffff: rng.getrandbits(8)}
            lines.append("simx tms9900 %s %s" % (kv(st), cells(mem)))
    return lines, {"first_bytes": 256}


def ebpf_lines(rng, per_opcode):
    lines = []
    for b in range(256):
        st = [("pc", rng.choice([0, 0xfffffff8, rng.getrandbits(32)]))] + common(rng) + \
             [("reg", hexarr([rng.choice([0, 0xffffffff, 0x80000000, rng.getrandbits(32)]) for _ in range(16)], 8))]
        lines.append("simx ebpf %s %s" % (kv(st), cells({0: b, 1: rng.getrandbits(8)})))
    return lines, {"first_bytes": 256}


# ---- 1802 -----------------------------------------------------------------------------------
def c1802_lines(rng, per_opcode):
    """all 256 opcodes (0x68: the second byte sampled over all 256 too) x per_opcode states: P and X at 0 / 15 / equal / aliasing N,
    R(P), R(X), R(N) at 0 / 0xffff / 0x00ff / 0xff00, D and the flags at 0 / 1 / 0x80 / 0xff (SHL leaves DF = 0x80), counter at 0 / 1,
    ETQ 0 / 1, armed break_io on the written address"""
    lines, strata = [], set()
    ops = [(o, None) for o in range(256)] + [(0x68, e) for e in range(256)]
    for opcode, ext in ops:
        for i in range(per_opcode if ext is None else max(1, per_opcode // 4)):
            edge = i < 4
            n = opcode & 15
            p = rng.choice([0, 15, n, (n + 1) & 15]) if edge else rng.randrange(16)
            x = rng.choice([0, 15, n, p]) if edge else rng.randrange(16)
            r = [rng.choice([0, 0xffff, 0x00ff, 0xff00, 0xfffe, 1, rng.getrandbits(16)]) for _ in range(16)]
            pc = r[p]
            mem = {}
            for k in range(1, 4):
                mem[pc + k] = rng.choice([0, 0xff, rng.getrandbits(8)])          # unmasked (READ_RAM(PC + 1) is an int)
                mem.setdefault((pc + k) & 0xffff, rng.choice([0, 0xff, rng.getrandbits(8)]))
            if ext is not None:
                mem[pc + 1] = ext
                mem[(pc + 1) & 0xffff] = ext
            for a in set([r[x], (r[x] + 1) & 0xffff, (r[x] + 2) & 0xffff, r[n], (r[n] + 1) & 0xffff, r[2]]):
                mem.setdefault(a, rng.choice([0, 0xff, 0x99, rng.getrandbits(8)]))
            mem[pc] = opcode
            fl = lambda: rng.choice([0, 1, 1, 0x80, 0xff])
            st = [("d", rng.choice([0, 0xff, 0x80, 0x99, 0x0a, rng.getrandbits(8)])), ("p", p), ("x", x), ("t", rng.getrandbits(8)),
                  ("n", rng.randrange(16)), ("i", rng.randrange(16)), ("b", rng.getrandbits(8)),
                  ("cntr", rng.choice([0, 1, 2, 0xff])), ("cn", rng.getrandbits(8)), ("df", fl()), ("q", rng.choice([0, 1])),
                  ("mie", rng.choice([0, 1])), ("cie", rng.choice([0, 1])), ("xie", rng.choice([0, 1])), ("cil", rng.choice([0, 1])),
                  ("etq", rng.choice([0, 1, 0xbe]))] + common(rng)
            if not edge and rng.randrange(8) == 0:
                st.append(("bio", rng.choice([r[x], r[n], (r[x] - 1) & 0xffff, r[2]])))
            st.append(("r", hexarr(r, 4)))
            lines.append("simx 1802 %s %s" % (kv(st), cells(mem)))
            strata.add((opcode, ext, p == x))
    return lines, {"opcodes": 256, "extended_second_bytes": 256, "strata(opcode,ext,p==x)": len(strata)}


GENERATORS = {"1802": c1802_lines, "tms9900": tms9900_lines, "ebpf": ebpf_lines, "tms1000": tms1000_lines, "8008": i8008_lines, "lc3": lc3_lines, "6502": m6502_lines}
