#!/bin/bash
# usage: confirm_seeded.sh <dir with patch.diff demo.sh meta.json> <seeded name>
# Confirms in a scratch worktree of /repo's HEAD: demo passes without the change, the change applies and
# compiles, demo fails with it, the full test suite still passes.  On success copies the change to
# /verif/seeded/<name>/ with a "confirmed" record in meta.json.  Removes the worktree afterwards.
set -u
SRC=$1; NAME=$2; WT=/tmp/wt/confirm_$NAME; LOG=/tmp/wt/confirm_$NAME.log
exec > $LOG 2>&1
git -C /repo worktree remove --force $WT 2>/dev/null
git -C /repo worktree add -q $WT HEAD || exit 2
cp /repo/config.mak $WT/config.mak
cd $WT
make > build0.log 2>&1 || { echo "BASE BUILD FAILED"; exit 2; }
bash $SRC/demo.sh $WT > demo0.log 2>&1; D0=$?
git apply $SRC/patch.diff || { echo "PATCH DOES NOT APPLY"; git -C /repo worktree remove --force $WT; exit 3; }
make clean > /dev/null 2>&1; make > build1.log 2>&1 || { echo "MUTANT BUILD FAILED"; git -C /repo worktree remove --force $WT; exit 4; }
bash $SRC/demo.sh $WT > demo1.log 2>&1; D1=$?
make tests > tests.log 2>&1; T=$?
PASS=$(grep -c PASS tests.log); FAIL=$(grep -ci "fail" tests.log)
echo "demo_clean=$D0 demo_mutant=$D1 tests_exit=$T pass=$PASS fail=$FAIL"
OK=0
if [ $D0 -eq 0 ] && [ $D1 -ne 0 ] && [ $T -eq 0 ] && [ $FAIL -eq 0 ] && [ $PASS -ge 7900 ]; then OK=1; fi
if [ $OK -eq 1 ]; then
  mkdir -p /verif/seeded/$NAME
  cp $SRC/patch.diff $SRC/demo.sh /verif/seeded/$NAME/
  python3 - "$SRC/meta.json" "/verif/seeded/$NAME/meta.json" "$D0" "$D1" "$PASS" "$FAIL" <<'PY'
import json,sys,subprocess
m=json.load(open(sys.argv[1]))
m["confirmed"]={"by":"tools/confirm_seeded.sh in a scratch worktree of /repo HEAD","repo_head":subprocess.check_output(["git","-C","/repo","rev-parse","--short","HEAD"]).decode().strip(),
  "demo_exit_without_change":int(sys.argv[3]),"demo_exit_with_change":int(sys.argv[4]),"tests_PASS_lines":int(sys.argv[5]),"tests_FAIL_lines":int(sys.argv[6]),
  "ran":"make clean && make && demo.sh && make tests"}
json.dump(m,open(sys.argv[2],"w"),indent=1)
PY
  echo CONFIRMED
else
  echo REJECTED
fi
cd /; git -C /repo worktree remove --force $WT
