#!/usr/bin/env python3
"""usage: manifest_add.py <ID> <technique> <level text> <level note> [design_ref]  — add/replace a check entry"""
import json, sys
pid, technique, text, note = sys.argv[1:5]
ref = sys.argv[5] if len(sys.argv) > 5 else "DESIGN.md section 7 " + pid
m = json.load(open('/verif/MANIFEST.json'))
m['checks'] = [c for c in m['checks'] if c['property_id'] != pid]
m['checks'].append({
  "property_id": pid,
  "quick_cmd": "python3 tools/check.py %s --tier quick" % pid,
  "thorough_cmd": "python3 tools/check.py %s --tier thorough" % pid,
  "evidence_file": "/verif/evidence/%s.json" % pid,
  "replay_cmd_template": "python3 tools/check.py %s --replay {path}" % pid,
  "engine": "lean",
  "level_claimed": {"category": "proof", "text": text, "design_ref": ref},
  "level_note": note,
  "technique": technique})
m['checks'].sort(key=lambda c: c['property_id'])
m['not_applicable'] = [n for n in m.get('not_applicable', []) if n['property_id'] != pid]
for e in m.get('engines', []):
    if pid not in e['serves_properties']:
        e['serves_properties'].append(pid); e['serves_properties'].sort()
json.dump(m, open('/verif/MANIFEST.json', 'w'), indent=1)
print("checks:", [c['property_id'] for c in m['checks']])
