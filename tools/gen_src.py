"""Program generator shared by the driver-level properties (C12, C13, C18).

Valid statements per CPU come from corpus/statements/<cpu>.txt (a snapshot of the
instruction column of /repo/tests/comparison/*.txt taken when the framework was built;
it is data for the generator only, never an oracle).
"""
import os

HERE = os.path.dirname(os.path.dirname(os.path.abspath(__file__)))
NEEDS_EXTRA = {"epiphany", "8051", "lc3", "pic32", "n64_rsp", "ps2_ee_vu1", "ps2_ee"}

_cache = {}


def statements(cpu):
    if cpu not in _cache:
        p = os.path.join(HERE, "corpus", "statements", cpu + ".txt")
        out = []
        for line in open(p, encoding="latin-1"):
            s = line.rstrip("\n")
            if not s.strip() or ":" in s.split(" ")[0]:
                continue          # the 'main: jmp main' forms carry their own label
            out.append(s.strip())
        _cache[cpu] = out
    return _cache[cpu]


def cpus():
    d = os.path.join(HERE, "corpus", "statements")
    return sorted(f[:-4] for f in os.listdir(d) if f.endswith(".txt") and f[:-4] not in NEEDS_EXTRA)


DATA = [".db 1, 2, 3", ".db \"hello\", 0", ".dw 0x1234, 5", ".dc32 0x11223344", ".dc64 0x1122334455667788",
        ".dc16 100", ".ascii \"ab\"", ".asciiz \"xyz\"", ".db 0xff", ".dc32 1 << 20", ".dw 3 * 7 + 1"]


def base_program(rng, cpu, n=None, features=True):
    """a valid program: list of source lines.  Every line is one statement."""
    st = statements(cpu)
    n = n or rng.randrange(3, 10)
    lines = ["." + cpu, ".org 0x%x" % rng.choice([0, 0x100, 0x1000, 0x2000, 0x8000])]
    lab = 0
    for i in range(n):
        r = rng.random()
        if r < 0.15:
            lines.append("lab%d:" % lab); lab += 1
        if r < 0.6 and st:
            lines.append("  " + rng.choice(st))
        else:
            lines.append("  " + rng.choice(DATA))
    if features:
        k = rng.randrange(6)
        if k == 0:
            lines += [".define VALUE_A 7", "  .db VALUE_A"]
        elif k == 1:
            lines += [".macro PUT(a, b)", "  .db a, b", ".endm", "  PUT(1, 2)", "  PUT(3 + 1, 9)"]
        elif k == 2:
            lines += [".if 1 == 1", "  .db 0x11", ".else", "  .db 0x22", ".endif"]
        elif k == 3:
            lines += [".repeat 3", "  .db 0x33", ".endr"]
        elif k == 4:
            lines += ["CONST_B equ 9", "  .db CONST_B + 1"]
        else:
            lines += [".ifdef NOT_DEFINED_ANYWHERE", "  .db 0x44", ".endif", "  .db 0x55"]
    lines.append("endlab:")
    lines.append("  .db 0x5a")
    return lines


# single-point corruptions named by C12; each returns (new lines, kind) or None.
# Every kind listed in DEFINITE makes the program erroneous by any reading of the manual.
DEFINITE = {"unknown-mnemonic", "undefined-symbol", "db-out-of-range", "dw-out-of-range", "unknown-directive",
            "org-without-operand", "if-bad-expression", "ifdef-without-name", "else-without-if",
            "unterminated-macro", "unterminated-quote", "unterminated-comment", "duplicate-label",
            "missing-endif-skipped", "stray-token", "expression-trailing-operator", "divide-by-zero",
            "macro-missing-paren", "macro-wrong-arg-count", "include-missing-file", "repeat-without-endr"}


def corruptions():
    return sorted(DEFINITE)


def corrupt(rng, lines, kind, where=None):
    # only top-level positions: never inside a conditional, macro or repeat body
    feat = [k for k, l in enumerate(lines) if l.startswith((".if", ".macro", ".repeat", ".define"))]
    first = feat[0] if feat else len(lines) - 2
    body = [k for k in range(2, first + 1)] + [len(lines) - 2]
    body = [k for k in body if 0 <= k <= len(lines)] or [len(lines)]
    i = where if where is not None else rng.choice(body)
    ins = {
        "unknown-mnemonic": ["  qqzzmnemonic 1, 2"],
        "undefined-symbol": ["  .dc16 symbol_that_is_never_defined"],
        "db-out-of-range": ["  .db 256"] if rng.random() < 0.5 else ["  .db -129"],
        "dw-out-of-range": ["  .dw 65536"] if rng.random() < 0.5 else ["  .dw -32769"],
        "unknown-directive": ["  .qqzzdirective 1"],
        "org-without-operand": ["  .org"],
        "if-bad-expression": [".if 1 +", "  .db 1", ".endif"],
        "ifdef-without-name": [".ifdef", "  .db 1", ".endif"],
        "else-without-if": [".else"],
        "unterminated-macro": [".macro NEVER_ENDS(a)", "  .db a"],
        "unterminated-quote": ["  .db \"abc"],
        "unterminated-comment": ["  /* this comment never ends"],
        "duplicate-label": ["dup_label_x:", "  .db 1", "dup_label_x:"],
        "missing-endif-skipped": [".if 0", "  .db 1"],
        "stray-token": ["  ) ( ,"],
        "expression-trailing-operator": ["  .dc32 1 +"],
        "divide-by-zero": ["  .dc32 10 / (5 - 5)"],
        "macro-missing-paren": [".macro MP(a)", "  .db a", ".endm", "  MP(1"],
        "macro-wrong-arg-count": [".macro MW(a, b)", "  .db a, b", ".endm", "  MW(1)"],
        "include-missing-file": ["  .include \"file_that_does_not_exist.inc\""],
        "repeat-without-endr": [".repeat 2", "  .db 1"],
    }[kind]
    if kind in ("unterminated-macro", "unterminated-comment", "missing-endif-skipped", "repeat-without-endr"):
        # these swallow the rest of the file: place them anywhere
        pass
    return lines[:i] + ins + lines[i:], kind


_wrap_id = [0]


def wrap_once(rng, bad, k):
    _wrap_id[0] += 1
    u = _wrap_id[0]
    if k == 0:
        return [".if 1"] + bad + [".endif"], "taken-if"
    if k == 1:
        return [".if 0", "  .db 9", ".else"] + bad + [".endif"], "else"
    if k == 2:
        return [".macro WRAPM%d()" % u] + bad + [".endm", "  WRAPM%d()" % u], "macro"
    if k == 3:
        return [".repeat 2"] + bad + [".endr"], "repeat"
    if k == 4:
        return [".ifndef NEVER_DEFINED_NAME_%d" % u] + bad + [".endif"], "taken-ifndef"
    return [".ifdef NEVER_DEFINED_NAME_%d" % u, "  .db 8", ".else"] + bad + [".endif"], "ifdef-else"


def wrap_context(rng, lines, bad):
    """put the erroneous statement `bad` (list of lines) into 0..3 nested contexts"""
    depth = rng.choice([0, 1, 1, 2, 2, 3])
    names = []
    used_repeat = False
    for _ in range(depth):
        k = rng.randrange(6)
        if k == 3:
            if used_repeat:       # nested .repeat is documented as an error itself
                k = 0
            used_repeat = True
        bad, nm = wrap_once(rng, bad, k)
        names.append(nm)
    return lines[:-2] + bad + lines[-2:], ("in-" + "+".join(reversed(names))) if names else "plain"
