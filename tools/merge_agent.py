#!/usr/bin/env python3
"""merge_agent.py <agent verif copy> <ID,ID,...>: merge MANIFEST check entries and known_findings entries of the given properties"""
import json, sys
src, ids = sys.argv[1], sys.argv[2].split(",")
am = json.load(open(src + "/MANIFEST.json")); m = json.load(open("/verif/MANIFEST.json"))
for c in am["checks"]:
    if c["property_id"] in ids:
        m["checks"] = [x for x in m["checks"] if x["property_id"] != c["property_id"]] + [c]
        m["not_applicable"] = [n for n in m.get("not_applicable", []) if n["property_id"] != c["property_id"]]
        for e in m["engines"]:
            if c["property_id"] not in e["serves_properties"]: e["serves_properties"].append(c["property_id"])
m["checks"].sort(key=lambda c: c["property_id"])
for e in m["engines"]: e["serves_properties"].sort()
json.dump(m, open("/verif/MANIFEST.json", "w"), indent=1)
ak = json.load(open(src + "/known_findings.json")); k = json.load(open("/verif/known_findings.json"))
have = {e["id"] for e in k["entries"]}
n = 0
for e in ak["entries"]:
    if e["property"] in ids and e["id"] not in have:
        k["entries"].append(e); n += 1
json.dump(k, open("/verif/known_findings.json", "w"), indent=1)
print("checks now:", [c["property_id"] for c in m["checks"]], "; findings added:", n)
