#!/usr/bin/env python3
"""DEVELOPMENT TOOL: record the content hashes of every property's anchor files for the tree the models follow
(run after /repo's HEAD changed through a fix: commit and the models were brought up to date)."""
import json, os, sys
sys.path.insert(0, os.path.dirname(os.path.abspath(__file__)))
import nvlib
out = {}
for line in open(os.path.join(nvlib.VERIF, "properties.jsonl")):
    pid = json.loads(line)["id"]
    out[pid] = nvlib.anchor_fingerprint(pid)
nvlib.write_json(os.path.join(nvlib.VERIF, "tools", "anchor_fingerprints.json"), out)
print({k: len(v) for k, v in out.items()})
