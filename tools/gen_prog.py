"""Generators of mostly-valid assembly programs for the symbol (C11) and two-pass (C02) checks,
and the Python reference of the scoping rules (written from the property text and
docs/directives.md, not from Symbols.cpp).

A C11 program is a list of statements (tuples):
  ('cpu', name) ('label', name) ('ref', name) ('scope',) ('ends',) ('func', name) ('endf',)
  ('set', name, value) ('export', name) ('db', n) ('org', address)
Only data directives are used, so every statement has a size that is known without running the
assembler and the reference can compute every address itself.
"""

CPUS_DATA = {           # name -> (big endian, bytes per address) as documented for the CPU
    "msp430": (False, 1), "68000": (True, 1), "avr8": (False, 2), "6502": (False, 1),
    "mips": (True, 1), "riscv": (False, 1), "z80": (False, 1), "stm8": (True, 1),
}


def render(prog):
    out = []
    for st in prog:
        k = st[0]
        if k == "cpu": out.append("." + st[1])
        elif k == "label": out.append(st[1] + ":")
        elif k == "ref": out.append("  .dc32 " + st[1])
        elif k == "scope": out.append(".scope")
        elif k == "ends": out.append(".ends")
        elif k == "func": out.append(".func " + st[1])
        elif k == "endf": out.append(".endf")
        elif k == "set": out.append(".set %s = %d" % (st[1], st[2]))
        elif k == "export": out.append(".export " + st[1])
        elif k == "db": out.append("  .db " + ", ".join(str((i * 7 + 1) & 255) for i in range(st[1])))
        elif k == "org": out.append(".org 0x%x" % st[1])
        elif k == "raw": out.append(st[1])
        else: raise ValueError(k)
    return "\n".join(out) + "\n"


NAME_LIMIT = 254      # longest label the assembler documents/accepts ("up to the limit"); see notes/C11.md


def reference(prog):
    """The scoping rules of the property, executed on a program.

    Returns dict:
      status   : 0 (must assemble), 1 (must be rejected), None (not determined by the property)
      why      : reason for status 1 / None (class name, used in signatures)
      refs     : [(byte address, value, name, scope)] for every `.dc32 name`
      symbols  : [(name, value, scope)] in order of first definition
      exports  : {name: value}
    """
    big, bpa = False, 1
    # pass A: definitions
    addr = 0
    scope, nscopes = 0, 0
    labels = {}            # (name, scope) -> value
    order = []             # (name, scope, kind)
    setsyms = {}           # name -> list of (statement index, value)
    pending_sets = []
    status, why = 0, None
    unspecified = None

    def bad(reason):
        nonlocal status, why
        if status == 0:
            status, why = 1, reason

    def unspec(reason):
        nonlocal unspecified
        if unspecified is None:
            unspecified = reason

    for i, st in enumerate(prog):
        k = st[0]
        if k == "cpu":
            big, bpa = CPUS_DATA[st[1]]
        elif k in ("label", "func"):
            name = st[1]
            sc = scope if k == "label" else scope   # .func names the function in the enclosing scope
            if len(name) > NAME_LIMIT:
                bad("name-too-long")
            elif (name, sc) in labels:
                bad("duplicate" if k == "label" else "func-duplicate")
            else:
                labels[(name, sc)] = addr // bpa
                order.append((name, sc, "label", i))
            if k == "func":
                if scope != 0:
                    unspec("nested-scope")
                nscopes += 1
                scope = nscopes
        elif k == "scope":
            if scope != 0:
                unspec("nested-scope")
            nscopes += 1
            scope = nscopes
        elif k in ("ends", "endf"):
            if scope == 0:
                unspec("end-without-scope")
            scope = 0
        elif k == "set":
            pending_sets.append((i, st, scope))
        elif k == "ref":
            addr += 4
        elif k == "db":
            addr += st[1]
        elif k == "org":
            addr = st[1] * bpa
        elif k == "raw":
            unspec("raw")
    if scope != 0:
        unspec("unterminated-scope")
    # a .set whose name is visible as a label (order independent) does not create a .set symbol
    for i, st, sc in pending_sets:
        name = st[1]
        if (sc != 0 and (name, sc) in labels) or (name, 0) in labels:
            continue
        if name not in setsyms:
            order.append((name, 0, "set", i))
        setsyms.setdefault(name, []).append((i, st[2] & 0xffffffff, sc))

    # pass B: uses
    addr, scope, nscopes = 0, 0, 0
    refs, exports = [], {}

    def visible_label(name, sc):
        if sc != 0 and (name, sc) in labels:
            return labels[(name, sc)], sc
        if (name, 0) in labels:
            return labels[(name, 0)], 0
        return None

    def set_value(name, i):
        vals = [v for (j, v, _) in setsyms.get(name, []) if j < i]
        return vals[-1] if vals else None

    for i, st in enumerate(prog):
        k = st[0]
        if k == "func" or k == "scope":
            nscopes += 1
            scope = nscopes
        elif k in ("ends", "endf"):
            scope = 0
        elif k == "set":
            if visible_label(st[1], scope) is not None:
                bad("set-on-label")       # ".set: create or modify symbol's value (excluding labels)"
        elif k == "ref":
            name = st[1]
            v = visible_label(name, scope)
            if v is not None:
                refs.append((addr, v[0] & 0xffffffff, name, scope))
            elif name in setsyms:
                sv = set_value(name, i)
                if sv is None:
                    unspec("set-used-before-assignment")
                refs.append((addr, sv, name, scope))
            else:
                bad("undefined")
                refs.append((addr, None, name, scope))
            addr += 4
        elif k == "export":
            name = st[1]
            v = visible_label(name, scope)
            if v is not None:
                if v[1] != 0:
                    unspec("export-local")
                exports[name] = v[0]
            elif name in setsyms:
                exports[name] = setsyms[name][-1][1]
            else:
                bad("export-undefined")
        elif k == "db":
            addr += st[1]
        elif k == "org":
            addr = st[1] * bpa
    symbols = []
    order.sort(key=lambda e: e[3])
    for name, sc, kind, _ in order:
        if kind == "label":
            symbols.append((name, labels[(name, sc)] & 0xffffffff, sc))
        elif (name, 0) not in labels:
            symbols.append((name, setsyms[name][-1][1], 0))
    for name in list(exports):
        if (name, 0) not in labels and name in setsyms:
            exports[name] = setsyms[name][-1][1]
    if status == 0 and unspecified is not None:
        status, why = None, unspecified
    return {"status": status, "why": why, "refs": refs, "symbols": symbols, "exports": exports,
            "big": big, "bpa": bpa, "nscopes": nscopes}


# ---------------------------------------------------------------------------------------------
# C11 program generator
# ---------------------------------------------------------------------------------------------

def mkname(rng, short_pool, used_long):
    r = rng.random()
    if r < 0.7:
        return rng.choice(short_pool)
    if r < 0.8:
        n = rng.choice([1, 2, 31, 32, 33, 100, 127, 128, 200, 253, 254])
    else:
        n = rng.randrange(1, 60)
    alpha = "abcdefghijklmnopqrstuvwxyzABCDEFGHIJKLMNOPQRSTUVWXYZ_0123456789"
    s = "q" + "".join(rng.choice(alpha) for _ in range(n - 1)) if n > 1 else rng.choice("qQtTuU")
    used_long.append(s)
    return s


def gen_scoped(rng, size, cpu=None, faults=0.25):
    """Random arrangement of scopes/functions, definitions, forward/backward uses, shadowing,
    .set sequences, exports; with probability `faults` one single-point corruption."""
    cpu = cpu or rng.choice(list(CPUS_DATA))
    short_pool = ["n%d" % i for i in range(rng.randrange(2, 9))] + ["Foo", "foo", "v_1"]
    set_pool = ["s%d" % i for i in range(3)]
    longs = []
    prog = [("cpu", cpu)]
    if rng.random() < 0.5:
        prog.append(("org", rng.choice([0x10, 0x200, 0x1000, 0x8000, 0xfff0, 0x12340])))
    scope = 0
    nsc = 0
    isfunc = False
    defined = {}          # scope -> set of names (labels)
    for _ in range(size):
        r = rng.random()
        if r < 0.28:
            name = mkname(rng, short_pool, longs)
            if scope != 0 and rng.random() < 0.06:
                name = rng.choice(set_pool)          # local label shadowing a .set symbol
            if name in defined.setdefault(scope, set()) or (scope == 0 and name in set_pool):
                continue
            defined[scope].add(name)
            prog.append(("label", name))
        elif r < 0.55:
            pool = short_pool + longs[-4:]
            prog.append(("ref", rng.choice(pool)))
        elif r < 0.65:
            if scope == 0:
                nsc += 1
                scope = nsc
                isfunc = rng.random() < 0.4
                if isfunc:
                    name = "f%d" % nsc
                    defined.setdefault(0, set()).add(name)
                    prog.append(("func", name))
                    short_pool.append(name)
                else:
                    prog.append(("scope",))
            else:
                prog.append(("endf",) if isfunc else ("ends",))
                scope = 0
        elif r < 0.75:
            prog.append(("set", rng.choice(set_pool), rng.choice([0, 1, 2, 255, 0x1234, 0x7fffffff, 0xffffffff, rng.getrandbits(32)])))
        elif r < 0.82:
            prog.append(("ref", rng.choice(set_pool)))
        elif r < 0.90:
            prog.append(("db", rng.choice([1, 2, 3, 4, 7, 8])))
        elif r < 0.93:
            if scope == 0:
                cands = sorted(defined.get(0, ()))
                if cands:
                    prog.append(("export", rng.choice(cands)))
        else:
            prog.append(("db", 2 * rng.randrange(1, 4)))
    if scope != 0:
        prog.append(("endf",) if isfunc else ("ends",))
    # a .set symbol referenced before its first assignment is not determined by the property
    seen, fixed = set(), []
    for st in prog:
        if st[0] == "ref" and st[1] in set_pool and st[1] not in seen:
            fixed.append(("set", st[1], rng.getrandbits(16)))
            seen.add(st[1])
        if st[0] == "set":
            seen.add(st[1])
        fixed.append(st)
    prog = fixed
    # make most programs valid: define every referenced-but-undefined name globally at the end
    ref = reference(prog)
    if ref["status"] == 1 and ref["why"] == "undefined" and rng.random() < 0.9:
        missing = []
        for a, v, name, sc in ref["refs"]:
            if v is None and name not in missing and name not in set_pool:
                missing.append(name)
        for name in missing:
            prog.append(("label", name))
            prog.append(("db", 4))
    fault = None
    if rng.random() < faults:
        fault = rng.choice(["dup", "dup-local", "undef", "set-label", "func-dup", "long-name", "export-undef"])
        labs = [(i, st) for i, st in enumerate(prog) if st[0] == "label"]
        if fault == "dup" and labs:
            i, st = rng.choice(labs)
            j = rng.randrange(i + 1, len(prog) + 1)
            # duplicate at the same scope: insert directly after the original
            prog.insert(i + 1 if rng.random() < 0.5 else i, ("label", st[1]))
        elif fault == "dup-local":
            prog += [("scope",), ("label", "dd"), ("db", 1), ("label", "dd"), ("ends",)]
        elif fault == "undef":
            prog.insert(rng.randrange(1, len(prog) + 1), ("ref", "nowhere_%d" % rng.randrange(100)))
        elif fault == "set-label" and labs:
            i, st = rng.choice(labs)
            prog.insert(i + 1, ("set", st[1], 77))
        elif fault == "func-dup":
            prog += [("label", "fdup"), ("db", 2), ("func", "fdup"), ("endf",)]
        elif fault == "long-name":
            nm = "L" * rng.choice([255, 256, 257, 300, 400])
            prog += [("label", nm), ("ref", nm)]
        elif fault == "export-undef":
            prog.append(("export", "nowhere_x"))
    return prog, fault


def gen_many_labels(rng, count, name_len, scoped=False):
    """> 32 KiB of symbol entries (several pools): `count` labels with names of `name_len`
    characters, uses of early, middle and late labels before and after the definitions."""
    cpu = rng.choice(["msp430", "68000", "z80"])
    names = [("m%d" % i).ljust(name_len, "_") if name_len >= 8 else "m%d" % i for i in range(count)]
    picks = sorted(set([0, 1, count // 3, count // 2, count - 2, count - 1] +
                       [rng.randrange(count) for _ in range(12)]))
    prog = [("cpu", cpu), ("org", 0x100)]
    for p in picks:
        prog.append(("ref", names[p]))          # forward uses
    for i, n in enumerate(names):
        if scoped and i % 97 == 5:
            prog += [("scope",), ("label", names[(i * 31) % count]), ("ref", names[(i * 31) % count]),
                     ("ref", names[(i * 17) % count]), ("ends",)]
        prog.append(("label", n))
        prog.append(("db", 1 + (i % 3)))
        if i % 211 == 0:
            prog.append(("export", n))
    for p in picks:
        prog.append(("ref", names[p]))          # backward uses
    prog.append(("export", names[-1]))
    return prog


# ---------------------------------------------------------------------------------------------
# C02: programs for CPUs with variable-length encodings
# ---------------------------------------------------------------------------------------------
# A form is a template with one {} operand slot that accepts an address-like value.  `small` /
# `large` are values for which the CPU has (or may have) a shorter / needs the longer encoding;
# `rel` marks pc-relative forms (the target must be near).  `org` = (low area, code area).

FORMS = {
    "msp430": dict(lo=0x0, hi=0x8000, mark=".dc16", forms=[
        "mov.w #{}, r5", "mov.w #{}, &0x0200", "mov.b #{}, r6!", "add.w #{}, r7", "cmp.w #{}, r8",
        "mov.w {}(r4), r5", "mov.w r5, {}(r4)", "mov.w &{}, r5", "mov.w 6(r4), {}(r5)", "push.w #{}",
        "call #{}", "br #{}", "mov.w {}, r9", "bis.w #{}, r10", "xor.w #{}, 2(r11)", "and.b #{}, r12!",
        "sub.w #{}, &0x0220", "rra.w {}(r4)"], rel=["jmp {}", "jne {}"]),
    "msp430x": dict(lo=0x0, hi=0x8000, mark=".dc16", forms=[
        "mov.w #{}, r5", "mova #{}, r6", "mova &{}, r7", "mova r7, &{}", "calla #{}", "pushx.a #{}",
        "mova {}(r4), r5", "adda #{}, r8", "cmpa #{}, r9", "movx.w #{}, r5", "movx.a #{}, r5",
        "addx.w #{}, r6", "mov.w {}(r4), r5", "rra.w {}(r4)", "bra #{}"], rel=["jmp {}"]),
    "6502": dict(lo=0x10, hi=0x1000, mark=".db", forms=[
        "lda {}", "ldx {}", "ldy {}", "sta {}", "lda {},x", "lda {},y", "ldx {},y", "sta {},x", "adc {}",
        "inc {}", "asl {}", "cmp {}", "bit {}", "jmp {}", "jsr {}", "stx {}", "ora {},x", "trb {}", "dec {},x"],
        rel=["bne {}", "beq {}"]),
    "65816": dict(lo=0x10, hi=0x1000, mark=".db", forms=[
        "lda {}", "ldx {}", "ldy {}", "sta {}", "lda {},x", "sta {},x", "adc {}", "inc {}",
        "cmp {}", "jmp {}", "jsr {}", "ora {},x", "and {}", "eor {},x", "stz {}", "lda.b #10", "lda #10", "ldx {},y"],
        rel=["bne {}", "bra {}"]),
    "68hc08": dict(lo=0x10, hi=0x1000, mark=".db", forms=[
        "lda {}", "lda {},SP", "lda {},X", "sub {}", "ldx {},X", "sta {}", "add {}", "cmp {}", "and {},X",
        "ldx {}", "stx {}", "jmp {}", "jsr {}", "inc {}!", "eor {},SP", "ora {}"], rel=["bne {}", "bra {}"]),
    "68000": dict(lo=0x10, hi=0x12000, mark=".dc16", forms=[
        "move.l #{}, d0", "add.l ({}), d1", "move.w ({}), d2", "move.w d2, ({})", "lea ({}), a0", "jmp ({})",
        "jsr ({})", "cmp.w ({}), d3", "move.l ({}).w, d1", "move.l ({}).l, d1", "sub.w #1, d5", "addi.w #4, ({})",
        "tst.w ({})", "clr.l ({})", "pea ({})"], rel=["bra.s {}", "bne.s {}", "bsr.w {}", "bra.w {}", "dbra d0, {}"]),
    "mips": dict(lo=0x10, hi=0x40000, mark=".dc32", forms=[
        "li $v0, {}", "li $a0, {}", "la $a1, {}", "j {}", "jal {}", "lw $t0, {}($zero)!", "addiu $t1, $zero, {}!",
        "ori $t2, $zero, {}!"], rel=["b {}", "beq $t0, $t1, {}"]),
    "mips32": dict(lo=0x10, hi=0x40000, mark=".dc32", forms=[
        "li $v0, {}", "li $a0, {}", "la $a1, {}", "j {}", "jal {}", "ori $t2, $zero, {}!"], rel=["b {}"]),
    "stm8": dict(lo=0x10, hi=0x1000, mark=".db", forms=[
        "ld a, {}", "ld a, ({},Y)", "ld a, ({},X)", "ldw x, {}", "ld {}, a", "jp {}", "call {}", "add a, {}",
        "cp a, {}", "clr {}", "inc {}", "ldw y, {}", "ld a, ({},SP)", "and a, ({},X)", "ldw x, #{}",
        "tnz {}", "jpf {}", "callf {}"], rel=["jrne {}", "jra {}", "callr {}"]),
    "riscv": dict(lo=0x10, hi=0x40000, mark=".dc32", forms=[
        "li a0, {}", "li t0, {}", "call {}", "jal ra, {}", "lui a2, {}", "addi a3, zero, {}!",
        "tail {}", "j {}", "jal {}"], rel=["beq a0, a1, {}", "bne t0, t1, {}"]),
    "z80": dict(lo=0x10, hi=0x1000, mark=".db", forms=[
        "ld a, ({})", "ld ({}), a", "jp {}", "call {}", "ld hl, {}", "ld hl, ({})", "ld bc, {}", "ld ({}), hl",
        "jp nz, {}", "ld ix, {}", "ld sp, {}", "ld de, ({})", "call z, {}"], rel=["jr {}", "jr nz, {}", "djnz {}"]),
    "avr8": dict(lo=0x10, hi=0x800, mark=".dc16", forms=[
        "jmp {}", "call {}", "lds r16, {}", "sts {}, r17", "ldi r18, 10", "nop"],
        rel=["breq {}", "brne {}", "rjmp {}", "rcall {}"]),
    "6800": dict(lo=0x10, hi=0x1000, mark=".db", forms=[
        "ldaa {}", "staa {}", "ldx {}", "jmp {}", "jsr {}", "adda {}", "cmpa {}", "inc {}", "ldab {},x!"],
        rel=["bne {}", "bra {}"]),
    "8051": dict(lo=0x10, hi=0x1000, mark=".db", forms=[
        "ljmp {}", "lcall {}", "mov dptr, #{}", "mov {}, a!"],
        rel=["sjmp {}", "jz {}"]),
    "thumb": dict(lo=0x10, hi=0x1000, mark=".dc16", forms=["ldr r0, [pc, #8]", "mov r1, #5", "bl {}"],
        rel=["b {}", "beq {}"]),
    "arm": dict(lo=0x10, hi=0x1000, mark=".dc32", forms=["mov r0, #1", "bl {}", "mov r2, #0xff"], rel=["b {}", "bne {}", "ldr r1, {}"]),
    "tms9900": dict(lo=0x10, hi=0x1000, mark=".dc16", forms=[
        "li r1, {}", "mov @{}, r2", "mov r2, @{}", "bl @{}", "b @{}", "a @{}(r3), r4", "clr @{}", "ai r1, {}"],
        rel=["jmp {}", "jne {}"]),
    "6809": dict(lo=0x10, hi=0x1000, mark=".db", forms=[
        "lda {},x", "ldb {},y", "leax {},u", "lda {}", "sta {}", "jmp {}", "jsr {}", "ldx #{}", "lda [{},x]",
        "adda {},s", "ldd {}", "clra", "lda #10", "stb {},x", "leay {},y"], rel=["bra {}", "lbra {}", "bne {}"]),
    "tms340": dict(lo=0x10, hi=0x1000, mark=".dc16", forms=[
        "movi {}, a1", "addi {}, a2", "move @{}, a3, 0", "move a3, @{}, 0", "calla {}", "jauc {}", "nop",
        "movk 5, a1", "jruc {}", "jrne {}", "andi {}, a4", "cmpi {}, a5"], rel=["jruc {}", "jreq {}"]),
    "pdp11": dict(lo=0x10, hi=0x1000, mark=".dc16", forms=[
        "mov #{}, r0", "mov @#{}, r1", "jmp @#{}", "jsr pc, @#{}", "add {}(r2), r3", "clr @#{}"], rel=["br {}", "bne {}"]),
}


ALIGNED = ("msp430", "msp430x", "68000", "mips", "mips32", "riscv", "arm", "thumb", "avr8", "tms9900", "pdp11", "tms340")

ODD_DATA = ['.db 1', '.db 1, 2, 3', '.ascii "abc"', '.asciiz "ab"', '.db 7', '.ascii "x"', '.db 1, 2, 3, 4, 5']
EVEN_DATA_ALIGNED = [".dc32 0x12345678", ".dc32 1, 2", ".align 32", ".dc16 0x1234, 0x5678"]
EVEN_DATA = [".db 1, 2, 3", ".dc16 0x1234", ".dc32 0x12345678", ".db 7", ".ascii \"ab\"", ".align 32"]
DATA_LEN = {'.db 1': 1, '.db 1, 2, 3': 3, '.ascii "abc"': 3, '.asciiz "ab"': 3, '.db 7': 1, '.ascii "x"': 1,
            '.db 1, 2, 3, 4, 5': 5, ".dc32 0x12345678": 4, ".dc32 1, 2": 8, ".dc16 0x1234, 0x5678": 4,
            ".dc16 0x1234": 2, ".ascii \"ab\"": 2}


def gen_twopass(rng, cpu, nstmt, forms=None, rel=True, shadow=False, kinds="colon", odd=False):
    """Program for `cpu`: a low area (small label values), then code with a label point before/after
    every statement referencing constants, backward and forward labels of small and large value,
    then a second low area and a high data area that define the forward-referenced labels.

    kinds: how the label points of the code area bind their name —
      "colon"  `name:` at global scope (the original shape),
      "func"   every label point is `.func name` (the previous function is closed with `.endf`): no plain label
               stands between an instruction and the next function name,
      "mixed"  `name:` global, `.func name`, `.scope` + local `name:`, local `name:` inside the open scope,
      "local"  one `.scope` (or one `.func`) around the whole code area: every name behind the first is local.
    odd: data directives of odd length (no `.align`) may stand in front of a label; markers are `.db`.

    Returns (source, info); info["defs"] lists per bound name, in source order,
      dict(name, kind, marker, prev=(form, cls), line, next=None | dict(kind="instr"|"data", line, form, cls, text),
           odd=True|False|None (byte offset parity at the label, as far as the generator knows it))."""
    f = FORMS[cpu]
    forms = forms or f["forms"]
    mark = ".db" if odd else f["mark"]
    msize = {".db": 1, ".dc16": 2, ".dc32": 4}[mark]
    lines = ["." + cpu]
    labels = []          # (name, marker value or None)
    defs = []
    stmts = []           # (label_before, form, operand class)
    nmark = [0]
    st = {"open": None, "prev": ("(area start)", "-"), "parity": 0, "pending": []}

    def note_stmt(kind, form, cls, text):
        for d in st["pending"]:
            d["next"] = {"kind": kind, "line": len(lines), "form": form, "cls": cls, "text": text}
        st["pending"] = []

    def close():
        if st["open"] == "func":
            lines.append(".endf")
        elif st["open"] == "scope":
            lines.append(".ends")
        st["open"] = None

    def marker(base):
        nmark[0] += 1
        m = (base + nmark[0] * 37) & ((1 << (8 * msize)) - 1) | ((0x80 if base & 0x80000000 else 0x40) if msize == 1 else 0)
        lines.append("  %s 0x%x ; M" % (mark, m))
        return m

    def label(with_marker, kind="colon", name=None):
        """bind a name at this point; returns (name, visible after the scope closes)"""
        name = name or "L%d" % len(labels)
        if kind == "func":
            close()
            lines.append(".func " + name)
            st["open"] = "func"
        elif kind == "scope":
            close()
            lines.append(".scope")
            st["open"] = "scope"
            lines.append(name + ":")
        else:
            lines.append(name + ":")
        d = {"name": name, "kind": kind if kind != "colon" or st["open"] is None else "local", "marker": None,
             "prev": st["prev"], "line": len(lines), "next": None, "odd": st["parity"]}
        st["pending"].append(d)
        if with_marker:
            m = marker(0xA5A5A500)
            d["marker"] = m
            note_stmt("data", mark, "-", lines[-1].strip())
            if st["parity"] is not None:
                st["parity"] = (st["parity"] + msize) & 3
        labels.append((name, d["marker"]))
        defs.append(d)
        glob = kind == "func" or (kind == "colon" and st["open"] is None)
        return name, glob

    def pick_kind():
        if kinds == "colon":
            return "colon"
        if kinds == "func":
            return "func"
        if kinds == "local":         # the whole code area is one .scope / one .func; every name in it is local
            return rng.choice(["scope", "func"]) if st["open"] is None else "colon"
        return rng.choice(["colon", "colon", "func", "func", "scope", "close"])

    # low area 1 (backward small labels)
    lo = f["lo"]
    lines.append(".org 0x%x" % rng.choice([lo, lo + 2, lo + 0x20]))
    back_small = [label(True)[0] for _ in range(3)]
    # names of labels defined later
    nfwd_small, nfwd_large = 3, 3
    fwd_small = ["FS%d" % i for i in range(nfwd_small)]
    fwd_large = ["FL%d" % i for i in range(nfwd_large)]
    hi = f["hi"]
    lines.append(".org 0x%x" % rng.choice([hi, hi + 0x100, hi + 0x7f0]))
    st["prev"] = ("(area start)", "-")
    st["parity"] = 0
    st["pending"] = []
    back_global, back_local = [], []
    near = [None]

    def label_point(p_marker):
        k = pick_kind()
        if k == "close":
            close()
            back_local.clear()
            k = "colon"
        if k in ("func", "scope"):
            back_local.clear()
        name, glob = label(rng.random() < p_marker, k)
        (back_global if glob else back_local).append(name)
        near[0] = name

    label_point(0.5)
    consts_small = ["0", "1", "2", "4", "8", "0x10", "0x7f", "0x80", "0xff"]
    consts_large = ["0x100", "0x1234", "0x7fff", "0x8000", "0xfffe"] + (["0x12345", "0x10000"] if hi > 0x10000 or cpu in ("msp430x", "65816", "stm8") else [])
    for n in range(nstmt):
        r = rng.random()
        if r < (0.4 if odd else 0.12):
            if odd:
                d = rng.choice(ODD_DATA)
            elif cpu in ALIGNED:
                d = rng.choice(EVEN_DATA_ALIGNED)
            else:
                d = rng.choice(EVEN_DATA)
            lines.append("  %s ; S %s | -" % (d, d.split(" ")[0]))
            note_stmt("data", d.split(" ")[0], "-", d)
            stmts.append((len(labels), "data", "-"))
            st["prev"] = (d.split(" ")[0], "-")
            if d.startswith(".align"):
                st["parity"] = 0
            elif st["parity"] is not None:
                st["parity"] = (st["parity"] + DATA_LEN[d]) & 3
        else:
            use_rel = rel and f.get("rel") and near[0] is not None and rng.random() < 0.12
            form = rng.choice(f["rel"] if use_rel else forms)
            small_only = form.endswith("!")
            form = form.rstrip("!")
            if use_rel:
                cls = "back-near"
                opnd = near[0]
            else:
                cls = rng.choice(["const-small", "back-small", "fwd-small"] if small_only else
                                 ["const-small", "const-large", "back-small", "back-large", "fwd-small", "fwd-large"])
                opnd = {"const-small": rng.choice(consts_small), "const-large": rng.choice(consts_large),
                        "back-small": rng.choice(back_small), "back-large": rng.choice(back_global + back_local),
                        "fwd-small": rng.choice(fwd_small), "fwd-large": rng.choice(fwd_large)}[cls]
            if "{}" not in form:
                cls = "-"
            if shadow and cls == "back-small" and not use_rel and rng.random() < 0.5:
                # the operand names a global label of small value that a local label of the
                # enclosing .scope, defined AFTER the use, shadows (large value)
                cls = "fwd-shadow"
                close()
                back_local.clear()
                lines.append(".scope")
                st["open"] = "scope"
                text = form.replace("{}", opnd)
                lines.append("  %s ; S %s | %s" % (text, form, cls))
                note_stmt("instr", form, cls, text)
                stmts.append((len(labels), form, cls))
                st["prev"] = (form, cls)
                st["parity"] = None
                label(True)
                label(True, name=opnd)
                close()
                name, glob = label(True)
                back_global.append(name)
                near[0] = name
                continue
            text = form.replace("{}", opnd)
            lines.append("  %s ; S %s | %s" % (text, form, cls))
            note_stmt("instr", form, cls, text)
            stmts.append((len(labels), form, cls))
            st["prev"] = (form, cls)
            # after an instruction the byte parity is only known for code that started aligned
            if st["parity"] is not None and (st["parity"] & 1 or cpu not in ALIGNED):
                st["parity"] = None
        label_point(0.4)
    close()
    # forward-referenced definitions
    lines.append(".org 0x%x" % (lo + 0x40))
    st["prev"] = ("(area start)", "-")
    st["parity"] = 0
    st["pending"] = []
    for nme in fwd_small:
        label(False, name=nme)
        defs[-1]["marker"] = marker(0x5A5A5A00)
        labels[-1] = (nme, defs[-1]["marker"])
        note_stmt("data", mark, "-", lines[-1].strip())
    lines.append(".org 0x%x" % (hi + 0x4000 if hi < 0x8000 else hi + 0x1000))
    for nme in fwd_large:
        label(False, name=nme)
        defs[-1]["marker"] = marker(0x5A5A5A00)
        labels[-1] = (nme, defs[-1]["marker"])
        note_stmt("data", mark, "-", lines[-1].strip())
    for d in defs:
        if d["odd"] is not None:
            d["odd"] = bool(d["odd"] & 1)
    return "\n".join(lines) + "\n", {"labels": labels, "stmts": stmts, "msize": msize, "cpu": cpu, "defs": defs,
                                     "kinds": kinds, "odd_mode": odd}


# ---------------------------------------------------------------------------------------------
# C02: the MSP430 constant-generator instance (model computes the sizes itself: `twopass430`)
# ---------------------------------------------------------------------------------------------

CG430_FORMS = ["mov.w #{}, r5", "add.w #{}, r7", "cmp.w #{}, r8", "bis.w #{}, r10", "xor.w #{}, r11", "sub.w #{}, r12"]


def gen_msp430cg(rng, nstmt):
    """`op.w #operand, Rn` statements whose operand is a constant, a backward or a forward label — with values
    the constant generator has (0, 1, 2, 4, 8, 0xffff) and others —, names bound by `name:` / `.func name`,
    data of even and odd length.  Returns (source, model statements of `twopass430`, start address)."""
    lines = [".msp430"]
    ops = []
    names = []

    def bind(name, func=False):
        if func:
            lines.append(".func " + name)
            ops.append("f:" + name)
        else:
            lines.append(name + ":")
            ops.append("l:" + name)
        names.append(name)

    back = {}
    for v in rng.sample([0, 1, 2, 4, 6, 8, 0x10], 4):
        lines.append(".org %d" % v)
        ops.append("o:%d" % v)
        bind("B%d" % v)
        back["B%d" % v] = v
    fwd = {}
    for v in [0, 1, 2, 4, 6, 8, 0x10]:
        if "B%d" % v not in back:
            fwd["F%d" % v] = v
    fwd["FL"] = 0x9000
    start = rng.choice([0x8000, 0x8100, 0xc000])
    lines.append(".org 0x%x" % start)
    ops.append("o:%d" % start)
    open_func = False
    local = []
    nl = 0
    for k in range(nstmt):
        if rng.random() < 0.7:
            f = rng.random() < 0.3
            if f and open_func:
                lines.append(".endf")
            if f:
                for n in local:          # names local to the function that ends here
                    del back[n]
                local.clear()
            bind("N%d" % nl, f)
            back["N%d" % nl] = None
            if open_func and not f:
                local.append("N%d" % nl)
            nl += 1
            open_func = open_func or f
        r = rng.random()
        if r < 0.15:
            bs = [rng.randrange(256) for _ in range(rng.choice([1, 2, 3, 4]))]
            lines.append("  .db " + ", ".join(str(b) for b in bs))
            ops.append("d:" + bytes(bs).hex())
        else:
            form = rng.choice(CG430_FORMS)
            c = rng.random()
            if c < 0.4:
                v = rng.choice([0, 1, 2, 4, 8, 0xffff, -1, 3, 5, 7, 9, 0x10, 0x1234, 0x7fff, 0x8000, 0xfffe, 0xff])
                lines.append("  " + form.replace("{}", str(v)))
                ops.append("c:%d" % (v & 0xffff))
            else:
                n = rng.choice(sorted(back) if c < 0.65 else sorted(fwd))
                lines.append("  " + form.replace("{}", n))
                ops.append("s:" + n)
    if open_func:
        lines.append(".endf")
    for n, v in fwd.items():
        lines.append(".org 0x%x" % v)
        ops.append("o:%d" % v)
        bind(n)
    return "\n".join(lines) + "\n", ops, back_first_address(ops), names


def back_first_address(ops):
    return int(ops[0].split(":")[1])
