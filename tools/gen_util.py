"""Generators, transcript parser and reference semantics for C19 (naken_util memory commands).

Transcript parser (trusted, ~70 lines): turns what naken_util printed for one command into the event words the
Lean driver prints for the same command (addresses and values only):
  ill bad unal w<count>@<addr> r<addr> v<value> d<start>-<end> interr asm@<org> unk need noarg noeq set=<v> syn
  asmerr regs=<r0,...,r15> info=<start>-<end> nm
`print*` rows are parsed by position: the label, then k values of fixed width; k follows from the length of the
line (values, padding, one blank, the ASCII column of k resp. 2k characters), because the ASCII column may
contain blanks and hex digits.
"""
import re

VALUE_W = {"print": 3, "print16": 5, "print32": 9}
ROW_RE = re.compile(r"^0x([0-9a-f]{4,8}):")
WROTE_RE = re.compile(r"^Wrote (-?\d+) (?:bytes|int16's|int32's) starting at address 0x([0-9a-f]+)$")
REG_RE = re.compile(r"(PC|SP|SR|CG|r\d+): 0x([0-9a-f]{4})")
STEP_RE = re.compile(r"^ ! 0x([0-9a-f]{4}): 0x([0-9a-f]{4})")
DIS_RE = re.compile(r"^0x([0-9a-f]{4,8}): 0x([0-9a-f]{4})")


def row_values(cmd, rest):
    """rest = text of a print row after 'label:' -> list of value strings, or None when the row is malformed"""
    n = len(rest)
    if cmd == "print":
        k = n - 49
        if not 1 <= k <= 16:
            return None
        w = 3
    elif cmd == "print16":
        if (n - 41) % 2:
            return None
        k = (n - 41) // 2
        if not 1 <= k <= 8:
            return None
        w = 5
    else:
        if n == 45:
            k = 4
        else:
            if (n - 21) % 6:
                return None
            k = (n - 21) // 6
            if not 1 <= k <= 3:
                return None
        w = 9
    vals = []
    for i in range(k):
        f = rest[i * w:(i + 1) * w]
        if len(f) != w or f[0] != " " or not re.fullmatch(r"[0-9a-f]+", f[1:]):
            return None
        vals.append(f[1:])
    return vals


def parse_command_output(cmdword, text):
    """events of one command, as a list of words"""
    ev = []
    lines = text.split("\n")
    i = 0
    regs = {}
    info = {}
    for ln in lines:
        if ln.startswith("Illegal number '"):
            ev.append("ill")
        elif ln == "Syntax error: bad address":
            ev.append("bad")
        elif re.match(r"^Error: write(16|32) address is not (16|32) bit aligned$", ln) or \
                re.match(r"^Address range 0x[0-9a-f]+ to 0x[0-9a-f]+ must start on a [24] byte boundary\.$", ln):
            ev.append("unal")
        elif WROTE_RE.match(ln):
            m = WROTE_RE.match(ln)
            ev.append("w%s@%x" % (m.group(1), int(m.group(2), 16)))
        elif ln.startswith("DISASMRANGE "):
            _, a, b = ln.split(" ")
            ev.append("d%x-%x" % (int(a, 16), int(b, 16)))
        elif ln.startswith("Internal Error: At"):
            ev.append("interr")
        elif ln.startswith("Assembling to 0x"):
            ev.append("asm@%x" % int(ln[len("Assembling to 0x"):], 16))
        elif ln.startswith("Unknown command: "):
            ev.append("unk")
        elif re.match(r"^Syntax error: .* requires argument\(s\)$", ln):
            ev.append("need")
        elif re.match(r"^Error: .* doesn't take an argument\.$", ln):
            ev.append("noarg")
        elif ln == "Error: missing =.":
            ev.append("noeq")
        elif re.match(r"^Register .* set to 0x[0-9a-f]+\.$", ln):
            ev.append("set=%x" % int(ln.rsplit("0x", 1)[1][:-1], 16))
        elif ln == "Syntax error.":
            ev.append("syn")
        elif ln.startswith("Error assembling in pass"):
            ev.append("asmerr")
        elif ln.startswith("ASM-RESULT-MISMATCH"):
            ev.append("ASM-RESULT-MISMATCH")
        elif ln == "NOT-MODELLED":
            ev.append("nm")
        elif ln.startswith("Start address: 0x"):
            info["s"] = int(ln.split("0x")[1].split(" ")[0], 16)
        elif ln.startswith("  End address: 0x"):
            info["e"] = int(ln.split("0x")[1].split(" ")[0], 16)
            ev.append("info=%x-%x" % (info.get("s", 0), info["e"]))
        elif cmdword in VALUE_W and ROW_RE.match(ln):
            m = ROW_RE.match(ln)
            vals = row_values(cmdword, ln[m.end():])
            if vals is None:
                ev.append("BADROW[%s]" % ln)
            else:
                ev.append("r%x" % int(m.group(1), 16))
                ev += ["v%x" % int(v, 16) for v in vals]
        elif cmdword in ("registers", "reg"):
            for name, val in REG_RE.findall(ln):
                regs[name] = int(val, 16)
        elif cmdword == "step" and STEP_RE.match(ln):
            m = STEP_RE.match(ln)
            ev.append("f%x:%x" % (int(m.group(1), 16), int(m.group(2), 16)))
        elif cmdword == "disasm" and DIS_RE.match(ln):
            m = DIS_RE.match(ln)
            ev.append("i%x:%x" % (int(m.group(1), 16), int(m.group(2), 16)))
    if cmdword in ("registers", "reg") and regs:
        order = ["PC", "SP", "SR", "CG"] + ["r%d" % n for n in range(4, 16)]
        if all(k in regs for k in order):
            ev.append("regs=" + ",".join("%x" % regs[k] for k in order))
        else:
            ev.append("BADREGS")
    return ev


def command_word(line, in_code=False):
    t = line.strip("\r\n\t ")
    return t.split(" ")[0] if t else ""


def parse_harness_transcript(script_lines, text):
    """text = '@@\\n<out>@@\\n<out>...' of the in-process harness -> model-format answer line"""
    parts = text.split("@@\n")
    assert parts[0] == "", parts[0][:80]
    parts = parts[1:]
    out = []
    words = script_words(script_lines)
    for w, p in zip(words, parts):
        ev = parse_command_output(w, p)
        out.append(" ".join(ev) if ev else "-")
    if len(parts) != len(words):
        out.append("LINECOUNT %d/%d" % (len(parts), len(words)))
    return " | ".join(out)


def script_words(script_lines):
    """command word of every script line, '' for lines typed in asm mode"""
    words = []
    in_code = False
    for ln in script_lines:
        t = ln.strip("\r\n\t ")
        if in_code:
            words.append("")
            if t == "":
                in_code = False
            continue
        w = t.split(" ")[0] if t else ""
        words.append(w)
        # asm mode starts only when the command is accepted: 'asm' takes an optional argument
        if w == "asm":
            in_code = True
    return words


PROMPT_RE = re.compile(r"(?:stopped|running|asm)> ")


def parse_process_transcript(script_lines, stdout):
    """stdout of the real naken_util fed with the script on stdin -> per-command event lists.
    The text before the first prompt is the banner; every prompt is followed by the output of one line."""
    chunks = PROMPT_RE.split(stdout)
    chunks = chunks[1:]
    words = script_words(script_lines)
    return [parse_command_output(w, c) for w, c in zip(words, chunks)], len(chunks)


# ---------------------------------------------------------------------------
# numerals
# ---------------------------------------------------------------------------

def spell(rng, v, kinds=("dec", "0x", "h")):
    """one spelling of the 32-bit value v that the documentation of naken_util admits"""
    k = rng.choice(kinds)
    if k == "dec":
        return str(v)
    digits = "%x" % v
    if rng.random() < 0.3:
        digits = digits.upper()
    elif rng.random() < 0.2:
        digits = "".join(c.upper() if rng.random() < 0.5 else c for c in digits)
    if rng.random() < 0.15:
        digits = "0" * rng.randrange(1, 4) + digits
    if k == "0x":
        return "0x" + digits
    return digits + "h"


def numeral_value(tok):
    """value a well-formed numeral denotes (mod 2^32), None if the token is not one of the documented forms"""
    if re.fullmatch(r"[0-9]+", tok):
        return int(tok) % 2**32
    if re.fullmatch(r"-[0-9]+", tok):
        return (-int(tok[1:])) % 2**32
    if re.fullmatch(r"0x[0-9a-fA-F]+", tok):
        return int(tok[2:], 16) % 2**32
    if re.fullmatch(r"[0-9a-fA-F]+h", tok):
        return int(tok[:-1], 16) % 2**32
    return None


BOUNDARY_VALUES = [0, 1, 2, 9, 10, 15, 16, 127, 128, 255, 256, 0x7fff, 0x8000, 0xffff, 0x10000, 0x7fffffff,
                   0x80000000, 0xfffffffe, 0xffffffff]
BOUNDARY_ADDRS = [0, 1, 2, 3, 0xf, 0x10, 0xff, 0x100, 0x7ffe, 0x7fff, 0x8000, 0xfffe, 0xffff, 0x10000, 0x10001,
                  0x1fffe, 0x1ffff, 0x20000, 0x7ffffffe, 0x7fffffff, 0x80000000, 0xfffffff0, 0xfffffffc,
                  0xfffffffe, 0xffffffff]


# ---------------------------------------------------------------------------
# reference semantics of the property (written from the statement, not from the code)
# ---------------------------------------------------------------------------

class RefImage:
    """byte-addressed partial map; what the property says the commands do to it"""

    def __init__(self, big_endian, bpa):
        self.cells = {}
        self.big = big_endian
        self.bpa = bpa

    def write(self, width, addr_units, values):
        a = (addr_units * self.bpa) % 2**32
        n = width // 8
        for v in values:
            v %= 1 << width
            bs = v.to_bytes(n, "big" if self.big else "little")
            for i, b in enumerate(bs):
                self.cells[(a + i) % 2**32] = b
            a = (a + n) % 2**32

    def read(self, width, byte_addr):
        n = width // 8
        bs = bytes(self.cells.get((byte_addr + i) % 2**32, 0) for i in range(n))
        return int.from_bytes(bs, "big" if self.big else "little")


# ---------------------------------------------------------------------------
# structured sessions for the oracle: every op carries its meaning AND its spelling, so the reference below never
# parses the text it judges
# ---------------------------------------------------------------------------

NB = {8: 1, 16: 2, 32: 4}
WNAME = {8: "", 16: "16", 32: "32"}


class RefSession:
    """What the property says a session of well-formed ops shows (written from the statement).
    Image = byte-addressed partial map; addresses typed by the user are in address units."""

    def __init__(self, cpu, syms):
        self.cpu, self.bpa = cpu, cpu["bpa"]
        self.img = RefImage(cpu["big"], cpu["bpa"])
        self.syms = dict(syms)
        self.written = set()

    def high(self):
        return max(self.written) if self.written else 0

    def low(self):
        return min(self.written) if self.written else 0xffffffff

    def listing(self, width, start, count):
        n = NB[width]
        per_row = 16 // n
        ev = []
        for i in range(count):
            a = start + i * n
            if i % per_row == 0:
                ev.append("r%x" % (a // self.bpa))
            ev.append("v%x" % self.img.read(width, a))
        return ev

    def do_write(self, width, addr_units, values):
        start = addr_units * self.bpa
        self.img.write(width, addr_units, values)
        for i in range(NB[width] * len(values)):
            self.written.add(start + i)
        return ["w%d@%x" % (len(values), addr_units)]

    def print_span(self, width, a_units, b_units):
        """(start byte, number of values) of `print a`, `print a-` (b_units == 'open'), `print a-b`"""
        n = NB[width]
        start = a_units * self.bpa
        if b_units is None:
            nbytes = 128
        else:
            endb = self.high() if b_units == "open" else b_units * self.bpa
            if endb <= start:
                nbytes = 128                      # a reversed range lists the default length
            else:
                last = (endb // self.bpa) * self.bpa + self.bpa - 1      # last byte of the end address
                nbytes = last - start + 1
        return start, (nbytes + n - 1) // n


def spell_addr(rng, units, syms_by_value):
    if units in syms_by_value and rng.random() < 0.5:
        return rng.choice(syms_by_value[units])
    return spell(rng, units)


def blanks(rng):
    return " " * rng.choice([1, 1, 1, 1, 2, 3])


def op_text(rng, op, syms_by_value):
    """spelling of a structured op"""
    k = op[0]
    if k == "write":
        _, width, a, vals = op
        vs = []
        for v in vals:
            if v >= 2**31 and rng.random() < 0.3:
                vs.append("-%d" % (2**32 - v))
            else:
                vs.append(spell(rng, v))
        return "write%s%s%s%s" % (WNAME[width], blanks(rng), spell_addr(rng, a, syms_by_value),
                                   "".join(blanks(rng) + v for v in vs))
    if k in ("print", "disasm"):
        _, width, a, b = op
        name = "disasm" if k == "disasm" else "print" + WNAME[width]
        t = spell_addr(rng, a, syms_by_value)
        sep = rng.choice(["-", "-", "-", " - ", " -", "- "])
        if b == "open":
            t += sep.rstrip() if rng.random() < 0.7 else sep
            t = t.rstrip() if t.endswith(" ") else t
        elif b is not None:
            t += sep + spell_addr(rng, b, syms_by_value)
        return name + blanks(rng) + t
    if k == "raw":
        return op[1]
    raise ValueError(k)
