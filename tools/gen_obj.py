#!/usr/bin/env python3
"""ELF32 relocatable object / `ar` archive writer and the generators of the C20 `link` streams.

Written from the ELF gABI (System V ABI, chapters 4 "Object Files": ELF header, section header table,
symbol table, string table, relocation entries `Elf32_Rel`) and the MIPS psABI supplement
(R_MIPS_26 = 4: `(((A << 2) | (P & 0xf0000000)) + S) >> 2` stored in the low 26 bits of the word), and from the
System V `ar` format (global header `!<arch>\\n`, 60-byte member headers, decimal size field, members padded to an
even offset, `/` symbol index member with big-endian counts/offsets, `//` long-name table, `/<n>` references).
Nothing here is derived from /repo's reader.
"""
import struct

R_MIPS_32, R_MIPS_26, R_MIPS_HI16, R_MIPS_LO16 = 2, 4, 5, 6
SHT_NULL, SHT_PROGBITS, SHT_SYMTAB, SHT_STRTAB, SHT_RELA, SHT_NOBITS, SHT_REL = 0, 1, 2, 3, 4, 8, 9
STB_LOCAL, STB_GLOBAL, STB_WEAK = 0, 1, 2
STT_NOTYPE, STT_OBJECT, STT_FUNC, STT_SECTION, STT_FILE = 0, 1, 2, 3, 4
EM_MIPS = 8


class Sym:
    """one .symtab entry; `shndx` is a section *name* (resolved when writing), 'UND' or 'ABS'"""

    def __init__(self, name, value=0, size=0, bind=STB_GLOBAL, typ=STT_FUNC, shndx=".text"):
        self.name, self.value, self.size, self.bind, self.typ, self.shndx = name, value, size, bind, typ, shndx

    def __repr__(self):
        return "Sym(%r,%#x,%d,b%d,t%d,%s)" % (self.name, self.value, self.size, self.bind, self.typ, self.shndx)


class Obj:
    """description of a relocatable object.
    text      : bytes of .text
    syms      : list of Sym (entry 0, the null symbol, is added by the writer)
    rels      : list of (r_offset, symbol index into syms + 1 (0 = null symbol), r_type) for .rel.text
    data      : bytes of .data (section present when not None)
    rels_data : relocations of .data (section .rel.data present when not None)
    order     : order of the sections in the header table (after the null section)
    """

    def __init__(self, text=b"", syms=None, rels=None, data=None, rels_data=None, order=None,
                 ei_class=1, ei_data=1, e_machine=EM_MIPS, e_type=1, pad_before_text=0, trailing=b"",
                 shentsize=40, strtab_name=".strtab", reltab_name=".rel.text", text_name=".text", bss=None):
        self.text, self.syms, self.rels = text, list(syms or []), list(rels or [])
        self.data, self.rels_data, self.bss = data, rels_data, bss
        self.order = order
        self.ei_class, self.ei_data, self.e_machine, self.e_type = ei_class, ei_data, e_machine, e_type
        self.pad_before_text, self.trailing, self.shentsize = pad_before_text, trailing, shentsize
        self.strtab_name, self.reltab_name, self.text_name = strtab_name, reltab_name, text_name


def _strtab(names):
    tab, off = b"\0", {"": 0}
    for n in names:
        if n not in off:
            off[n] = len(tab)
            tab += n.encode("latin-1") + b"\0"
    return tab, off


def write_elf(o):
    """-> bytes of an ELF32 relocatable file for Obj `o` (byte order per o.ei_data: 1 = LSB, 2 = MSB)"""
    E = "<" if o.ei_data != 2 else ">"
    names = [o.text_name, o.reltab_name, ".symtab", o.strtab_name, ".shstrtab"]
    present = [o.text_name, o.reltab_name, ".symtab", o.strtab_name, ".shstrtab"]
    if o.data is not None:
        present.insert(1, ".data")
        if o.rels_data is not None:
            present.insert(2, ".rel.data")
    if o.bss is not None:
        present.append(".bss")
    order = list(o.order) if o.order else present
    for s in present:
        if s not in order:
            order.append(s)
    index = {name: i + 1 for i, name in enumerate(order)}
    shstr, shoff = _strtab(order)
    strtab, stroff = _strtab([s.name for s in o.syms])

    def shndx_of(s):
        if s.shndx == "UND":
            return 0
        if s.shndx == "ABS":
            return 0xfff1
        if isinstance(s.shndx, int):
            return s.shndx
        return index.get(s.shndx, 0)

    symtab = b"\0" * 16
    for s in o.syms:
        symtab += struct.pack(E + "IIIBBH", stroff[s.name], s.value & 0xffffffff, s.size & 0xffffffff,
                              ((s.bind & 15) << 4) | (s.typ & 15), 0, shndx_of(s))
    first_global = 1 + next((i for i, s in enumerate(o.syms) if s.bind != STB_LOCAL), len(o.syms))

    def relbytes(rels):
        return b"".join(struct.pack(E + "II", off & 0xffffffff, ((sym & 0xffffff) << 8) | (typ & 0xff))
                        for off, sym, typ in rels)

    body = {
        o.text_name: (SHT_PROGBITS, 6, o.text, 0, 0, 4, 0),
        ".data": (SHT_PROGBITS, 3, o.data or b"", 0, 0, 4, 0),
        ".bss": (SHT_NOBITS, 3, b"", 0, 0, 4, 0),
        o.reltab_name: (SHT_REL, 0x40, relbytes(o.rels), index[".symtab"], index[o.text_name], 4, 8),
        ".rel.data": (SHT_REL, 0x40, relbytes(o.rels_data or []), index[".symtab"], index.get(".data", 0), 4, 8),
        ".symtab": (SHT_SYMTAB, 0, symtab, index[o.strtab_name], first_global, 4, 16),
        o.strtab_name: (SHT_STRTAB, 0, strtab, 0, 0, 1, 0),
        ".shstrtab": (SHT_STRTAB, 0, shstr, 0, 0, 1, 0),
    }
    ehsize = 52
    out = bytearray(b"\0" * ehsize)
    out += b"\0" * o.pad_before_text
    place = {}
    for name in order:
        typ, flags, content, link, info, align, entsize = body[name]
        while len(out) % max(1, align):
            out.append(0)
        place[name] = len(out)
        out += content
    while len(out) % 4:
        out.append(0)
    e_shoff = len(out)
    sh = bytearray(b"\0" * o.shentsize)
    for name in order:
        typ, flags, content, link, info, align, entsize = body[name]
        size = len(content) if name != ".bss" else (o.bss or 0)
        ent = struct.pack(E + "IIIIIIIIII", shoff[name], typ, flags, 0, place[name], size, link, info, align, entsize)
        sh += ent + b"\0" * (o.shentsize - 40)
    out += sh
    out += o.trailing
    hdr = b"\x7fELF" + bytes([o.ei_class, o.ei_data, 1, 0, 0]) + b"\0" * 7
    hdr += struct.pack(E + "HHIIIIIHHHHHH", o.e_type, o.e_machine, 1, 0, 0, e_shoff, 0x1000, ehsize, 0, 0,
                       o.shentsize, len(order) + 1, index[".shstrtab"])
    out[:ehsize] = hdr
    return bytes(out), place


def ar_header(name, size, ident_override=None):
    ident = (ident_override if ident_override is not None else name).encode("latin-1")
    return (ident.ljust(16)[:16] + b"0".ljust(12) + b"0".ljust(6) + b"0".ljust(6) + b"644".ljust(8)
            + str(size).encode().ljust(10) + b"`\n")


def write_ar(members, symindex=True, index_syms=None, long_names=True):
    """members: list of (file name, bytes).  -> bytes of a System V / GNU archive.
    symindex   : emit the `/` symbol index member first (as `ar s` does)
    index_syms : {member number: [global symbol names]} for the index"""
    longtab = b""
    idents = []
    for name, _ in members:
        if len(name) > 15 and long_names:
            idents.append("/%d" % len(longtab))
            longtab += name.encode("latin-1") + b"/\n"
        else:
            idents.append((name + "/")[:16])
    if len(longtab) % 2:
        longtab += b"\n"
    # first pass: sizes, to know member offsets for the index
    names_blob = b""
    entries = []
    for i, _ in enumerate(members):
        for s in (index_syms or {}).get(i, []):
            entries.append((i, s))
            names_blob += s.encode("latin-1") + b"\0"
    idx_size = 4 + 4 * len(entries) + len(names_blob)
    pos = 8
    if symindex:
        pos += 60 + idx_size + (idx_size & 1)
    if longtab:
        pos += 60 + len(longtab)
    offs = []
    for _, content in members:
        offs.append(pos)
        pos += 60 + len(content) + (len(content) & 1)
    out = bytearray(b"!<arch>\n")
    if symindex:
        blob = struct.pack(">I", len(entries)) + b"".join(struct.pack(">I", offs[i]) for i, _ in entries) + names_blob
        out += ar_header("/", len(blob)) + blob
        if len(blob) & 1:
            out += b"\n"
    if longtab:
        out += ar_header("//", len(longtab)) + longtab
    for (name, content), ident in zip(members, idents):
        out += ar_header(ident, len(content), ident) + content
        if len(content) & 1:
            out += b"\n"
    return bytes(out), offs


# ---------------------------------------------------------------------------------------------------
# Abstract descriptions (the generator's ground truth) and the case generators of the `link` streams
# ---------------------------------------------------------------------------------------------------
import re

JAL = 0x0c000000
MIPS_CPUS = {"mips": True, "mips32": False, "pic32": False, "ps2_ee": False, "n64_rsp": True}   # name -> big endian
RESERVED = set("""add addi addiu addu and andi beq bne j jal jr lui lw sw nop or ori sll srl sub subu xor main
 org dc32 db align mips mips32 pic32 ps2_ee n64_rsp msp430 riscv big_endian little_endian end""".split())


class Fn:
    """a function of an object: `size` bytes at `off` in .text; calls = {byte offset in function: symbol name}"""

    def __init__(self, name, off, size, words, calls, bind=STB_GLOBAL):
        self.name, self.off, self.size, self.words, self.calls, self.bind = name, off, size, words, calls, bind

    def code(self, big):
        b = b"".join(struct.pack(">I" if big else "<I", w) for w in self.words)
        return b[:self.size]


class ObjDesc:
    def __init__(self, fns, text, syms, rels, opts=None):
        self.fns, self.text, self.syms, self.rels, self.opts = fns, text, syms, rels, dict(opts or {})

    def elf(self):
        return write_elf(Obj(text=self.text, syms=self.syms, rels=self.rels, **self.opts))[0]


def rand_word(rng, big):
    """an instruction word that is not a jal (top six bits != 000011)"""
    while True:
        w = rng.choice([0, 0x03e00008, 0x24020000 | rng.getrandbits(16), rng.getrandbits(32),
                        0x08000000 | rng.getrandbits(26), 0x27bd0000 | rng.getrandbits(16)])
        if (w >> 26) != 3:
            return w


def make_obj(rng, big, names, extern, nfn=None, opts=None, odd_sizes=False, local_calls=True, graph=None):
    """one object with functions `names`; calls go to its own functions or to names in `extern`
    (or exactly to graph[name] when a call graph is given).  -> ObjDesc"""
    fns, text = [], bytearray()
    syms, rels = [], []
    if rng.random() < 0.6:
        text += bytes(rng.getrandbits(8) for _ in range(4 * rng.randrange(0, 3)))      # function not at offset 0
    symindex = {}

    def sym_of(name, defined):
        if name not in symindex:
            symindex[name] = len(syms) + 1
            syms.append(Sym(name, 0, 0, STB_GLOBAL, STT_NOTYPE, "UND"))
        return symindex[name]

    # declare in a random order so that symbol indices do not follow the text order
    order = list(names)
    rng.shuffle(order)
    if rng.random() < 0.5:
        syms.append(Sym("", 0, 0, STB_LOCAL, STT_SECTION, ".text"))
    for name in order:
        symindex[name] = len(syms) + 1
        syms.append(Sym(name, 0, 0, STB_GLOBAL, STT_FUNC, ".text"))
    for name in names:
        words, calls = [], {}
        if graph is not None:
            plan = []
            for tgt in graph.get(name, []):
                plan += [None] * rng.randrange(0, 3) + [tgt]
            plan += [None] * rng.randrange(1 if not plan else 0, 3)
        else:
            nwords = rng.choice([1, 1, 2, 2, 3, 4, 6, 10])
            pool = ([n for n in names] if local_calls else []) + list(extern)
            plan = [rng.choice(pool) if pool and rng.random() < 0.35 else None for _ in range(nwords)]
        nwords = len(plan)
        for k, tgt in enumerate(plan):
            if tgt is not None:
                words.append(JAL | rng.choice([0, 0, rng.getrandbits(26), 0x01000000, 0x03ffffff]))
                calls[4 * k] = tgt
            else:
                words.append(rand_word(rng, big))
        size = 4 * nwords
        if odd_sizes and rng.random() < 0.5:
            size -= rng.randrange(1, 4)
            calls = {o: t for o, t in calls.items() if o + 4 <= size}
            if 4 * (nwords - 1) not in calls and (words[-1] >> 26) == 3:
                words[-1] &= 0x03ffffff
        off = len(text)
        fn = Fn(name, off, size, words, calls)
        fns.append(fn)
        text += fn.code(big)
        # what follows a function of odd size is not its own: make it visible
        while len(text) % 4:
            text.append(0xa5)
        if rng.random() < 0.3:
            text += bytes([0xee] * 4 * rng.randrange(1, 3))
        s = syms[symindex[name] - 1]
        s.value, s.size = off, size
        for o, tgt in sorted(calls.items()):
            rels.append((off + o, sym_of(tgt, tgt in names), R_MIPS_26))
    if rng.random() < 0.3:
        rng.shuffle(rels)
    return ObjDesc(fns, bytes(text), syms, rels, opts)


IDENT = re.compile(r"[A-Za-z_][A-Za-z0-9_]*")


def tokens_of(src):
    """identifier tokens of a source in reading order (comments start with ';', no strings are used)"""
    out = []
    for line in src.split("\n"):
        line = line.split(";")[0]
        for m in re.finditer(r"0x[0-9a-fA-F]+|[0-9]+|[A-Za-z_][A-Za-z0-9_]*:?", line):
            t = m.group(0)
            if t.endswith(":"):
                continue            # `name:` is lexed as TOKEN_LABEL, which is never looked up in the imports
            if IDENT.fullmatch(t):
                out.append(t)
    return out


class Program:
    """restricted MIPS source: statements are tuples
       ('org', addr) ('label', name) ('jal', name) ('j', name) ('nop',) ('word', name) ('db', n) ('align',)"""

    def __init__(self, cpu, stmts, directive_endian=None):
        self.cpu, self.stmts, self.directive_endian = cpu, stmts, directive_endian

    def source(self):
        lines = []
        if self.cpu:
            lines.append("." + self.cpu)
        if self.directive_endian:
            lines.append("." + self.directive_endian)
        for s in self.stmts:
            if s[0] == "org": lines.append(".org 0x%x" % s[1])
            elif s[0] == "label": lines.append("%s:" % s[1])
            elif s[0] == "jal": lines.append("  jal %s" % s[1])
            elif s[0] == "j": lines.append("  j %s" % s[1])
            elif s[0] == "nop": lines.append("  nop")
            elif s[0] == "word": lines.append("  .dc32 %s" % s[1])
            elif s[0] == "db": lines.append("  .db " + ", ".join(str(17 + i) for i in range(s[1])))
            elif s[0] == "align": lines.append(".align 32")
        return "\n".join(lines) + "\n"

    def layout(self):
        """-> (labels {name: addr}, end address, refs [(addr, kind, name)], bytes written {addr: byte or None})"""
        a, labels, refs, cells = 0, {}, [], {}
        for s in self.stmts:
            if s[0] == "org": a = s[1]
            elif s[0] == "label": labels.setdefault(s[1], a & 0xffffffff)
            elif s[0] in ("jal", "j", "word"):
                refs.append((a & 0xffffffff, s[0], s[1]))
                for i in range(4): cells[(a + i) & 0xffffffff] = None
                a += 4
            elif s[0] == "nop":
                for i in range(4): cells[(a + i) & 0xffffffff] = 0
                a += 4
            elif s[0] == "db":
                for i in range(s[1]): cells[(a + i) & 0xffffffff] = 17 + i
                a += s[1]
            elif s[0] == "align":
                while a & 3: a += 1
        return labels, a & 0xffffffff, refs, cells

    def big(self):
        if self.directive_endian:
            return self.directive_endian == "big_endian"
        return MIPS_CPUS.get(self.cpu, False)

    def view(self):
        labels, end, refs, _ = self.layout()
        hx = lambda s: (s.encode("latin-1").hex() or "00")
        ids = tokens_of(self.source())
        names = []
        for _, _, n in refs:
            if n not in names: names.append(n)
        return "cpu=%s;en=%s;e1=%x;e2=%x;ids=%s;syms=%s;refs=%s" % (
            self.cpu or "-", "b" if self.big() else "l", end, end,
            ",".join(hx(t) for t in ids) or "-",
            ",".join("%s:%x" % (hx(n), a) for n, a in labels.items()) or "-",
            ",".join(hx(n) for n in names) or "-")


def link_line(prog, files):
    """protocol line for harness and driver"""
    hx = lambda b: (b if isinstance(b, bytes) else b.encode("latin-1")).hex() or "-"
    parts = ["link", "-", prog.view(), hx(prog.source())]
    for fn, content in files:
        parts += [hx(fn), hx(content)]
    return " ".join(parts)


# ---------------------------------------------------------------------------------------------------
# The concrete objects used by the non-vacuity examples and counterexample theorems of
# lean/NakenVerif/Props/C20.lean (`python3 tools/gen_obj.py lean-examples` re-creates Link/Examples.lean)
# ---------------------------------------------------------------------------------------------------

def example_objects():
    w = lambda *ws: b"".join(struct.pack("<I", x) for x in ws)
    out = {}
    # f: jal g ; jr ra      g: jr ra ; addiu v0,0,7      h (not referenced): nop
    out["exObj"] = write_elf(Obj(text=w(0x0c000000, 0x03e00008, 0x03e00008, 0x24020007, 0),
                                 syms=[Sym("f", 0, 8), Sym("g", 8, 8), Sym("h", 16, 4)], rels=[(0, 2, R_MIPS_26)]))[0]
    # f: jal g ; nop        g is not defined anywhere
    out["exUnres"] = write_elf(Obj(text=w(0x0c000000, 0),
                                   syms=[Sym("f", 0, 8), Sym("g", 0, 0, STB_GLOBAL, STT_NOTYPE, "UND")],
                                   rels=[(0, 2, R_MIPS_26)]))[0]
    # f: j g (tail call, R_MIPS_26 on a `j`) ; nop      g: jr ra ; nop
    out["exJ"] = write_elf(Obj(text=w(0x08000000, 0, 0x03e00008, 0),
                               syms=[Sym("f", 0, 8), Sym("g", 8, 8)], rels=[(0, 2, R_MIPS_26)]))[0]
    # f: jal .text+8 (call of the static function s through the section symbol, addend 2 in the field) ; nop
    # s (STB_LOCAL): jr ra ; nop
    out["exSec"] = write_elf(Obj(text=w(0x0c000002, 0, 0x03e00008, 0),
                                 syms=[Sym("", 0, 0, STB_LOCAL, STT_SECTION, ".text"), Sym("s", 8, 8, STB_LOCAL),
                                       Sym("f", 0, 8)], rels=[(0, 1, R_MIPS_26)]))[0]
    # 64-bit and big-endian containers of exObj's content
    out["ex64"] = out["exObj"][:4] + b"\x02" + out["exObj"][5:]
    out["exBE"] = out["exObj"][:5] + b"\x02" + out["exObj"][6:]
    return out


def lean_examples():
    ex = example_objects()
    lines = ["import NakenVerif.Link.LinkImpl",
             "/- GENERATED once by `python3 tools/gen_obj.py lean-examples` (ELF32 writer of tools/gen_obj.py); committed.",
             "   Concrete relocatable objects for the examples and counterexamples of Props/C20.lean. -/",
             "namespace NakenVerif.Link.Examples", "open NakenVerif.Link", ""]
    for name, b in ex.items():
        lines.append("def %s : Bytes := #[%s]" % (name, ", ".join(str(x) for x in b)))
        lines.append("")
    lines.append("end NakenVerif.Link.Examples")
    return "\n".join(lines) + "\n"


if __name__ == "__main__":
    import sys, os
    if sys.argv[1:] == ["lean-examples"]:
        p = os.path.join(os.path.dirname(os.path.dirname(os.path.abspath(__file__))), "lean", "NakenVerif", "Link", "Examples.lean")
        open(p, "w").write(lean_examples())
        print("wrote", p)


# ---------------------------------------------------------------------------------------------------
# Cases
# ---------------------------------------------------------------------------------------------------

class Case:
    """kind   : stream name
       prog   : Program
       files  : [(file name, bytes)] in command-line order
       descs  : [[ObjDesc, ...]] per file: the objects whose functions the file offers (members of an archive)
       expect : 'ok' | 'error' | 'any'  (what the property demands; 'any' = no crash, and a success must be right)
       why    : reason of an expected error / note"""

    def __init__(self, kind, prog, files, descs, expect="any", why=""):
        self.kind, self.prog, self.files, self.descs, self.expect, self.why = kind, prog, files, descs, expect, why
        self.model = True        # False: the source does not assemble by itself, the link model has no answer

    def line(self):
        return link_line(self.prog, self.files)


NAME_POOL = ["f0", "f1", "f2", "f3", "f4", "f5", "f6", "f7", "get_value", "_init", "Helper", "x", "a_b_c", "fn9z",
             "memcpy_", "L1", "f10", "x2", "f", "get_value_2", "helper"]          # incl. names that are prefixes of others


def pick_names(rng, n):
    pool = list(NAME_POOL)
    rng.shuffle(pool)
    out = pool[:n]
    if rng.random() < 0.08:
        out[0] = "n" * rng.choice([200, 253, 254])          # longest label Symbols::append takes: 254 characters
    return out


def shaped_graph(rng, names, shape):
    """call graph {caller: [callees]} over `names` (callees may repeat: the same function called many times)"""
    g = {n: [] for n in names}
    k = len(names)
    if shape == "chain":
        for i in range(k - 1): g[names[i]].append(names[i + 1])
    elif shape == "cycle":
        for i in range(k): g[names[i]].append(names[(i + 1) % k])
    elif shape == "self":
        for n in names: g[n].append(n)
    elif shape == "diamond" and k >= 4:
        g[names[0]] += [names[1], names[2]]; g[names[1]].append(names[3]); g[names[2]].append(names[3])
        for n in names[4:]: g[names[3]].append(n)
    elif shape == "star":
        for n in names[1:]: g[names[0]].append(n); g[n].append(names[0])
    elif shape == "mutual" and k >= 2:
        g[names[0]] += [names[1], names[1]]; g[names[1]] += [names[0], names[0], names[1]]
    else:
        for n in names:
            for _ in range(rng.choice([0, 0, 1, 1, 2, 4])):
                g[n].append(rng.choice(names))
    return g


def split_objects(rng, big, names, graph, nobj, undefined=(), odd_sizes=False, opts=None):
    parts = [[] for _ in range(nobj)]
    for n in names:
        parts[rng.randrange(nobj)].append(n)
    out = []
    for part in parts:
        sub = {n: list(graph[n]) for n in part}
        out.append(make_obj(rng, big, part, [], odd_sizes=odd_sizes, graph=sub, opts=opts))
    return out


def make_program(rng, cpu, names, called, extra=None, org=None, tail=None, labels=("main",)):
    stm = [("org", org if org is not None else rng.choice([0, 0x1000, 0x1000, 0x8000, 0xfff8, 0x10000, 0x0ffffff0,
                                                            0x10000000, 0x7ffffff0, 0x80000000, 0xbfc00000]))]
    stm.append(("label", labels[0]))
    for c in called:
        stm.append(rng.choice([("jal", c), ("jal", c), ("word", c)]))
        if rng.random() < 0.5:
            stm.append(("nop",))
    for lab in labels[1:]:
        stm.append(("label", lab))
        stm.append(("nop",))
    stm += list(extra or [])
    stm += list(tail or [])
    return Program(cpu, stm)


def gen_graph_case(rng, kind="graph", archive=False):
    cpu = rng.choice(["mips32", "mips32", "mips32", "mips", "pic32", "ps2_ee", "n64_rsp"])
    big = MIPS_CPUS[cpu]
    names = pick_names(rng, rng.randrange(1, 9))
    shape = rng.choice(["random", "random", "random", "chain", "cycle", "self", "diamond", "star", "mutual"])
    graph = shaped_graph(rng, names, shape)
    undefined = []
    why = ""
    if rng.random() < 0.1:                                   # a call to a symbol nothing defines
        u = "nowhere%d" % rng.randrange(3)
        graph[rng.choice(names)].append(u)
        undefined.append(u)
    nobj = rng.randrange(1, 4)
    odd = rng.random() < 0.15
    objs = split_objects(rng, big, names, graph, nobj, odd_sizes=odd)
    dup = None
    if rng.random() < 0.12 and names:                        # the same name defined by a second object
        dup = rng.choice(names)
        objs.append(make_obj(rng, big, [dup], [], graph={dup: [rng.choice(names)] if rng.random() < 0.5 else []}))
    called = [rng.choice(names) for _ in range(rng.randrange(0, 5))]
    extra, tail, labels = [], [], ["main"]
    r = rng.random()
    missing_ref = None
    if r < 0.06:
        missing_ref = "undefined_fn"
        extra.append(("jal", missing_ref))
    elif r < 0.10:
        labels.append(rng.choice(names))                     # the program defines a label an object defines too
    r = rng.random()
    if r < 0.07:
        tail = [("db", rng.choice([1, 2, 3, 5]))]            # source ends at an address that is not a multiple of 4
    elif r < 0.14:
        tail = [("db", rng.choice([1, 2, 3, 5])), ("align",)]
    elif r < 0.2:
        tail = [("db", 4)]
    prog = make_program(rng, cpu, names, called, extra=extra, tail=tail, labels=labels)
    if rng.random() < 0.08:
        prog.directive_endian = rng.choice(["big_endian", "little_endian"])
        if prog.big() != big:                                # objects hold the words in the image's byte order
            return gen_graph_case(rng, kind, archive)
    files, descs = pack_files(rng, objs, archive)
    # what the property demands
    reach = reference_closure(called + ([missing_ref] if missing_ref else []), objs)
    expect = "ok"
    if missing_ref or any(u in reach["unresolved"] for u in undefined) or reach["unresolved"]:
        expect, why = "error", "unresolved symbol " + ",".join(sorted(reach["unresolved"] | ({missing_ref} if missing_ref else set())))
    if dup is not None or len(labels) > 1:
        expect = "any"              # which definition is taken is not fixed by the property
    _, end, _, _ = prog.layout()
    if end % 4 and reach["placed"]:
        expect = "any" if expect == "ok" else expect           # misaligned start: an error or an aligned placement
    return Case(kind, prog, files, descs, expect, why)


def reference_closure(roots, objs):
    """names reachable from `roots` through the calls of the (first) definitions in `objs`"""
    defs = {}
    for o in objs:
        for f in o.fns:
            defs.setdefault(f.name, f)
    placed, todo, unresolved = [], [r for r in roots], set()
    while todo:
        n = todo.pop(0)
        if n in placed:
            continue
        if n not in defs:
            unresolved.add(n)
            continue
        placed.append(n)
        todo += list(defs[n].calls.values())
    return {"placed": placed, "unresolved": unresolved}


def pack_files(rng, objs, archive):
    """distribute objects over .o files and .a archives -> (files, descs)"""
    files, descs = [], []
    i = 0
    idx = list(range(len(objs)))
    while idx:
        if archive and (rng.random() < 0.7 or len(files) == 0):
            k = rng.randrange(1, len(idx) + 1)
            group, idx = idx[:k], idx[k:]
            members, mdesc, index_syms = [], [], {}
            if rng.random() < 0.3:
                members.append(("readme.txt", b"this is not an object\n" * rng.randrange(1, 3)))
            for g in group:
                name = rng.choice(["m%d.o" % g, "member_with_a_very_long_file_name_%d.o" % g, "x%d.o" % g])
                index_syms[len(members)] = [f.name for f in objs[g].fns]
                members.append((name, objs[g].elf() + (b"\0" if rng.random() < 0.4 else b"")))   # odd sizes
                mdesc.append(objs[g])
            if rng.random() < 0.2:
                members.append(("tail.bin", bytes(rng.getrandbits(8) for _ in range(rng.randrange(1, 9)))))
            data, _ = write_ar(members, symindex=rng.random() < 0.7, index_syms=index_syms,
                               long_names=rng.random() < 0.8)
            files.append(("lib%d.a" % i, data))
            descs.append(mdesc)
        else:
            g, idx = idx[0], idx[1:]
            files.append(("obj%d.o" % i, objs[g].elf()))
            descs.append([objs[g]])
        i += 1
    order = list(range(len(files)))
    rng.shuffle(order)
    return [files[k] for k in order], [descs[k] for k in order]


# --- corruptions -----------------------------------------------------------------------------------

def corrupt_elf(rng, data):
    """one structured corruption of a valid object -> (bytes, kind, must_fail)"""
    b = bytearray(data)
    e_shoff = struct.unpack_from("<I", b, 32)[0]
    shentsize, shnum, shstrndx = struct.unpack_from("<HHH", b, 46)
    kinds = ["class64", "big-endian", "magic", "short-header", "truncate", "shoff", "shnum", "shentsize", "shstrndx",
             "sec-offset", "sec-size", "sec-name", "sec-type", "sym-name", "sym-value", "sym-size", "sym-shndx",
             "rel-offset", "rel-info", "flip", "strtab-unterminated", "empty"]
    kind = rng.choice(kinds)
    must_fail = False
    big = [0, 1, 0x7f, 0x80, 0xffff, 0x10000, 0x7fffffff, 0x80000000, 0xfffffff0, 0xffffffff, len(b), len(b) - 1, len(b) + 1]

    def sec(i):
        return e_shoff + i * shentsize

    def find_sec(typ):
        for i in range(shnum):
            if struct.unpack_from("<I", b, sec(i) + 4)[0] == typ:
                return i
        return None

    if kind == "class64": b[4] = 2; must_fail = True
    elif kind == "big-endian": b[5] = 2; must_fail = True
    elif kind == "magic": b[rng.randrange(4)] ^= 1 << rng.randrange(8); must_fail = True
    elif kind == "short-header": b = b[:rng.randrange(0, 52)]; must_fail = True
    elif kind == "empty": b = bytearray(); must_fail = True
    elif kind == "truncate":
        cut = rng.choice([52, 53, e_shoff - 1, e_shoff, e_shoff + 1, e_shoff + 39, e_shoff + 40, len(b) - 1, len(b) - 40,
                          rng.randrange(52, len(b))])
        b = b[:max(0, min(cut, len(b) - 1))]; must_fail = True        # the section header table is the last thing in the file
    elif kind == "shoff": struct.pack_into("<I", b, 32, rng.choice(big)); must_fail = False
    elif kind == "shnum": struct.pack_into("<H", b, 48, rng.choice([0, 1, shnum - 1, shnum + 1, 0xffff]))
    elif kind == "shentsize": struct.pack_into("<H", b, 46, rng.choice([0, 1, 39, 41, 80, 0xffff]))
    elif kind == "shstrndx": struct.pack_into("<H", b, 50, rng.choice([0, shnum - 1, shnum, shnum + 1, 0xffff]))
    elif kind in ("sec-offset", "sec-size", "sec-name", "sec-type"):
        i = rng.randrange(shnum)
        off = {"sec-offset": 16, "sec-size": 20, "sec-name": 0, "sec-type": 4}[kind]
        vals = big if kind != "sec-type" else [0, 1, 2, 3, 4, 8, 9, 11, 0x70000000]
        struct.pack_into("<I", b, sec(i) + off, rng.choice(vals))
    elif kind.startswith("sym-") and find_sec(SHT_SYMTAB) is not None:
        i = find_sec(SHT_SYMTAB)
        so, ss = struct.unpack_from("<II", b, sec(i) + 16)
        n = ss // 16
        if n > 1:
            e = so + 16 * rng.randrange(1, n)
            if kind == "sym-name": struct.pack_into("<I", b, e, rng.choice(big))
            elif kind == "sym-value": struct.pack_into("<I", b, e + 4, rng.choice(big + [4, 8, 12]))
            elif kind == "sym-size": struct.pack_into("<I", b, e + 8, rng.choice(big + [2, 3, 5, 6, 7]))
            else: struct.pack_into("<H", b, e + 14, rng.choice([0, 1, 2, 3, 4, 5, 0xfff1, 0xffff]))
    elif kind.startswith("rel-") and find_sec(SHT_REL) is not None:
        i = find_sec(SHT_REL)
        so, ss = struct.unpack_from("<II", b, sec(i) + 16)
        if ss >= 8:
            e = so + 8 * rng.randrange(ss // 8)
            if kind == "rel-offset": struct.pack_into("<I", b, e, rng.choice(big + [0, 4, 8]))
            else: struct.pack_into("<I", b, e + 4, rng.choice([0x00000004, 0x00000104, 0x7fffff04, 0x80000004, 0xffffff04,
                                                               0x00ffff04, rng.getrandbits(32)]))
    elif kind == "strtab-unterminated":
        for i in range(shnum):
            if struct.unpack_from("<I", b, sec(i) + 4)[0] == SHT_STRTAB and i != shstrndx:
                so, ss = struct.unpack_from("<II", b, sec(i) + 16)
                if ss: b[so + ss - 1] = 0x41
    else:
        for _ in range(rng.randrange(1, 4)):
            if b: b[rng.randrange(len(b))] = rng.choice([0, 1, 0xff, rng.getrandbits(8)])
    return bytes(b), kind, must_fail


def corrupt_ar(rng, data):
    b = bytearray(data)
    kind = rng.choice(["signature", "size-nondigit", "size-huge", "size-small", "truncate", "header-cut", "flip", "size-minus"])
    must_fail = False
    if kind == "signature": b[rng.randrange(8)] ^= 0x20; must_fail = True
    elif kind == "truncate": b = b[:rng.randrange(0, len(b))]
    elif kind == "header-cut": b = b[:8 + rng.randrange(1, 60)]; must_fail = True
    elif kind == "flip":
        for _ in range(rng.randrange(1, 4)): b[rng.randrange(len(b))] = rng.getrandbits(8)
    else:
        # a member header's size field
        pos, headers = 8, []
        while pos + 60 <= len(b):
            headers.append(pos)
            try:
                sz = int(bytes(b[pos + 48:pos + 58]).split(b" ")[0] or b"0")
            except ValueError:
                break
            pos += 60 + sz + (sz & 1)
        if headers:
            h = rng.choice(headers)
            new = {"size-nondigit": rng.choice([b"12x", b"-60", b"0x10", b"\x00\x00", b"1e3"]),
                   "size-huge": rng.choice([b"9999999999", b"2147483647", b"4294967295", str(len(b)).encode()]),
                   "size-small": rng.choice([b"0", b"1", b"3", b"51", b"59"]),
                   "size-minus": rng.choice([b"-1", b"-60", b"-61", b"-240"])}[kind]
            b[h + 48:h + 58] = new.ljust(10)[:10]
            must_fail = kind in ("size-nondigit", "size-minus")
    return bytes(b), kind, must_fail


def gen_corrupt_case(rng):
    base = gen_graph_case(rng, "corrupt", archive=rng.random() < 0.4)
    k = rng.randrange(len(base.files))
    fname, data = base.files[k]
    if fname.endswith(".a"):
        if rng.random() < 0.5:
            new, kind, must = corrupt_ar(rng, data)
        else:
            # corrupt one member in place (same length, so the archive stays well formed)
            pos = data.find(b"\x7fELF")
            end = len(data)
            new_m, kind, must = corrupt_elf(rng, data[pos:end])
            kind = "member-" + kind
            must = False
            new = data[:pos] + new_m[:end - pos].ljust(end - pos, b"\0") if len(new_m) >= 4 else data
    else:
        new, kind, must = corrupt_elf(rng, data)
    files = list(base.files)
    files[k] = (fname, new)
    return Case("corrupt", base.prog, files, None, "error" if must else "any", kind)
