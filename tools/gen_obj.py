#!/usr/bin/env python3
"""ELF32 relocatable object / `ar` archive writer and the generators of the C20 `link` streams.

Written from the ELF gABI (System V ABI, chapters 4 "Object Files": ELF header, section header table,
symbol table, string table, relocation entries `Elf32_Rel`) and the MIPS psABI supplement
(R_MIPS_26 = 4: `(((A << 2) | (P & 0xf0000000)) + S) >> 2` stored in the low 26 bits of the word), and from the
System V `ar` format (global header `!<arch>\\n`, 60-byte member headers, decimal size field, members padded to an
even offset, `/` symbol index member with big-endian counts/offsets, `//` long-name table, `/<n>` references).
Nothing here is derived from /repo's reader.
"""
import struct

R_MIPS_32, R_MIPS_26, R_MIPS_HI16, R_MIPS_LO16 = 2, 4, 5, 6
SHT_NULL, SHT_PROGBITS, SHT_SYMTAB, SHT_STRTAB, SHT_RELA, SHT_NOBITS, SHT_REL = 0, 1, 2, 3, 4, 8, 9
STB_LOCAL, STB_GLOBAL, STB_WEAK = 0, 1, 2
STT_NOTYPE, STT_OBJECT, STT_FUNC, STT_SECTION, STT_FILE = 0, 1, 2, 3, 4
EM_MIPS = 8


class Sym:
    """one .symtab entry; `shndx` is a section *name* (resolved when writing), 'UND' or 'ABS'"""

    def __init__(self, name, value=0, size=0, bind=STB_GLOBAL, typ=STT_FUNC, shndx=".text"):
        self.name, self.value, self.size, self.bind, self.typ, self.shndx = name, value, size, bind, typ, shndx

    def __repr__(self):
        return "Sym(%r,%#x,%d,b%d,t%d,%s)" % (self.name, self.value, self.size, self.bind, self.typ, self.shndx)


class Obj:
    """description of a relocatable object.
    text      : bytes of .text
    syms      : list of Sym (entry 0, the null symbol, is added by the writer)
    rels      : list of (r_offset, symbol index into syms + 1 (0 = null symbol), r_type) for .rel.text
    data      : bytes of .data (section present when not None)
    rels_data : relocations of .data (section .rel.data present when not None)
    order     : order of the sections in the header table (after the null section)
    """

    def __init__(self, text=b"", syms=None, rels=None, data=None, rels_data=None, order=None,
                 ei_class=1, ei_data=1, e_machine=EM_MIPS, e_type=1, pad_before_text=0, trailing=b"",
                 shentsize=40, strtab_name=".strtab", reltab_name=".rel.text", text_name=".text", bss=None):
        self.text, self.syms, self.rels = text, list(syms or []), list(rels or [])
        self.data, self.rels_data, self.bss = data, rels_data, bss
        self.order = order
        self.ei_class, self.ei_data, self.e_machine, self.e_type = ei_class, ei_data, e_machine, e_type
        self.pad_before_text, self.trailing, self.shentsize = pad_before_text, trailing, shentsize
        self.strtab_name, self.reltab_name, self.text_name = strtab_name, reltab_name, text_name


def _strtab(names):
    tab, off = b"\0", {"": 0}
    for n in names:
        if n not in off:
            off[n] = len(tab)
            tab += n.encode("latin-1") + b"\0"
    return tab, off


def write_elf(o):
    """-> bytes of an ELF32 relocatable file for Obj `o` (byte order per o.ei_data: 1 = LSB, 2 = MSB)"""
    E = "<" if o.ei_data != 2 else ">"
    names = [o.text_name, o.reltab_name, ".symtab", o.strtab_name, ".shstrtab"]
    present = [o.text_name, o.reltab_name, ".symtab", o.strtab_name, ".shstrtab"]
    if o.data is not None:
        present.insert(1, ".data")
        if o.rels_data is not None:
            present.insert(2, ".rel.data")
    if o.bss is not None:
        present.append(".bss")
    order = list(o.order) if o.order else present
    for s in present:
        if s not in order:
            order.append(s)
    index = {name: i + 1 for i, name in enumerate(order)}
    shstr, shoff = _strtab(order)
    strtab, stroff = _strtab([s.name for s in o.syms])

    def shndx_of(s):
        if s.shndx == "UND":
            return 0
        if s.shndx == "ABS":
            return 0xfff1
        if isinstance(s.shndx, int):
            return s.shndx
        return index.get(s.shndx, 0)

    symtab = b"\0" * 16
    for s in o.syms:
        symtab += struct.pack(E + "IIIBBH", stroff[s.name], s.value & 0xffffffff, s.size & 0xffffffff,
                              ((s.bind & 15) << 4) | (s.typ & 15), 0, shndx_of(s))
    first_global = 1 + next((i for i, s in enumerate(o.syms) if s.bind != STB_LOCAL), len(o.syms))

    def relbytes(rels):
        return b"".join(struct.pack(E + "II", off & 0xffffffff, ((sym & 0xffffff) << 8) | (typ & 0xff))
                        for off, sym, typ in rels)

    body = {
        o.text_name: (SHT_PROGBITS, 6, o.text, 0, 0, 4, 0),
        ".data": (SHT_PROGBITS, 3, o.data or b"", 0, 0, 4, 0),
        ".bss": (SHT_NOBITS, 3, b"", 0, 0, 4, 0),
        o.reltab_name: (SHT_REL, 0x40, relbytes(o.rels), index[".symtab"], index[o.text_name], 4, 8),
        ".rel.data": (SHT_REL, 0x40, relbytes(o.rels_data or []), index[".symtab"], index.get(".data", 0), 4, 8),
        ".symtab": (SHT_SYMTAB, 0, symtab, index[o.strtab_name], first_global, 4, 16),
        o.strtab_name: (SHT_STRTAB, 0, strtab, 0, 0, 1, 0),
        ".shstrtab": (SHT_STRTAB, 0, shstr, 0, 0, 1, 0),
    }
    ehsize = 52
    out = bytearray(b"\0" * ehsize)
    out += b"\0" * o.pad_before_text
    place = {}
    for name in order:
        typ, flags, content, link, info, align, entsize = body[name]
        while len(out) % max(1, align):
            out.append(0)
        place[name] = len(out)
        out += content
    while len(out) % 4:
        out.append(0)
    e_shoff = len(out)
    sh = bytearray(b"\0" * o.shentsize)
    for name in order:
        typ, flags, content, link, info, align, entsize = body[name]
        size = len(content) if name != ".bss" else (o.bss or 0)
        ent = struct.pack(E + "IIIIIIIIII", shoff[name], typ, flags, 0, place[name], size, link, info, align, entsize)
        sh += ent + b"\0" * (o.shentsize - 40)
    out += sh
    out += o.trailing
    hdr = b"\x7fELF" + bytes([o.ei_class, o.ei_data, 1, 0, 0]) + b"\0" * 7
    hdr += struct.pack(E + "HHIIIIIHHHHHH", o.e_type, o.e_machine, 1, 0, 0, e_shoff, 0x1000, ehsize, 0, 0,
                       o.shentsize, len(order) + 1, index[".shstrtab"])
    out[:ehsize] = hdr
    return bytes(out), place


def ar_header(name, size, ident_override=None):
    ident = (ident_override if ident_override is not None else name).encode("latin-1")
    return (ident.ljust(16)[:16] + b"0".ljust(12) + b"0".ljust(6) + b"0".ljust(6) + b"644".ljust(8)
            + str(size).encode().ljust(10) + b"`\n")


def write_ar(members, symindex=True, index_syms=None, long_names=True):
    """members: list of (file name, bytes).  -> bytes of a System V / GNU archive.
    symindex   : emit the `/` symbol index member first (as `ar s` does)
    index_syms : {member number: [global symbol names]} for the index"""
    longtab = b""
    idents = []
    for name, _ in members:
        if len(name) > 15 and long_names:
            idents.append("/%d" % len(longtab))
            longtab += name.encode("latin-1") + b"/\n"
        else:
            idents.append((name + "/")[:16])
    if len(longtab) % 2:
        longtab += b"\n"
    # first pass: sizes, to know member offsets for the index
    names_blob = b""
    entries = []
    for i, _ in enumerate(members):
        for s in (index_syms or {}).get(i, []):
            entries.append((i, s))
            names_blob += s.encode("latin-1") + b"\0"
    idx_size = 4 + 4 * len(entries) + len(names_blob)
    pos = 8
    if symindex:
        pos += 60 + idx_size + (idx_size & 1)
    if longtab:
        pos += 60 + len(longtab)
    offs = []
    for _, content in members:
        offs.append(pos)
        pos += 60 + len(content) + (len(content) & 1)
    out = bytearray(b"!<arch>\n")
    if symindex:
        blob = struct.pack(">I", len(entries)) + b"".join(struct.pack(">I", offs[i]) for i, _ in entries) + names_blob
        out += ar_header("/", len(blob)) + blob
        if len(blob) & 1:
            out += b"\n"
    if longtab:
        out += ar_header("//", len(longtab)) + longtab
    for (name, content), ident in zip(members, idents):
        out += ar_header(ident, len(content), ident) + content
        if len(content) & 1:
            out += b"\n"
    return bytes(out), offs
