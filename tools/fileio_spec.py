"""Decoders for the eight output formats of naken_asm (+ TI-TXT encoder), written from the public
format descriptions, NOT from /repo/fileio:

  Intel HEX   : Intel "Hexadecimal Object File Format Specification" rev. A (1988)
  S-record    : Motorola M68000 Family Programmer's Reference Manual, appendix C / srec(5)
  ELF         : System V gABI chapter 4/5 (Elf32/Elf64 Ehdr, Shdr, Sym, Phdr)
  UF2         : github.com/microsoft/uf2 README ("File format")
  WDC         : WDCTools binary "Z" load format: 'Z' then blocks <addr24 le><len24 le><data>, len 0 ends
  Amiga hunk  : AmigaDOS Technical Reference Manual, "Binary file structure" (load files)
  Mach-O      : Apple "OS X ABI Mach-O File Format Reference" (mach_header, segment_command, nlist)
  raw binary  : the bytes themselves

Every decoder raises FormatError on any malformed record, wrong length or checksum and returns
(cells, meta): cells = list of (address, byte) in file order.
"""
import struct


class FormatError(Exception):
    pass


HEXD = "0123456789ABCDEFabcdef"


def _hexbytes(s, what):
    if len(s) % 2:
        raise FormatError("%s: odd number of hex digits" % what)
    for c in s:
        if c not in HEXD:
            raise FormatError("%s: non-hex character %r" % (what, c))
    return bytes.fromhex(s)


def _lines(data):
    try:
        text = data.decode("ascii")
    except UnicodeDecodeError:
        raise FormatError("non-ASCII byte in a text format")
    out = text.split("\n")
    if out and out[-1] == "":
        out.pop()
    return [l[:-1] if l.endswith("\r") else l for l in out]


def decode_ihex(data):
    cells, meta = [], {"records": [], "eof": False, "upper_case": True}
    base, mode = 0, "lin"
    for ln, line in enumerate(_lines(data), 1):
        if meta["eof"]:
            raise FormatError("line %d: record after the end-of-file record" % ln)
        if not line.startswith(":"):
            raise FormatError("line %d: record does not start with ':'" % ln)
        if line != line.upper():
            meta["upper_case"] = False
        b = _hexbytes(line[1:], "line %d" % ln)
        if len(b) < 5:
            raise FormatError("line %d: record too short" % ln)
        ll, off, typ = b[0], (b[1] << 8) | b[2], b[3]
        if len(b) != ll + 5:
            raise FormatError("line %d: RECLEN %d but %d data bytes" % (ln, ll, len(b) - 5))
        if sum(b) & 0xff:
            raise FormatError("line %d: checksum (sum of all bytes is %02x, not 00)" % (ln, sum(b) & 0xff))
        payload = b[4:-1]
        meta["records"].append((typ, off, ll))
        if typ == 0:
            for i, v in enumerate(payload):
                if mode == "lin":
                    a = (base + off + i) & 0xffffffff
                else:
                    a = base + ((off + i) & 0xffff)
                cells.append((a, v))
        elif typ == 1:
            if ll != 0:
                raise FormatError("line %d: EOF record with data" % ln)
            meta["eof"] = True
        elif typ == 2:
            if ll != 2 or off != 0:
                raise FormatError("line %d: bad extended segment address record" % ln)
            base, mode = ((payload[0] << 8) | payload[1]) << 4, "seg"
        elif typ == 4:
            if ll != 2 or off != 0:
                raise FormatError("line %d: bad extended linear address record" % ln)
            base, mode = ((payload[0] << 8) | payload[1]) << 16, "lin"
        elif typ in (3, 5):
            if ll != 4 or off != 0:
                raise FormatError("line %d: bad start address record" % ln)
            meta["start"] = int.from_bytes(payload, "big")
        else:
            raise FormatError("line %d: unknown record type %02x" % (ln, typ))
    if not meta["eof"]:
        raise FormatError("no end-of-file record")
    return cells, meta


def decode_srec(data):
    cells, meta = [], {"records": [], "entry": None, "term": None, "header": None, "count": None}
    ndata = 0
    for ln, line in enumerate(_lines(data), 1):
        if meta["term"] is not None:
            raise FormatError("line %d: record after the termination record" % ln)
        if len(line) < 4 or line[0] != "S" or line[1] not in "0123456789":
            raise FormatError("line %d: not an S-record" % ln)
        typ = int(line[1])
        b = _hexbytes(line[2:], "line %d" % ln)
        if len(b) < 1 or b[0] != len(b) - 1:
            raise FormatError("line %d: byte count %s but %d bytes follow" % (ln, b[:1].hex(), len(b) - 1))
        if (sum(b) & 0xff) != 0xff:
            raise FormatError("line %d: checksum (ones' complement sum is %02x, not ff)" % (ln, sum(b) & 0xff))
        alen = {0: 2, 1: 2, 2: 3, 3: 4, 5: 2, 6: 3, 7: 4, 8: 3, 9: 2}.get(typ)
        if alen is None:
            raise FormatError("line %d: reserved record type S%d" % (ln, typ))
        if b[0] < alen + 1:
            raise FormatError("line %d: byte count too small for the address" % ln)
        addr = int.from_bytes(b[1:1 + alen], "big")
        payload = b[1 + alen:-1]
        meta["records"].append((typ, addr, len(payload)))
        if typ == 0:
            meta["header"] = payload
        elif typ in (1, 2, 3):
            ndata += 1
            for i, v in enumerate(payload):
                cells.append(((addr + i) & 0xffffffff, v))
        elif typ in (5, 6):
            if payload:
                raise FormatError("line %d: count record with data" % ln)
            if addr != ndata:
                raise FormatError("line %d: record count %d but %d data records" % (ln, addr, ndata))
            meta["count"] = addr
        else:
            if payload:
                raise FormatError("line %d: termination record with data" % ln)
            meta["term"], meta["entry"] = typ, addr
    return cells, meta


def decode_bin(data, start):
    return [(start + i, v) for i, v in enumerate(data)], {}


def decode_wdc(data):
    if data[:1] != b"Z":
        raise FormatError("no 'Z' signature")
    cells, pos, blocks = [], 1, []
    while pos < len(data):
        if pos + 6 > len(data):
            raise FormatError("truncated block header at %d" % pos)
        addr = int.from_bytes(data[pos:pos + 3], "little")
        ln = int.from_bytes(data[pos + 3:pos + 6], "little")
        pos += 6
        if ln == 0:
            if pos != len(data):
                raise FormatError("data after the terminating block")
            break
        if pos + ln > len(data):
            raise FormatError("block at %06x: length %d exceeds the file" % (addr, ln))
        blocks.append((addr, ln))
        cells += [(addr + i, v) for i, v in enumerate(data[pos:pos + ln])]
        pos += ln
    return cells, {"blocks": blocks}


UF2_MAGIC0, UF2_MAGIC1, UF2_MAGIC_END = 0x0A324655, 0x9E5D5157, 0x0AB16F30


def decode_uf2(data):
    if len(data) % 512:
        raise FormatError("file length %d is not a multiple of 512" % len(data))
    cells, blocks = [], []
    for i in range(0, len(data), 512):
        m0, m1, flags, addr, size, blockno, nblocks, fam = struct.unpack("<8I", data[i:i + 32])
        (mend,) = struct.unpack("<I", data[i + 508:i + 512])
        if (m0, m1, mend) != (UF2_MAGIC0, UF2_MAGIC1, UF2_MAGIC_END):
            raise FormatError("block %d: bad magic" % (i // 512))
        if size > 476:
            raise FormatError("block %d: payload size %d > 476" % (i // 512, size))
        if blockno >= nblocks:
            raise FormatError("block %d: blockNo %d >= numBlocks %d" % (i // 512, blockno, nblocks))
        blocks.append({"flags": flags, "addr": addr, "size": size, "blockno": blockno, "nblocks": nblocks, "family": fam})
        if flags & 1:       # not main flash: skipped by a loader
            continue
        cells += [((addr + k) & 0xffffffff, v) for k, v in enumerate(data[i + 32:i + 32 + size])]
    return cells, {"blocks": blocks}


def decode_elf(data):
    if data[:4] != b"\x7fELF":
        raise FormatError("no ELF magic")
    cls, dat, ver = data[4], data[5], data[6]
    if cls not in (1, 2) or dat not in (1, 2) or ver != 1:
        raise FormatError("bad e_ident class/data/version %d/%d/%d" % (cls, dat, ver))
    e = "<" if dat == 1 else ">"
    try:
        if cls == 1:
            (e_type, e_machine, e_version, e_entry, e_phoff, e_shoff, e_flags, e_ehsize, e_phentsize, e_phnum,
             e_shentsize, e_shnum, e_shstrndx) = struct.unpack(e + "HHIIIIIHHHHHH", data[16:52])
            ehsize, shsize, phsize, symsize = 52, 40, 32, 16
        else:
            (e_type, e_machine, e_version, e_entry, e_phoff, e_shoff, e_flags, e_ehsize, e_phentsize, e_phnum,
             e_shentsize, e_shnum, e_shstrndx) = struct.unpack(e + "HHIQQQIHHHHHH", data[16:64])
            ehsize, shsize, phsize, symsize = 64, 64, 56, 24
    except struct.error:
        raise FormatError("truncated ELF header")
    problems = []
    if e_ehsize != ehsize:
        problems.append("e_ehsize=%d for ELFCLASS%d (must be %d)" % (e_ehsize, 32 * cls, ehsize))
    if e_shentsize != shsize:
        problems.append("e_shentsize=%d (must be %d)" % (e_shentsize, shsize))
    if e_shoff + e_shnum * e_shentsize > len(data):
        raise FormatError("section header table (%d entries at %d) exceeds the file (%d bytes)" % (e_shnum, e_shoff, len(data)))
    secs = []
    for i in range(e_shnum):
        o = e_shoff + i * e_shentsize
        if cls == 1:
            f = struct.unpack(e + "10I", data[o:o + 40])
        else:
            f = struct.unpack(e + "IIQQQQIIQQ", data[o:o + 64])
        secs.append(dict(zip(("name", "type", "flags", "addr", "offset", "size", "link", "info", "addralign", "entsize"), f)))
    if e_shnum and e_shstrndx >= e_shnum:
        raise FormatError("e_shstrndx %d >= e_shnum %d" % (e_shstrndx, e_shnum))
    for i, s in enumerate(secs):
        if s["type"] not in (0, 8) and s["offset"] + s["size"] > len(data):
            raise FormatError("section %d [%d,+%d) exceeds the file" % (i, s["offset"], s["size"]))

    def cstr(tab, off):
        t = secs[tab]
        blob = data[t["offset"]:t["offset"] + t["size"]]
        if off >= len(blob):
            raise FormatError("string offset %d outside string table %d" % (off, tab))
        end = blob.find(b"\0", off)
        if end < 0:
            raise FormatError("unterminated string in table %d" % tab)
        return blob[off:end].decode("latin-1")
    if e_shnum and secs[e_shstrndx]["type"] != 3:
        raise FormatError("e_shstrndx does not name a string table")
    for s in secs:
        s["sname"] = cstr(e_shstrndx, s["name"]) if e_shnum else ""
    cells, symbols = [], []
    for s in secs:
        if s["flags"] & 0x20 and s["type"] != 8 and s["size"] and data[s["offset"] + s["size"] - 1] != 0:
            problems.append("strings section %s (SHF_STRINGS) does not end with a NUL" % s["sname"])
        if s["type"] == 1 and (s["flags"] & 2):       # PROGBITS + SHF_ALLOC: occupies memory
            blob = data[s["offset"]:s["offset"] + s["size"]]
            cells += [(s["addr"] + i, v) for i, v in enumerate(blob)]
        if s["type"] == 2:
            if s["entsize"] != symsize:
                problems.append("symtab sh_entsize=%d (must be %d)" % (s["entsize"], symsize))
            if s["size"] % symsize:
                raise FormatError("symtab size %d not a multiple of %d" % (s["size"], symsize))
            if s["link"] >= e_shnum or secs[s["link"]]["type"] != 3:
                raise FormatError("symtab sh_link %d is not a string table" % s["link"])
            binds = []
            for k in range(s["size"] // symsize):
                o = s["offset"] + k * symsize
                if cls == 1:
                    st_name, st_value, st_size, st_info, st_other, st_shndx = struct.unpack(e + "IIIBBH", data[o:o + 16])
                else:
                    st_name, st_info, st_other, st_shndx, st_value, st_size = struct.unpack(e + "IBBHQQ", data[o:o + 24])
                symbols.append({"name": cstr(s["link"], st_name), "value": st_value, "info": st_info, "shndx": st_shndx})
                binds.append(st_info >> 4)
                if not (st_shndx < e_shnum or st_shndx >= 0xff00):
                    problems.append("symbol %d st_shndx=%d is not a section index" % (k, st_shndx))
            # gABI: sh_info = one greater than the index of the last STB_LOCAL symbol; all locals precede the globals
            first_global = next((k for k, b in enumerate(binds) if b != 0), len(binds))
            if any(b == 0 for b in binds[first_global:]):
                problems.append("symtab local symbol after a global one")
            elif s["info"] != first_global:
                problems.append("symtab sh_info=%d (first non-local symbol is %d)" % (s["info"], first_global))
    phdrs = []
    if e_phnum:
        if e_phentsize != phsize:
            problems.append("e_phentsize=%d (must be %d)" % (e_phentsize, phsize))
        if e_phoff < ehsize:
            problems.append("e_phoff=%d lies inside the %d-byte ELF header" % (e_phoff, ehsize))
        for i in range(e_phnum):
            o = e_phoff + i * phsize
            if o + phsize > len(data):
                raise FormatError("program header %d exceeds the file" % i)
            if cls == 1:
                p_type, p_offset, p_vaddr, p_paddr, p_filesz, p_memsz, p_flags, p_align = struct.unpack(e + "8I", data[o:o + 32])
            else:
                p_type, p_flags, p_offset, p_vaddr, p_paddr, p_filesz, p_memsz, p_align = struct.unpack(e + "IIQQQQQQ", data[o:o + 56])
            phdrs.append({"type": p_type, "offset": p_offset, "vaddr": p_vaddr, "filesz": p_filesz, "memsz": p_memsz})
            if p_type == 1 and p_offset + p_filesz > len(data):
                raise FormatError("PT_LOAD segment [%d,+%d) exceeds the file" % (p_offset, p_filesz))
    return cells, {"class": cls, "big": dat == 2, "entry": e_entry, "type": e_type, "machine": e_machine, "sections": secs,
                   "symbols": symbols, "phdrs": phdrs, "problems": problems, "phnum": e_phnum}


HUNK_HEADER, HUNK_CODE, HUNK_DATA, HUNK_BSS, HUNK_END = 0x3f3, 0x3e9, 0x3ea, 0x3eb, 0x3f2


def decode_amiga(data):
    pos = 0

    def u32():
        nonlocal pos
        if pos + 4 > len(data):
            raise FormatError("truncated at %d" % pos)
        v = int.from_bytes(data[pos:pos + 4], "big")
        pos += 4
        return v
    if u32() != HUNK_HEADER:
        raise FormatError("no HUNK_HEADER")
    while True:                       # resident library names
        n = u32()
        if n == 0:
            break
        pos += 4 * n
    table, first, last = u32(), u32(), u32()
    if last - first + 1 != table and not (first == 0 and last == 0 and table == 1):
        raise FormatError("hunk table size %d but hunks %d..%d" % (table, first, last))
    sizes = [u32() for _ in range(last - first + 1)]
    hunks = []
    for sz in sizes:
        t = u32() & 0x3fffffff
        if t not in (HUNK_CODE, HUNK_DATA, HUNK_BSS):
            raise FormatError("unexpected hunk type %x" % t)
        n = u32()
        if (n & 0x3fffffff) > (sz & 0x3fffffff):
            raise FormatError("hunk of %d longwords larger than its table entry %d" % (n, sz))
        if t != HUNK_BSS:
            if pos + 4 * n > len(data):
                raise FormatError("hunk data truncated")
            hunks.append(data[pos:pos + 4 * n])
            pos += 4 * n
        t2 = u32()
        if t2 != HUNK_END:
            raise FormatError("hunk not followed by HUNK_END (got %08x at %d)" % (t2, pos - 4))
    if pos != len(data):
        raise FormatError("%d bytes after the last hunk" % (len(data) - pos))
    cells = [(i, v) for i, v in enumerate(hunks[0])] if hunks else []
    return cells, {"hunks": len(hunks)}


def decode_macho(data):
    if len(data) < 28:
        raise FormatError("truncated header")
    magic_le = int.from_bytes(data[:4], "little")
    magic_be = int.from_bytes(data[:4], "big")
    if magic_le in (0xfeedface, 0xfeedfacf):
        e, magic = "<", magic_le
    elif magic_be in (0xfeedface, 0xfeedfacf):
        e, magic = ">", magic_be
    else:
        raise FormatError("no Mach-O magic")
    is64 = magic == 0xfeedfacf
    cputype, cpusub, filetype, ncmds, sizeofcmds, flags = struct.unpack(e + "6I", data[4:28])
    pos = 32 if is64 else 28
    if pos + sizeofcmds > len(data):
        raise FormatError("load commands exceed the file")
    end_cmds = pos + sizeofcmds
    sections, symbols, cells = [], [], []
    symtab = None
    for i in range(ncmds):
        if pos + 8 > end_cmds:
            raise FormatError("load command %d outside sizeofcmds" % i)
        cmd, cmdsize = struct.unpack(e + "II", data[pos:pos + 8])
        if cmdsize < 8 or pos + cmdsize > end_cmds:
            raise FormatError("load command %d: bad cmdsize %d" % (i, cmdsize))
        if cmd in (0x1, 0x19):
            if cmd == 0x1:
                segname, vmaddr, vmsize, fileoff, filesize, maxprot, initprot, nsects, sflags = struct.unpack(e + "16s8I", data[pos + 8:pos + 56])
                sp, ssz = pos + 56, 68
            else:
                segname, vmaddr, vmsize, fileoff, filesize, maxprot, initprot, nsects, sflags = struct.unpack(e + "16s4Q4I", data[pos + 8:pos + 72])
                sp, ssz = pos + 72, 80
            if sp + nsects * ssz > pos + cmdsize:
                raise FormatError("segment command: sections exceed cmdsize")
            if fileoff + filesize > len(data):
                raise FormatError("segment file range exceeds the file")
            for k in range(nsects):
                o = sp + k * ssz
                if cmd == 0x1:
                    sectname, sseg, addr, size, offset = struct.unpack(e + "16s16sIII", data[o:o + 44])
                else:
                    sectname, sseg, addr, size, offset = struct.unpack(e + "16s16sQQI", data[o:o + 52])
                if offset + size > len(data):
                    raise FormatError("section exceeds the file")
                sections.append({"name": sectname.rstrip(b"\0").decode(), "addr": addr, "size": size, "offset": offset})
                cells += [(addr + j, v) for j, v in enumerate(data[offset:offset + size])]
        elif cmd == 0x2:
            symoff, nsyms, stroff, strsize = struct.unpack(e + "4I", data[pos + 8:pos + 24])
            symtab = (symoff, nsyms, stroff, strsize)
        pos += cmdsize
    if symtab:
        symoff, nsyms, stroff, strsize = symtab
        nsz = 16 if is64 else 12
        if symoff + nsyms * nsz > len(data) or stroff + strsize > len(data):
            raise FormatError("symbol/string table exceeds the file")
        strs = data[stroff:stroff + strsize]
        for k in range(nsyms):
            o = symoff + k * nsz
            if is64:
                strx, ntype, nsect, ndesc, value = struct.unpack(e + "IBBHQ", data[o:o + 16])
            else:
                strx, ntype, nsect, ndesc, value = struct.unpack(e + "IBBHI", data[o:o + 12])
            if strx >= len(strs):
                raise FormatError("symbol %d: string index outside the string table" % k)
            endz = strs.find(b"\0", strx)
            symbols.append({"name": strs[strx:endz if endz >= 0 else len(strs)].decode("latin-1"), "value": value, "type": ntype})
    return cells, {"sections": sections, "symbols": symbols, "is64": is64, "big": e == ">"}


def encode_ti_txt(cells):
    """TI-TXT (SLAU101): '@ADDR' section headers (hex), then bytes, 16 per line, 'q' ends the file."""
    out, prev, col = [], None, 0
    for a in sorted(cells):
        if prev is None or a != prev + 1:
            if col:
                out.append("\n")
            out.append("@%04X\n" % a)
            col = 0
        out.append("%02X" % cells[a])
        col += 1
        if col == 16:
            out.append("\n")
            col = 0
        else:
            out.append(" ")
        prev = a
    if col:
        out.append("\n")
    out.append("q\n")
    return "".join(out).encode()
