"""Generators for C16: hostile texts for the reader / macro code and hostile source files.

Everything is derived from the rng passed in (ctx.rng) and from constants read out of the
regenerated Lean files (so a moved limit moves the boundary cases with it).
"""
import os, re, glob
import nvlib

HX = nvlib.hexs


def limits():
    """constants of Generated/Limits.lean + ReaderLimits.lean as a dict"""
    out = {}
    for f in ("Limits.lean", "ReaderLimits.lean"):
        p = os.path.join(nvlib.LEAN, "NakenVerif", "Generated", f)
        for m in re.finditer(r"^def (\w+) : Nat := (\d+)", open(p).read(), re.M):
            out[m.group(1)] = int(m.group(2))
    # a limit that has disappeared from the source is regenerated as 1000000007 (or 0 for an extent):
    # the boundary cases are then placed where the limit used to be
    default = {"tokenLen": 512, "maxNestedMacros": 128, "maxMacroLen": 1024, "paramStackLen": 4096, "exParamsLen": 1024,
               "exCountMax": 255, "mpNameArg": 128, "mpParamsCheck": 1024, "mpParamCountMax": 255, "includeDepthMax": 32,
               "maxNestedIfs": 128, "maxExpressionDepth": 512, "maxIfdefParens": 512, "maxMacroExpansions": 100000}
    for k, v in default.items():
        if out.get(k, 0) <= 0 or out.get(k, 0) > 10000000:
            out[k] = v
    return out


# ---------------------------------------------------------------------------
# character level streams (correspondence model <-> real code)
# ---------------------------------------------------------------------------

LEXCHARS = "abcxyzhqbHQB_0123456789.,:;#$'\"\\/*<>=&|()[]+-~! \t\n\r"
ODD = [0, 1, 9, 13, 127, 128, 200, 254, 255]


def rand_text(rng, n, hi=True):
    out = []
    for _ in range(n):
        k = rng.random()
        if k < 0.88:
            out.append(ord(rng.choice(LEXCHARS)))
        elif k < 0.94 and hi:
            out.append(rng.choice(ODD))
        else:
            out.append(rng.randrange(32, 127) if not hi else rng.randrange(256))
    return bytes(out)


def token_of(rng, kind, n):
    n = max(0, n)
    if kind == "ident": return b"a" * n
    if kind == "digits": return b"1" * n
    if kind == "hex": return b"0x" + b"f" * max(0, n - 2)
    if kind == "hexh": return b"1" * max(0, n - 1) + b"h"
    if kind == "bin": return b"0b" + b"1" * max(0, n - 2)
    if kind == "float": return b"1." + b"5" * max(0, n - 2)
    if kind == "quoted": return b'"' + b"s" * n + b'"'
    if kind == "quoted-open": return b'"' + b"s" * n
    if kind == "quoted-esc": return b'"' + b"\\n" * (n // 2) + b'"'
    if kind == "dollar": return b"$" + b"a" * max(0, n - 1)
    if kind == "dollarhex": return b"$" + b"f" * max(0, n - 1)
    if kind == "dots": return (b"a." * n)[:n]
    if kind == "slashes": return (b"a/" * n)[:n]
    if kind == "num_": return b"1" + b"_" * n + b"1"
    if kind == "label": return b"a" * n + b":"
    if kind == "ticks": return b"'" + b"a" * n + b"'"
    return b"a" * n

TOKEN_KINDS = ["ident", "digits", "hex", "hexh", "bin", "float", "quoted", "quoted-open", "quoted-esc", "dollar",
               "dollarhex", "dots", "slashes", "num_", "label", "ticks"]


def flags_of(rng):
    return "".join(rng.choice("01") for _ in range(6))


def defs_str(defs):
    """[(name, param_count, value bytes)] -> protocol argument"""
    if not defs:
        return "-"
    return ";".join("%s:%d:%s" % (n, pc, HX(v)) for n, pc, v in defs)


def tk_lines(ctx, L):
    rng = ctx.rng
    lines, dist = [], {}

    def add(kind, flags, ln, defs, text):
        dist[kind] = dist.get(kind, 0) + 1
        lines.append("tk %s %d %s %s" % (flags, ln, defs_str(defs), HX(text)))

    # tokens at the buffer boundary, for small buffers and for TOKENLEN
    for ln in (1, 2, 3, 4, 5, 8, 16, L["tokenLen"]):
        for kind in TOKEN_KINDS:
            for d in (-4, -3, -2, -1, 0, 1, 2, 9):
                if ln > 64 and ctx.quick() and d in (-4, 9) and kind not in ("ident", "quoted"):
                    continue
                t = token_of(rng, kind, ln + d)
                for fl in ("000000", "111111", flags_of(rng)):
                    add("boundary", fl, ln, [], t + rng.choice([b"", b" x", b"\n", b".5", b"'", b";c"]))
    # random token soup
    for _ in range(ctx.scale(8000, 40000)):
        ln = rng.choice([3, 4, 6, 8, 12, 16, 64, L["tokenLen"]])
        add("soup", flags_of(rng), ln, [], rand_text(rng, rng.randrange(0, 60)))
    # comments, strings and escapes that end at EOF or run into each other
    pieces = [b"/*", b"*/", b"//", b";", b'"', b"'", b"\\", b"\n", b"*", b"/", b"a", b" ", b"\r", b"\xff", b"\x00",
              b"1.", b".", b"$", b"$f", b"<<", b"<=", b"==", b"&&", b"|", b"'a'", b"'\\n'", b"'\\", b'"\\"', b"1_", b"0x",
              b"1h", b"0b1b", b"7q", b"#", b":"]
    for _ in range(ctx.scale(8000, 40000)):
        t = b"".join(rng.choice(pieces) for _ in range(rng.randrange(1, 14)))
        add("pieces", flags_of(rng), rng.choice([4, 8, 16, L["tokenLen"]]), [], t)
    # macros: nesting around MAX_NESTED_MACROS, self reference, mutual reference, empty texts
    N = L["maxNestedMacros"]
    for depth in (1, 2, 5, N - 2, N - 1, N, N + 1, N + 2):
        defs = [("A0", 0, b"7 ")] + [("A%d" % (i + 1), 0, b"A%d " % i) for i in range(depth)]
        add("nest-define", "000000", L["tokenLen"], defs, b"A%d z\n" % depth)
        # every level hides an ungot character
        defs = [("A0", 0, b"7")] + [("A%d" % (i + 1), 0, b"A%d" % i) for i in range(depth)]
        add("nest-define-tight", "000000", L["tokenLen"], defs, b"A%d,z\n" % depth)
        defs = [("M0", 1, b"<\x01\x01> ")] + [("M%d" % (i + 1), 1, b"M%d(\x01\x01) " % i) for i in range(depth)]
        add("nest-macro", "000000", L["tokenLen"], defs, b"M%d(q) z\n" % depth)
    add("self", "000000", L["tokenLen"], [("A", 0, b"A ")], b"A z")
    add("self", "000000", L["tokenLen"], [("A", 0, b" A")], b"A\nz")          # never ends: expansion budget
    add("mutual", "000000", L["tokenLen"], [("A", 0, b" B"), ("B", 0, b" A")], b"A\nz")
    add("empty", "000000", L["tokenLen"], [("A", 0, b"")], b"A A A A A A A A z")
    add("empty", "000000", L["tokenLen"], [("A", 0, b" ")], b"A " * 300 + b"z")
    # more macro entries than the expansion budget, each after a character of the source: not an error
    add("budget-reset", "000000", L["tokenLen"], [("A", 0, b" ")], b"A " * (L["maxMacroExpansions"] + 50) + b"z")
    add("laughs", "000000", L["tokenLen"], [("A0", 0, b"1 ")] + [("A%d" % (i + 1), 0, b"A%d A%d " % (i, i)) for i in range(24)],
        b"A24\nz")
    add("self-param", "000000", L["tokenLen"], [("M", 1, b"M(\x01\x01) ")], b"M(1) z")
    add("self-param-grow", "000000", L["tokenLen"], [("M", 1, b"M(\x01\x01 \x01\x01) ")], b"M(xxxxxxxx) z")
    # invocation arguments around params[] / params_ptr[] / the arena
    P, C, A = L["exParamsLen"], L["exCountMax"], L["paramStackLen"]
    for d in (-6, -5, -4, -3, -2, -1, 0, 1, 40):
        add("args-len", "000000", L["tokenLen"], [("M", 1, b"\x01\x01 ")], b"M(" + b"1" * (P + d) + b") z")
        add("args-len-str", "000000", L["tokenLen"], [("M", 1, b"\x01\x01 ")], b'M("' + b"\\\\" * ((P + d) // 2) + b'") z')
        add("args-count", "000000", L["tokenLen"], [("M", 1, b"\x01\x01 ")], b"M(" + b"1," * (C + d) + b"1) z")
    for n in (1, 2, 3, 5):
        for d in (-3, -2, -1, 0, 1, 2):
            # the expansion fills the arena to within d bytes
            arg = b"x" * min(P - 8, 900)
            reps = max(1, (A + d) // (len(arg) * n) if n else 1)
            body = b"\x01\x01" * n
            add("arena", "000000", L["tokenLen"], [("M", 1, body + b" ")], (b"M(" + arg + b") ") * reps + b"z")
    for _ in range(ctx.scale(3000, 15000)):
        defs = []
        names = ["A", "B", "C", "M", "N"]
        for nm in names[: rng.randrange(1, 5)]:
            pc = rng.choice([0, 0, 1, 2, 3])
            body = b"".join(rng.choice([b"a", b" ", b"1", b",", b"(", b")", b"A", b"B", b"M(1)", b"N(1,2)", b"\x01\x01",
                                        b"\x01\x02", b"\x01\x05", b"\x01", b'"', b";", b"\n"]) for _ in range(rng.randrange(0, 10)))
            defs.append((nm, pc, body.replace(b"\x00", b"")))
        text = b"".join(rng.choice([b"A", b"B", b"C", b"M", b"N", b" ", b"(", b")", b",", b"1", b"x", b'"', b"'", b"\\",
                                    b"\n", b"\t", b"\r", b"((", b"))", b"\xff"]) for _ in range(rng.randrange(1, 30)))
        add("macro-soup", flags_of(rng), rng.choice([8, 16, L["tokenLen"]]), defs, text)
    return lines, dist


def mp_lines(ctx, L):
    rng = ctx.rng
    lines, dist = [], {}

    def add(kind, is_def, text):
        dist[kind] = dist.get(kind, 0) + 1
        lines.append("mp %d %s" % (is_def, HX(text)))

    NL, M, PL, PC = L["mpNameArg"], L["maxMacroLen"], L["mpParamsCheck"], L["mpParamCountMax"]
    for is_def in (0, 1):
        for d in (-3, -2, -1, 0, 1, 2, 50):
            add("name-len", is_def, b" " + b"n" * (NL + d) + b" 1\n" + (b".endm\n" if not is_def else b""))
            add("name-len-paren", is_def, b" " + b"n" * (NL + d) + b"(a) a\n" + (b".endm\n" if not is_def else b""))
        for lead in (b"", b" ", b"\t \t", b"1abc", b"_x", b"(", b"\n", b"\xff", b"a\x00b"):
            add("name-odd", is_def, lead + b" 5\n.endm\n")
        # parameter lists
        for d in (-4, -3, -2, -1, 0, 1, 30):
            half = (PL + d) // 2
            add("params-len", is_def, b" M(" + b"a" * min(half, 500) + b"," + b"b" * min(PL + d - min(half, 500) - 3, 500)
                + b"," + b"c" * max(0, PL + d - 1006) + b")\n.db 1\n.endm\n")
        for d in (-2, -1, 0, 1, 2):
            ps = b",".join(b"p%d" % i for i in range(PC + d))
            add("params-count", is_def, b" M(" + ps + b")\n.db p1\n.endm\n")
        for bad in (b" M(a b)", b" M(a,", b" M(,)", b" M()", b" M(1)", b" M(a,a)", b' M("a")', b" M(a", b" M(a,)\n"):
            add("params-bad", is_def, bad + b" x\n.endm\n")
        # bodies around MAX_MACRO_LEN, with and without a parameter at the very end
        for d in (-6, -5, -4, -3, -2, -1, 0, 1, 2, 3, 500):
            n = M + d
            add("body-len", is_def, b" A " + b"1" * n + b"\n" + (b".endm\n" if not is_def else b""))
            add("body-len-param", is_def, b" A(x) " + b"1" * max(0, n - 1) + b" x" + b"\n" + (b".endm\n" if not is_def else b""))
            add("body-len-param2", is_def, b" A(x) " + b"1" * max(0, n - 2) + b" x;c\n" + (b".endm\n" if not is_def else b""))
            add("body-len-eof", is_def, b" A " + b"1" * n)
            add("body-len-lines", is_def, b" A\n" + b".db 1\n" * (n // 6) + b"1" * (n % 6) + (b"\n.endm\n" if not is_def else b"\n"))
        # comments, continuation lines, block comments
        parts = [b";", b"//", b"/", b"/*", b"*/", b"*", b"\\\n", b"\\\r\n", b"\\x", b"\n", b" ", b"\t", b"x", b"y", b"xy", b"x1", b"_x",
                 b"1", b".endm", b".ENDM", b" .endm", b".endmx", b"\r", b"\xff", b"\x00", b'"', b"x;", b" ;c", b"x//c\n", b"\x01"]
        for _ in range(ctx.scale(2500, 12000)):
            head = rng.choice([b" A ", b" A(x) ", b" A(x,y) ", b" A\n", b" A(x)\n", b" A(x, y)\n"])
            body = b"".join(rng.choice(parts) for _ in range(rng.randrange(0, 16)))
            add("body-soup", is_def, head + body + rng.choice([b"", b"\n", b"\n.endm\n", b".endm"]))
    return lines, dist


def mx_lines(ctx, L):
    rng = ctx.rng
    lines, dist = [], {}

    def add(kind, k, pc, define, text):
        dist[kind] = dist.get(kind, 0) + 1
        lines.append("mx %d %d %s %s" % (k, pc, HX(define), HX(text)))

    P, C, A, N = L["exParamsLen"], L["exCountMax"], L["paramStackLen"], L["maxNestedMacros"]
    for d in (-6, -5, -4, -3, -2, -1, 0, 1, 2, 60):
        add("len", 1, 1, b"\x01\x01", b"(" + b"a" * (P + d) + b")")
        add("len-bs", 1, 1, b"\x01\x01", b'("' + b"\\a" * ((P + d) // 2) + b'")')
        add("len-space", 1, 1, b"\x01\x01", b"(  " + b"a " * ((P + d) // 2) + b")")
        add("count", 1, (C + d) % 256 if C + d > 0 else 1, b"\x01\x01", b"(" + b"," * (C + d - 1) + b")")
    for text in (b"", b" ", b"x", b"(", b"(a", b"(a\n)", b'("a)', b"('a)", b"(a,b)", b"((a),(b))", b"(a))", b"()", b"(,)", b"(\\)",
                 b'("\\', b"(\t a , b )", b"(a\r,b)", b"(\xff)", b"(a\x00b)", b"  \t (a)", b"(" + b"(" * 300 + b")" * 300 + b")"):
        for pc in (1, 2):
            add("shape", 1, pc, b"<\x01\x01|\x01\x02>", text)
    for define in (b"\x01", b"\x01\x03", b"\x01\xff", b"x\x01", b"", b"\x01\x01\x01\x01\x01\x02", b"a" * 5000, b"\x01\x01" * 3000):
        add("define", 1, 2, define, b"(aaaa,bb)")
    # fill the arena over several expansions (nothing is released: the texts are not read)
    for size in (10, 31, 100, 500, 1000):
        k = A // (size + 1) + 3
        for d in (-1, 0, 1):
            add("arena-fill", k, 1, b"\x01\x01", (b"(" + b"a" * (size + d) + b")") * k)
    add("arena-count", N + 4, 1, b"\x01\x01", b"(a)" * (N + 4))
    # the last expansion ends exactly at / next to the end of the arena
    for d in range(-4, 5):
        first = A - 60
        add("arena-edge", 3, 1, b"\x01\x01", b"(" + b"a" * 1000 + b")" * 1 + b"(" + b"a" * 1000 + b")" + b"(" + b"a" * 1000 + b")")
        add("arena-edge2", 6, 1, b"\x01\x01", (b"(" + b"a" * 1000 + b")") * 4 + b"(" + b"b" * (A - 4 * 1001 - 1 + d) + b")" + b"(c)")
    for _ in range(ctx.scale(3000, 15000)):
        pc = rng.randrange(1, 4)
        define = b"".join(rng.choice([b"a", b" ", b"\x01\x01", b"\x01\x02", b"\x01\x03", b"\x01\x04", b"\x01"]) for _ in range(rng.randrange(0, 8)))
        text = b"".join(rng.choice([b"(", b")", b",", b"a", b"bc", b" ", b"\t", b'"', b"'", b"\\", b"\n", b"\r", b"1"]) for _ in range(rng.randrange(0, 24)))
        add("soup", rng.randrange(1, 4), pc, define, text)
    return lines, dist


# ---------------------------------------------------------------------------
# whole source files for the real (sanitised) naken_asm
# ---------------------------------------------------------------------------

def cpu_names():
    s = open(os.path.join(nvlib.REPO, "core", "cpu_list.cpp")).read()
    return re.findall(r'^\s*"([^"]+)",\s*$', s, re.M)


def mnemonics():
    per, allmn = {}, set()
    for f in glob.glob(os.path.join(nvlib.REPO, "table", "*.cpp")):
        ms = set(re.findall(r'\{\s*"([a-z][a-z0-9_.]*)"', open(f).read()))
        per[os.path.basename(f)[:-4]] = sorted(ms)
        allmn |= ms
    return per, sorted(allmn)

OPERANDS = ['r1', 'r0', 'r2', 'r15', '#1', '1', '(r1)', '[r1]', '@r1', 'r1+', '-r1', 'a', 'x', 'y', 'z', '$', '0x12345678912', '"s"',
            "'a'", '(', ')', '[', ']', '{', '}', '+', '-', '#', '@', '.b', '.w', 'r99', 'sp', 'pc', '1.5', '-1', '(((', '#(', '@(r1+',
            '[r1,', 'lsl', '#-', '1+', '<<', '>>', '&&', 'a.b', '#0x', 'r1!', '{r1-r2}', 'r1:', '$ffff', '%1', '%', '!', '~', '^', '*',
            '/', '\\', '?', '=', '==', 'v0.4s', 'x31', 'f0', 'acc', '<', '>', '\x80\xff', '0b', '0x', '9999999999999999999999',
            'label', '.', '..', '#.', '(.)', 'd0', 'a0', '(a0)+', '-(a0)', 'd0-d7/a0', '(1,a0,d0.w)', '[r1,#4]!', '{r0,r1}',
            'r1,lsl #2', '#:lo12:x', 'x0', 'w0', '$1', '$t0', '1(r2)', '(ix+5)', '(hl)', 'a,', '@r1+', '&x', '*r1', 'r1.b', '.l',
            'wc', 'wz', '#\\1', '##1', 'ptra++', '[--sp]', 'w0++', '[w1+w2]', 'st0', 'vf1xyz', 'vi1', 'acc.x', '1f', '1b', '%r1',
            '%g0', '[%r1+4]', 'f1', 'cr0', '4(1)', '@dptr', '@a+dptr', '/1', '1.2', 'ab', 'c', 'dptr', '-x', 'x+', 'y+1', 'z+63', 'r1:r0']


def cpu_garbage(ctx, per_cpu):
    """one garbage instruction per source, for every CPU of cpu_list"""
    rng = ctx.rng
    per, allmn = mnemonics()
    out = []
    for cpu in cpu_names():
        fam = per.get(cpu) or per.get(cpu.rstrip('0123456789x')) or allmn
        for _ in range(per_cpu):
            m = rng.choice(fam) if rng.random() < 0.8 else rng.choice(allmn)
            n = rng.choice([0, 1, 1, 2, 2, 2, 3, 3, 4, 5, 6, 8, 12])
            sep = rng.choice([', ', ',', ' ', ', ', ', ', ', '])
            line = '%s %s' % (m, sep.join(rng.choice(OPERANDS) for _ in range(n)))
            pre = rng.choice(['', '', 'label:\n', 'label: ', '.org 0x1001\n'])
            end = rng.choice(['\n', '\n', '\n', '', ' ;c\n', ' \\\n', '\n\n'])
            out.append(('cpu:' + cpu, '.%s\n%s%s%s' % (cpu, pre, line, end)))
    return out

DIRECTIVES = ('align align_bits align_bytes ascii asciiz big_endian binfile bss code data_fill db dc dc16 dc32 dc64 dc8 dd def define '
              'device dl dq dw else end endf endif endr ends entry_point equ export func high_address if ifdef ifndef include list '
              'little_endian long low_address macro msp430_cpu4 org pragma repeat resb resw scope set short varuint varuint32 endm '
              'endmacro 65816 msp430 z80 xyzzy').split()
DIRARGS = ['', '1', '0', '-1', '1000', '0x100', '-0x80', 'x', '"s"', '"', "'a'", "'", '(', ')', '((',
           '1+', '+', '1,', '1,,2', ',', '=', 'x=1', 'x =', '= 1', 'x = 1 +', '1 2', '$', '$+1', '1.5', '1e5', '1/0', '1%0', '1<<64',
           '1<<-1', '"a\\', '"\\', '"\\"', '\\', '\x80', '\xff', '\x00', 'a\x00b', '"\xff\xfe"', '/*', '//', '/', '*/', ';', '#', '.',
           '..', '.db', '.if', '(x)', 'x(1)', 'x(', 'x()', 'X(1,2)', '1 ; c', '1 // c', '1 /* c', '1 /* c */ 2', '0b', '0x', '0q', '1h',
           '1q', '1b', '09', '0b2', '99999999999999999999', '-99999999999999999999', 'x,y,z', '"abc",1,2', '3.', '.5', ':', 'a:',
           '$ffff', '#1', '[1]', '{', '}', '16, 0x55', '3', '7', '4096', '-5', 'dup', '1 dup 2']


def directive_garbage(ctx, n):
    rng = ctx.rng
    out = []
    for _ in range(n):
        d = rng.choice(DIRECTIVES)
        a = rng.choice([' ', ' ', '  ', '\t', '']) + rng.choice([', ', ' ', ',']).join(
            rng.choice(DIRARGS) for _ in range(rng.choice([0, 1, 1, 1, 2, 2, 3, 5])))
        dot = rng.choice(['.', '.', '.', '#', ''])
        pre = rng.choice(['', '', '', '.msp430\n', '.z80\n', '.macro M(a)\n.db a\n.endm\n', '.define D 5\n', '.scope\n', '.func f\n',
                          '.if 1\n', '.repeat 2\n', '.bss\n', 'X:\n', '.set X=1\n'])
        if pre == '.repeat 2\n' and d in ('org', 'resb', 'resw', 'align', 'align_bits', 'align_bytes', 'low_address', 'high_address'):
            # .repeat copies every byte between the location counter at .repeat and at .endr: a block that moves the
            # counter costs time and memory proportional to the distance (finding time-repeat-org, see canaries())
            pre = '.if 1\n'

        post = rng.choice(['\n', '\n', '\n', '', '\n.db 1\n', '\n.endif\n', '\n.endr\n', '\n.endm\n', '\n.ends\n', '\n.endf\n',
                           '\nM(1)\n', '\n.db D\n', '\n.db X\n'])
        out.append(('dir:' + d, pre + dot + d + a + post))
    return out


def hostile_sources(ctx, L):
    """(class, source bytes/str, extra args, extra files) for process-level runs"""
    rng = ctx.rng
    T, M, N = L["tokenLen"], L["maxMacroLen"], L["maxNestedMacros"]
    I, F, X, Q = L["includeDepthMax"], L["maxNestedIfs"], L["maxExpressionDepth"], L["maxIfdefParens"]
    out = []

    def add(cls, src, args=(), files=None):
        out.append((cls, src, list(args), files or {}))

    for d in (-3, -2, -1, 0, 1, 88):
        n = T + d
        add("long-ident", "a" * n + "\n")
        add("long-label", "a" * n + ":\n")
        add("long-number", ".db " + "1" * n + "\n")
        add("long-hex", ".db 0x" + "1" * n + "\n")
        add("long-string", '.db "' + "a" * n + '"\n')
        add("long-dollar", ".65xx\n.db $" + "a" * n + "\n")
        add("long-dots", ".68000\n" + "a." * (n // 2) + "\n")
        add("long-equ", "x equ " + "1" * n + "\n.db x\n")
        add("long-set", ".set " + "a" * n + "=1\n")
        add("long-include-name", '.include "' + "a" * n + '"\n')
        add("long-binfile-name", '.binfile "' + "a" * n + '"\n')
    for d in (-4, -3, -2, -1, 0, 1, 2000):
        n = M + d
        add("macro-body", ".define A " + "1" * n + "\n.db A\n")
        add("macro-body", ".macro A\n.db " + "1" * n + "\n.endm\nA\n")
        add("macro-body-param", ".macro A(x)\n.db 1" + " " * n + "x\n.endm\nA(5)\n")
        add("macro-eof", ".macro A\n.db " + "1" * n)
        add("macro-args", ".macro A(x)\n.db x\n.endm\nA(" + "1" * n + ")\n")
        add("macro-args-str", '.macro A(x)\n.db x\n.endm\nA("' + "\\" * n + ")\n")
        add("macro-nargs", ".macro A(x)\n.db x\n.endm\nA(" + "1," * (n // 4) + "1)\n")
    for k in (254, 255, 256, 257):
        ps = ",".join("p%d" % i for i in range(k))
        add("macro-nparams", ".macro A(" + ps + ")\n.db p1\n.endm\nA(" + ",".join("1" for _ in range(k)) + ")\n")
    for d in (N - 1, N, N + 1, N + 2, 300):
        s = "".join(".define A%d A%d\n" % (i + 1, i) for i in range(d))
        add("nested-define", ".define A0 7\n" + s + ".db A%d\n" % d)
        s = "".join(".macro M%d(x)\nM%d(x)\n.endm\n" % (i + 1, i) for i in range(d))
        add("nested-macro", ".macro M0(x)\n.db x\n.endm\n" + s + "M%d(7)\n" % d)
    add("self-define", ".define A A\n.db A\n")
    add("self-macro", ".macro M(x)\nM(x)\n.endm\nM(1)\n")
    add("self-macro-grow", ".macro M(x)\nM(x x x x x x x x)\n.endm\nM(1)\n")
    add("equ-cycle", "A equ B\nB equ A\n.db A\n")
    add("equ-self", "A equ A\n.db A\n")
    add("empty-define-chain", ".define A\n" + "A " * 200000 + "\n")
    add("billion-laughs", ".define A0 1\n" + "".join(".define A%d A%d A%d\n" % (i + 1, i, i) for i in range(40)) + ".db A40\n")
    for d in (I - 1, I, I + 1, I + 8):
        files = {"i%d.inc" % i: '.include "i%d.inc"\n.db %d\n' % (i + 1, i & 255) for i in range(d)}
        files["i%d.inc" % d] = ".db 99\n"
        add("include-depth", '.include "i0.inc"\n', files=files)
    add("self-include", '.include "t.asm"\n')
    add("mutual-include", '.include "m1.inc"\n', files={"m1.inc": '.include "m2.inc"\n', "m2.inc": '.include "m1.inc"\n'})
    add("include-missing", '.include "nonexistent"\n')
    add("include-noarg", ".include\n")
    add("include-dir", '.include "."\n')
    add("binfile-dir", '.binfile "."\n')
    add("option-I-long", '.include "zz"\n', args=["-I", "a" * 5000])
    add("option-I-many", '.include "zz"\n', args=sum([["-I", "a" * 100] for _ in range(100)], []))
    for d in (F - 1, F, F + 1, 5000, 200000):
        add("nested-if", ".if 1\n" * d + ".db 1\n" + ".endif\n" * d)
        add("nested-ifdef", ".define X 1\n" + ".ifdef X\n" * d + ".db 1\n" + ".endif\n" * d)
        add("nested-if0", ".if 0\n" * d + ".endif\n" * d)
    # conditionals nested through EVERY entry path of the recursion: the taken branch (above), the `.else` part of a
    # false .if / .ifdef / .ifndef (the second call site of assemble_branch()), mixtures, and the same from inside an
    # include file and a .repeat block
    for d in (F - 1, F, F + 1, 5000, 50000):
        add("nested-else", ".if 0\n.else\n" * d + ".db 1\n" + ".endif\n" * d)
        add("nested-ifdef-else", ".ifdef NOT_DEFINED_ANYWHERE\n.else\n" * d + ".db 1\n" + ".endif\n" * d)
        add("nested-ifndef-else", ".define X 1\n" + ".ifndef X\n.else\n" * d + ".db 1\n" + ".endif\n" * d)
        mix = [".if 1\n", ".if 0\n.else\n", ".ifndef NOT_DEFINED_ANYWHERE\n", ".ifdef NOT_DEFINED_ANYWHERE\n.db 3\n.else\n"]
        add("nested-mixed", "".join(mix[i % 4] for i in range(d)) + ".db 1\n" + ".endif\n" * d)
        add("nested-else-skipped-inside", ".if 0\n.if 1\n.else\n.endif\n.else\n" * d + ".db 1\n" + ".endif\n" * d)
        add("nested-else-in-include", '.include "deep.inc"\n.db 2\n',
            files={"deep.inc": ".if 0\n.else\n" * d + ".db 1\n" + ".endif\n" * d})
        add("nested-else-in-repeat", ".repeat 2\n" + ".if 0\n.else\n" * d + ".db 1\n" + ".endif\n" * d + ".endr\n")
        add("nested-else-unclosed", ".if 0\n.else\n" * d + ".db 1\n")
    for d in (X - 2, X - 1, X, X + 1, 200000):
        add("deep-parens", ".db " + "(" * d + "1" + ")" * d + "\n")
        add("deep-unary", ".db " + "-" * d + "1\n")
        add("deep-tilde", ".dc32 " + "~" * d + "1\n")
    for d in (Q - 1, Q, Q + 1, 200000):
        add("deep-if-parens", ".if " + "(" * d + "1" + ")" * d + "\n.db 1\n.endif\n")
        add("deep-if-not", ".if " + "!" * d + "1\n.db 1\n.endif\n")
    # data at extreme addresses that does not wrap around 2^32 (an image that wraps spans the whole
    # address space: that cost is the wide-span finding, see canaries() in props/C16.py)
    for a, room in (("0xffffffff", 1), ("0xfffffffe", 2), ("0xfffffff0", 16), ("0xffff0000", 65536), ("0xfffeffff", 65537),
                    ("0x7fffffff", 1 << 30), ("0x80000000", 1 << 30), ("0x100000000", 1), ("0xffffffffffffffff", 1), ("-1", 1)):
        for dd, need in ((".db 1", 1), (".dc16 1", 2), (".dc32 1", 4), (".resb 8\n.db 1", 9), (".align 16\n.db 1", 17),
                         ("mov.w #1, r5", 4), (".ascii \"hello\"", 5)):
            if need <= room:
                add("org-extreme", ".msp430\n.org %s\n%s\n" % (a, dd), args=["-l"] if rng.random() < 0.5 else [])
    for t in ("hex", "bin", "srec", "elf", "wdc", "uf2", "amiga", "macho"):
        add("type-high", ".msp430\n.org 0xfffffff0\n.db 1,2,3,4,5,6,7,8,9,10,11,12,13,14,15,16\n", args=["-type", t])
    for cls, src in (("unterm", '.db "abc'), ("unterm", '.db "abc\n.db 1\n'), ("unterm", ".db 'a"), ("unterm", ".db '"),
                     ("unterm", "/* abc\n.db 1\n"), ("unterm", ".db 1 /* abc"), ("unterm", ".macro M\n.db 1\n"),
                     ("unterm", ".macro M(a,b\n.db 1\n.endm\n"), ("unterm", ".macro M(a,b)\n.db a\n.endm\nM(1,2"),
                     ("unterm", '.macro M(a,b)\n.db a\n.endm\nM(1,"2'), ("unterm", ".if 1\n.db 1\n"), ("unterm", ".ifdef X\n.db 1\n"),
                     ("unterm", ".if 0\n.db 1\n"), ("unterm", ".repeat 3\n.db 1\n"), ("unterm", ".scope\n.db 1\n"),
                     ("unterm", ".func f\n.db 1\n"), ("unterm", ".define A 1 \\"), ("unterm", ".define A 1 \\\n"),
                     ("unterm", ".68000\nnop (1"), ("unterm", ".z80\nld a,(1")):
        add(cls, src)
    hi = bytes(range(128, 256))
    for cls, src in (("bytes", b".db 1\x00\n.db 2\n"), ("bytes", b'.db "a\x00b"\n'), ("bytes", b"ab\x00cd:\n"),
                     ("bytes", b".macro M\n.db 1\x00\n.endm\nM\n"), ("bytes", b".define A 1\x002\n.db A\n"),
                     ("bytes", b".macro M(a)\n.db a\n.endm\nM(1\x002)\n"), ("bytes", hi + b"\n"), ("bytes", b'.db "' + hi + b'"\n'),
                     ("bytes", b'.macro M\n.db "' + hi + b'"\n.endm\nM\n'), ("bytes", b".define A " + hi + b"\n.db A\n"),
                     ("bytes", b".macro M(a)\n.db a\n.endm\nM(" + hi + b")\n"), ("bytes", b"\xe9t\xe9:\n.db 1\n"),
                     ("bytes", bytes(range(1, 32)) + b"\n"), ("bytes", b".macro M(a)\n.db \x01\x05\n.endm\nM(1)\n"),
                     ("bytes", b".macro M(a)\n.db \x01\n.endm\nM(1)\n"), ("bytes", b".define A \x01\x01\n.db A\n"),
                     ("bytes", b".db 1\r.db 2\r"), ("bytes", b".db 1\xff\n.db 2\n"), ("bytes", b"\xff")):
        add(cls, src)
    add("long-line", ".db " + ",".join(["1"] * 200000) + "\n")
    add("long-line", " " * 1000000 + ".db 1\n")
    add("long-line", "; " + "x" * 1000000 + "\n.db 1\n")
    add("long-line", "/* " + "x" * 1000000 + " */\n.db 1\n")
    add("long-line", ".dc32 " + "+".join(["1"] * 100000) + "\n")
    add("many-lines", ".db 1\n" * 100000)
    add("many-macros", "".join(".macro M%d\n.db %d\n.endm\n" % (i, i & 255) for i in range(2000)))
    for _ in range(ctx.scale(12, 120)):
        add("random-bytes", bytes(rng.randrange(256) for _ in range(rng.choice([10, 1000, 50000]))))
        add("random-text", "".join(rng.choice('abc .,:;()"\'#$%01\n\n\n\t+-*/<>=!&|\\[]{}') for _ in range(rng.choice([10, 1000, 50000]))))
    return out


# ---------------------------------------------------------------------------
# nesting of assemble(): event sequences for the `nest` correspondence (model Reader/Nest.lean <-> NV_TRACE depth)
# ---------------------------------------------------------------------------
# letters: T t U taken conditional (.if 1 / .ifndef NN / .ifdef DX); E e f false conditional entered through .else
# (.if 0 / .ifdef NN / .ifndef DX); S false conditional without .else (contains a conditional of its own); C .endif;
# c .else + skipped rest + .endif (only closes a TAKEN conditional); I i include file; R r .repeat 1 / .endr; O .db;
# M m: the statements between them become the body of a macro that is invoked at this point (rendering only).

NEST_OPEN = {"T": [".if 1"], "t": [".ifndef NN"], "U": [".ifdef DX"], "E": [".if 0", ".else"], "e": [".ifdef NN", ".db 9", ".else"],
             "f": [".ifndef DX", ".else"]}


def render_nest(events):
    """-> (source text, {file name: text})"""
    files, stack, names, kinds = {}, [[".msp430", ".define DX 1"]], [], []
    nfile = nmac = 0
    for ch in events:
        cur = stack[-1]
        if ch in NEST_OPEN: cur += NEST_OPEN[ch]
        elif ch == "S": cur += [".if 0", ".db 9", ".if 1", ".else", ".endif", ".endif"]
        elif ch == "C": cur.append(".endif")
        elif ch == "c": cur += [".else", ".db 7", ".ifdef NN", ".endif", ".endif"]
        elif ch == "O": cur.append(".db 1")
        elif ch == "R": cur.append(".repeat 1")
        elif ch == "r": cur.append(".endr")
        elif ch == "I":
            names.append("n%d.inc" % nfile); nfile += 1; kinds.append("I")
            cur.append('.include "%s"' % names[-1]); stack.append([])
        elif ch == "M":
            names.append("NM%d" % nmac); nmac += 1; kinds.append("M")
            stack.append([])
        elif ch in "im" and kinds:
            body, name, k = stack.pop(), names.pop(), kinds.pop()
            if k == "I":
                files[name] = "\n".join(body) + "\n"
            else:
                stack[-1] += [".macro " + name] + body + [".endm", name]
    while kinds:        # a sequence that stops at an error may leave files open
        body, name, k = stack.pop(), names.pop(), kinds.pop()
        if k == "I":
            files[name] = "\n".join(body) + "\n"
        else:
            stack[-1] += [".macro " + name] + body + [".endm", name]
    return "\n".join(stack[0]) + "\n", files


def nest_sequences(ctx, L):
    """[(class, events)]: every entry path at MAX-1, MAX, MAX+1, through include / .repeat / macro, and seeded walks"""
    rng = ctx.rng
    F, I = L["maxNestedIfs"], L["includeDepthMax"]
    out = []
    for d in (1, 2, F - 1, F, F + 1, F + 40):
        for k in "TtUEef":
            out.append(("pure-" + k, k * d + "O" + "C" * d))
        out.append(("mixed", "".join("TEtefU"[i % 6] for i in range(d)) + "O" + "C" * d))
        out.append(("mixed2", "".join("ETfS"[i % 4] for i in range(d + d // 3)) + "O" + "C" * d))
        out.append(("taken-closed-by-else", "T" * d + "O" + "c" * d))
        out.append(("else-then-taken", "E" * (d // 2) + "T" * (d - d // 2) + "O" + "C" * d))
        out.append(("skipped-at-depth", "E" * (d - 1) + "S" + "O" + "C" * (d - 1)))
        out.append(("sibling-after-close", "E" * (d - 1) + "ECOEC" + "O" + "C" * (d - 1)))
        a = d // 2
        out.append(("include", "E" * a + "I" + "e" * (d - a) + "O" + "C" * (d - a) + "i" + "C" * a))
        out.append(("include-taken", "T" * a + "I" + "T" * (d - a) + "O" + "C" * (d - a) + "i" + "C" * a))
        out.append(("repeat", "R" + "E" * d + "O" + "C" * d + "r"))
        out.append(("repeat-inside", "f" * a + "R" + "E" * (d - a) + "O" + "C" * (d - a) + "r" + "C" * a))
        m = min(30, d)
        out.append(("macro", "E" * (d - m) + "M" + "E" * m + "O" + "C" * m + "m" + "C" * (d - m)))
        out.append(("macro-taken", "t" * (d - m) + "M" + "T" * m + "O" + "C" * m + "m" + "C" * (d - m)))
    for d in (I - 1, I, I + 1):
        out.append(("include-depth", "I" * d + "O" + "i" * d))
        out.append(("include-depth-if", "EI" * d + "O" + "iC" * d))
    out.append(("repeat-in-repeat", "RORr"))
    out.append(("repeat-in-include-in-repeat", "RIROri" + "r"))
    for _ in range(ctx.scale(40, 400)):
        n = rng.choice([10, 40, 150, 320])
        ev, open_ = [], []          # open_: stack of closers
        rep = False
        bias = rng.choice([0.55, 0.7, 0.9])
        for _ in range(n):
            r = rng.random()
            if r < bias * 0.8:
                k = rng.choice("TtUEefEEE")
                ev.append(k); open_.append("Cc" if k in "TtU" else "C")
            elif r < bias * 0.85 and sum(1 for o in open_ if o == "i") < I - 1:
                ev.append("I"); open_.append("i")
            elif r < bias * 0.88 and not rep:
                ev.append("R"); open_.append("r"); rep = True
            elif r < bias:
                ev.append(rng.choice("SO"))
            elif open_:
                c = open_.pop()
                if c == "r": rep = False
                ev.append(rng.choice(c))
            else:
                ev.append("O")
        while open_:
            ev.append(rng.choice(open_.pop()))
        out.append(("walk", "".join(ev)))
    return out
