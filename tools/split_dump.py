#!/usr/bin/env python3
"""split_dump.py <agent nv_dump_more.h> <name>: store the agent's translator section as harness/nv_dump_<name>.h
(its dump_more() renamed dump_more_<name>()) and register it in harness/nv_dump_more.h"""
import re, sys
src, name = sys.argv[1], sys.argv[2]
s = open(src).read()
s = s.replace("NV_DUMP_MORE_H", "NV_DUMP_%s_H" % name.upper())
s = re.sub(r"static void dump_more\(\)", "static void dump_more_%s()" % name, s)
open("/verif/harness/nv_dump_%s.h" % name, "w").write(s)
p = "/verif/harness/nv_dump_more.h"
m = open(p).read()
inc = '#include "nv_dump_%s.h"\n' % name
if inc not in m:
    m = m.replace("static void dump_more()\n{\n", inc + "static void dump_more()\n{\n  dump_more_%s();\n" % name)
    open(p, "w").write(m)
print(open(p).read())
