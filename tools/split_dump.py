#!/usr/bin/env python3
"""split_dump.py <agent nv_dump_more.h> <name>: store the agent's translator section as its own translation unit
harness/nv_dump_<name>.cpp (its dump_more() renamed dump_more_<name>(), non-static) and register it in harness/nv_dump_more.h"""
import re, sys
src, name = sys.argv[1], sys.argv[2]
s = open(src).read()
s = re.sub(r"#ifndef NV_DUMP_MORE_H\n#define NV_DUMP_MORE_H\n", "", s)
s = re.sub(r"\n#endif\s*$", "\n", s)
s = re.sub(r"static void dump_more\(\)", "void dump_more_%s()" % name, s)
s = '// Translator section "%s" (own translation unit).\n#include <stdio.h>\n#include <stdlib.h>\n#include <string.h>\n#include <stdint.h>\n' % name + s
open("/verif/harness/nv_dump_%s.cpp" % name, "w").write(s)
p = "/verif/harness/nv_dump_more.h"
m = open(p).read()
if "dump_more_%s();" % name not in m:
    m = m.replace("static void dump_more()\n{\n", "void dump_more_%s();\nstatic void dump_more()\n{\n  dump_more_%s();\n" % (name, name))
    open(p, "w").write(m)
print(open(p).read())
