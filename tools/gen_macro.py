"""Generators for the reader/macro property C09.

Two families:

* `mexp_cases(rng, n)`: sources for the reader-exposing command `mexp` (model vs real
  tokens_get / macros_parse / macros_expand_params).  Grammar directed: definitions
  (.define/#define with and without parameters, .macro/.endm, .equ/.def, NAME equ VALUE),
  statements that use them (nested, arguments that are numbers in every notation,
  registers, quoted strings with commas/parentheses/escapes, ticks, parenthesised
  expressions, other macro calls), labels before and after, comments of the three kinds,
  tabs, CRLF, bytes >= 0x80, missing final newline; plus malformed variants (wrong argument
  count, unterminated argument list, recursion, redefinition) and boundary classes
  (argument length near 1021, expansion near 4096 characters, nesting near 128, macro text
  near 1022, token length near 510, parameter counts 47/59/255, name length 126/127).
  Statement words are never directives, so everything reaches the recording back end.

* `Wrapped`: a program built from data statements (their bytes are known without running
  the assembler) together with its hand expansion -- used by the `prog` oracle in
  tools/props/C09.py.  The hand expansion is produced by `subst_words`, the textual
  substitution written from the property statement (whole words equal to a parameter name are
  replaced by the argument text), not from Macros.cpp.
"""
import re

WORD = re.compile(rb"[A-Za-z0-9_]+")

PARAM_NAMES = ["a", "b", "h", "q", "x", "cnt", "reg", "val", "b1", "x10", "_p", "A1", "p_2", "dst", "src"]
MACRO_NAMES = ["M%d" % i for i in range(8)] + ["put", "emit2", "LOADI", "wrap_", "_m"]
DEFINE_NAMES = ["D%d" % i for i in range(6)] + ["VALUE_A", "SIZE", "flag_", "_K", "BASE"]
STMT_WORDS = ["mov", "add", "ld", "st", "op", "nop", "jmp", "xyz", "push", "w1"]
NUMBERS = ["0", "1", "7", "42", "255", "0x1F", "0xffff", "017", "1b", "101b", "10h", "0FFh", "17q", "0b101",
           "1_000", "1.5", "2.", "'a'", "'\\n'", "'\\0'", "$", "65535", "0x7fffffffffffffff", "4294967296"]
REGS = ["r0", "r5", "r15", "sp", "a0", "x1", "@r4+", "#5", "#lab", "&0x200", "2(r5)", "[r1]", "(r2)+"]
STRINGS = ['"ab"', '"a,b"', '"(x"', '"y)"', '"a;b"', '"q\\"r"', '"\\\\"', '"t\\tu"', '"é"', '"\xff"', '""', '" s p "',
           '"a//b"', '"/*"', "','", "'('", '"it\'s"']


def ident(rng, pool):
    return rng.choice(pool)


def gen_arg(rng, env, depth=0):
    """argument text of a macro call"""
    k = rng.randrange(12)
    if k < 3:
        return rng.choice(NUMBERS)
    if k < 5:
        return rng.choice(REGS)
    if k < 7:
        return rng.choice(STRINGS)
    if k == 7:
        return "(%s %s %s)" % (rng.choice(NUMBERS), rng.choice(["+", "-", "*", "<<", "|", "&&", ">="]), rng.choice(NUMBERS))
    if k == 8 and env["defines"]:
        return rng.choice(env["defines"])
    if k == 9 and env["macros"] and depth < 2:
        return gen_call(rng, env, depth + 1)
    if k == 10:
        return rng.choice(["", " ", "a b", "1 + 2", "x:y", "#", "lab", "lab:"])
    return "%s%s%s" % (rng.choice(NUMBERS), rng.choice(["+", " - ", "*", "/", " % "]), rng.choice(NUMBERS))


def gen_call(rng, env, depth=0, bad=False):
    name, np = rng.choice(env["macros"])
    if np == 0:
        return name
    n = np
    if bad:
        n = max(0, np + rng.choice([-1, 1]))
    args = [gen_arg(rng, env, depth) for _ in range(n)]
    sep = rng.choice([",", ", ", " , ", ",\t"])
    lp = rng.choice(["(", " (", "( ", "\t("])
    return name + lp + sep.join(args) + rng.choice([")", " )"])


def use_of_param(rng, p):
    """a spot in a body that mentions parameter p in some lexical context"""
    return rng.choice([p, "#" + p, p + "+1", "(" + p + ")", p + "," + p, "_" + p, p + "_", "1" + p, p + "1",
                       '"' + p + '"', "'" + p + "'", p + ".w", "-" + p, p + ":", "@" + p, p + " ; " + p,
                       p + " // " + p, "/* " + p + " */ " + p, "0x" + p, p.upper()])


def gen_body_line(rng, env, params):
    word = rng.choice(STMT_WORDS)
    n = rng.randrange(0, 4)
    ops = []
    for _ in range(n):
        r = rng.random()
        if params and r < 0.6:
            ops.append(use_of_param(rng, rng.choice(params)))
        elif r < 0.75 and env["defines"]:
            ops.append(rng.choice(env["defines"]))
        elif r < 0.85 and env["macros"]:
            ops.append(gen_call(rng, env, 1))
        else:
            ops.append(gen_arg(rng, env, 2))
    ind = rng.choice(["  ", "\t", "", " "])
    return ind + word + (" " + ", ".join(ops) if ops else "")


def gen_definition(rng, env):
    """returns source text of one definition and registers it in env"""
    k = rng.randrange(10)
    if k < 3:                                   # .define NAME value
        name = ident(rng, DEFINE_NAMES)
        val = rng.choice([gen_arg(rng, env, 2), "", "1 + 2", "(3)", rng.choice(NUMBERS)])
        kw = rng.choice([".define", "#define", ".define\t", "# define"]) if rng.random() < 0.9 else ".define"
        tail = rng.choice(["", " ; c", " // c", " /* c */", "  "])
        if rng.random() < 0.1:
            val = val + " \\\n  + 1"
        env["defines"].append(name)
        return "%s %s %s%s" % (kw, name, val, tail)
    if k < 5:                                   # define with parameters
        name = ident(rng, MACRO_NAMES)
        ps = rng.sample(PARAM_NAMES, rng.randrange(1, 4))
        body = " ".join(rng.choice(["(", ")", "+", ",", "<<"]) if rng.random() < 0.3 else use_of_param(rng, rng.choice(ps))
                        for _ in range(rng.randrange(1, 5)))
        env["macros"].append((name, len(ps)))
        return "%s %s(%s) %s" % (rng.choice([".define", "#define"]), name, rng.choice([",", ", "]).join(ps), body)
    if k < 8:                                   # .macro
        name = ident(rng, MACRO_NAMES)
        ps = rng.sample(PARAM_NAMES, rng.randrange(0, 5))
        head = ".macro " + name
        if ps or rng.random() < 0.2:
            head += rng.choice(["(", " (", " ( "]) + rng.choice([",", ", ", " , "]).join(ps) + ")"
        lines = [gen_body_line(rng, env, ps) for _ in range(rng.randrange(1, 4))]
        if rng.random() < 0.2:
            lines.insert(rng.randrange(len(lines) + 1), rng.choice(["", "  ; only a comment", "lab%d:" % rng.randrange(3), "// c", "/* c */"]))
        endm = rng.choice([".endm", "  .endm", ".ENDM", "\t.endm  ", ".endm ; done"])
        env["macros"].append((name, len(ps)))
        return "\n".join([head] + lines + [endm])
    if k == 8:                                  # NAME equ VALUE
        name = ident(rng, DEFINE_NAMES)
        env["defines"].append(name)
        return "%s equ %s%s" % (name, rng.choice(NUMBERS + ["1+2", "(4)", "r5", '"s"']), rng.choice(["", " ; c", " // c", " /* c */"]))
    name = ident(rng, DEFINE_NAMES)
    env["defines"].append(name)
    return "%s %s = %s" % (rng.choice([".equ", ".def"]), name, rng.choice(NUMBERS + ["r5", '"s"']))


def gen_statement(rng, env, bad=False):
    r = rng.random()
    lab = ""
    if r < 0.15:
        lab = "L%d: " % env["labels"]
        env["labels"] += 1
    if env["macros"] and rng.random() < 0.5:
        body = gen_call(rng, env, 0, bad=bad)
        if rng.random() < 0.4:
            body = rng.choice(STMT_WORDS) + " " + body + rng.choice(["", ", 1", " + 2"])
    else:
        ops = [gen_arg(rng, env, 1) for _ in range(rng.randrange(0, 4))]
        body = rng.choice(STMT_WORDS) + (" " + ", ".join(ops) if ops else "")
    tail = rng.choice(["", "", " ; c", " // c", " /* c */", "\t"])
    after = ""
    if rng.random() < 0.05:
        after = " L%d:" % env["labels"]
        env["labels"] += 1
    return "  " + lab + body + after + tail


def gen_source(rng, malformed=False):
    env = {"defines": [], "macros": [], "labels": 0}
    lines = []
    for _ in range(rng.randrange(1, 5)):
        lines.append(gen_definition(rng, env))
    for _ in range(rng.randrange(1, 5)):
        if rng.random() < 0.15:
            lines.append(gen_definition(rng, env))
        lines.append(gen_statement(rng, env, bad=malformed and rng.random() < 0.5))
    eol = "\r\n" if rng.random() < 0.1 else "\n"
    src = eol.join(lines) + (eol if rng.random() < 0.9 else "")
    if malformed:
        k = rng.randrange(6)
        b = bytearray(src.encode("latin-1"))
        if k == 0 and b:
            del b[rng.randrange(len(b))]
        elif k == 1 and b:
            i = rng.randrange(len(b)); b[i:i] = b[i:i + 1]
        elif k == 2 and b:
            b = b[:rng.randrange(len(b))]
        elif k == 3 and b:
            i = rng.randrange(len(b)); b[i:i] = rng.choice([b"(", b")", b",", b'"', b"'", b"\\", b";", b"/*", b"\xff", b"\n"])
        elif k == 4:
            b += b"\n.define D0 D0\n op D0\n"
        src = bytes(b).decode("latin-1")
    return src


def boundary_sources(rng):
    """deterministic boundary classes (each a (tag, source) pair)"""
    out = []
    # argument length around the 1021 limit of params[1024]
    for n in (1018, 1019, 1020, 1021, 1022):
        arg = ("1+" * (n // 2) + "11")[:n]
        out.append(("arglen%d" % n, ".macro m(p)\n op p\n.endm\n m(%s)\n op 2\n" % arg))
    # expansion length around the 4096-byte arena (5 uses of one argument + padding)
    for total in (4093, 4094, 4095, 4096, 4097):
        L = 816
        pad = total - (5 * L + 13)
        arg = "0+" * 407 + "01"
        body = "op p, p, p, p, p" + " " * max(0, pad + 2)
        out.append(("arena%d" % total, ".macro m(p)\n%s\n.endm\n.macro k(q)\n op q\n.endm\n m(%s)\n k(7)\n k(8)\n" % (body, arg)))
    # nesting depth around MAX_NESTED_MACROS
    for depth in (126, 127, 128, 129, 130):
        defs = "".join(".define N%d N%d\n" % (i, i + 1) for i in range(depth - 1)) + ".define N%d 7\n" % (depth - 1)
        out.append(("nest%d" % depth, defs + " op N0, 1\n op 2\n"))
    for depth in (126, 127, 128, 129):
        defs = "".join(".macro P%d(a)\n P%d(a)\n.endm\n" % (i, i + 1) for i in range(depth - 1)) + ".macro P%d(a)\n op a\n.endm\n" % (depth - 1)
        out.append(("pnest%d" % depth, defs + " P0(3)\n op 2\n"))
    # macro text length around MAX_MACRO_LEN - 2
    for n in (1018, 1019, 1020, 1021, 1022, 1023):
        body = "op " + "1," * ((n - 4) // 2) + "1"
        body = body[:n - 1]
        out.append(("bodylen%d" % n, ".macro big\n%s\n.endm\n big\n op 2\n" % body))
        out.append(("deflen%d" % n, ".define BIG %s\n op 2\n" % body))
    # token length around TOKENLEN - 2
    for n in (507, 508, 509, 510, 511, 512):
        out.append(("toklen%d" % n, " op %s, 1\n" % ("a" * n)))
        out.append(("strlen%d" % n, ' op "%s", 1\n' % ("s" * n)))
    # macro name length around 126/127
    for n in (125, 126, 127, 128):
        nm = "n" * n
        out.append(("namelen%d" % n, ".define %s 5\n op %s\n" % (nm, nm)))
        out.append(("equname%d" % n, "%s equ 5\n op %s\n" % (nm, nm)))
    # parameter counts: index bytes '/' (47) and ';' (59), the uint8_t limit
    for np in (46, 47, 48, 58, 59, 60, 254, 255, 256):
        ps = ["p%d" % i for i in range(np)]
        use = [ps[0], ps[-1]] + ([ps[46]] if np > 46 else []) + ([ps[58]] if np > 58 else [])
        out.append(("params%d" % np, ".macro w(%s)\n op %s\n.endm\n w(%s)\n op 2\n" % (",".join(ps), ", ".join(use), ",".join(str(i % 10) for i in range(np)))))
    # parenthesis depth of an argument around the uint8_t counter
    for d in (254, 255, 256, 257):
        out.append(("parens%d" % d, ".macro m(p)\n op p\n.endm\n m(%s1%s)\n op 2\n" % ("(" * d, ")" * d)))
    # end of file inside / right after things
    for tail in ["", " ", "(", "(1", "(1,", "(1,2", "(1,2)", "(1,2) ", "\n"]:
        out.append(("eof", ".macro m(a,b)\n op a, b\n.endm\n m" + tail))
    for body in [".macro e\n.endm\n e\n op 1\n", ".macro e\n\n.endm\n e\n op 1\n", ".macro e\n  .endm\n e\n op 1\n",
                 ".macro e\n op 1\n.endm", ".macro e\n op 1\n", ".macro e(a\n op a\n.endm\n", ".macro 1e\n.endm\n",
                 ".define\n op 1\n", ".define A\n op A, 1\n", "#define A(b\n", ".define A A\n op A\n",
                 ".define A B\n.define B A\n op A\n", "A equ\n op A,1\n", ".equ\n", ".equ A\n", ".equ A =\n", ".equ A = 1 2\n",
                 "A equ 1 /* x\n y */ + 2\n op A\n", ".define A 1 /* x\n y */ + 2\n op A\n", ".macro c\n op 1 /* x\n y */, 2\n.endm\n c\n",
                 ".macro s\n op \"a;b\", 1\n.endm\n s\n", ".macro s(a)\n op a/a\n op a//a\n op a / /a\n.endm\n s(4)\n",
                 ".define X(a) a\\\n+a\n op X(2)\n", ".define X(a) a\\ \n", ".macro t\n\top\t1\n.endm\n t\n",
                 ".macro m(a)\n op a\n.endm\n m(1)m(2)\n", ".macro m(a)\n op a\n.endm\nm (1)\n m\n(1)\n",
                 ".define P (1\n op P)\n", ".macro m(a)\n op a\n.endm\n.define C m\n C(5)\n", ".define L lab:\n L op 1\n",
                 ".macro m(a)\na: op 1\n.endm\n m(x)\n m(y)\n", "lab: .define lab 1\n", ".define lab 1\nlab: op 1\n",
                 "#define A 1\n#define A 2\n op A\n", ".macro m(a, a)\n op a\n.endm\n m(1,2)\n",
                 ".macro m(endm)\n op endm\n.endm\n m(1)\n", ".macro m(a)\n op a\n.endmacro\n m(1)\n", ".macro m(a)\n op a .endm\n m(1)\n",
                 ".include \"missing.inc\"\n op 1\n", " op 1\n end\n op 2\n", " op \xff1\n op 2\n", ".define A\xff\n op A\n", " op A\xff\n",
                 ".define A 5\n op A\xff\n op 2\n", ".macro m(a)\n op a\n.endm\n m(\"\xff\")\n op 2\n", " op 'ab', 'abc', ''\n", " op \"unterminated\n op 2\n",
                 " op /* unterminated\n op 2\n", " op 1 ;\n", "a:b:c: op a\n", "a: a: op 1\n", " op $, $a, $1\n"]:
        out.append(("form", body))
    return out


def mexp_cases(rng, n):
    """list of (tag, flags, source, includes)"""
    cases = []
    for tag, src in boundary_sources(rng):
        cases.append((tag, "-", src, None))
    for i in range(n):
        malformed = rng.random() < 0.25
        src = gen_source(rng, malformed)
        flags = "".join(f for f in "tdshnp" if rng.random() < 0.15) or "-"
        inc = None
        if rng.random() < 0.1:
            env = {"defines": [], "macros": [], "labels": 100}
            body = "\n".join(gen_definition(rng, env) for _ in range(rng.randrange(1, 3)))
            body += "\n" + gen_statement(rng, env) + ("\n" if rng.random() < 0.8 else "")
            inc = {"inc%d.inc" % (i % 3): body}
            src = ".include \"inc%d.inc\"\n" % (i % 3) + src
            if rng.random() < 0.3:
                src = src + " .include \"inc%d.inc\"\n" % (i % 3)
        cases.append(("malformed" if malformed else "random", flags, src, inc))
    return cases


# ---------------------------------------------------------------------------------------------
# Specification: textual substitution (written from the property statement)
# ---------------------------------------------------------------------------------------------

def subst_words(body, params, args):
    """replace every whole word of `body` (bytes) that equals a parameter name by its argument"""
    table = dict(zip(params, args))

    def rep(m):
        w = m.group(0)
        return table.get(w, w)
    return WORD.sub(rep, body)
