"""Generators for the reader/macro property C09.

Two families:

* `mexp_cases(rng, n)`: sources for the reader-exposing command `mexp` (model vs real
  tokens_get / macros_parse / macros_expand_params).  Grammar directed: definitions
  (.define/#define with and without parameters, .macro/.endm, .equ/.def, NAME equ VALUE),
  statements that use them (nested, arguments that are numbers in every notation,
  registers, quoted strings with commas/parentheses/escapes, ticks, parenthesised
  expressions, other macro calls), labels before and after, comments of the three kinds,
  tabs, CRLF, bytes >= 0x80, missing final newline; plus malformed variants (wrong argument
  count, unterminated argument list, recursion, redefinition) and boundary classes
  (argument length near 1021, expansion near 4096 characters, nesting near 128, macro text
  near 1022, token length near 510, parameter counts 47/59/255, name length 126/127).
  Statement words are never directives, so everything reaches the recording back end.

* `Wrapped`: a program built from data statements (their bytes are known without running
  the assembler) together with its hand expansion -- used by the `prog` oracle in
  tools/props/C09.py.  The hand expansion is produced by `subst_words`, the textual
  substitution written from the property statement (whole words equal to a parameter name are
  replaced by the argument text), not from Macros.cpp.
"""
import re

WORD = re.compile(rb"[A-Za-z0-9_]+")

PARAM_NAMES = ["a", "b", "h", "q", "x", "cnt", "reg", "val", "b1", "x10", "_p", "A1", "p_2", "dst", "src"]
MACRO_NAMES = ["M%d" % i for i in range(8)] + ["put", "emit2", "LOADI", "wrap_", "_m"]
DEFINE_NAMES = ["D%d" % i for i in range(6)] + ["VALUE_A", "SIZE", "flag_", "_K", "BASE"]
STMT_WORDS = ["mov", "add", "ld", "st", "op", "nop", "jmp", "xyz", "push", "w1"]
NUMBERS = ["0", "1", "7", "42", "255", "0x1F", "0xffff", "017", "1b", "101b", "10h", "0FFh", "17q", "0b101",
           "1_000", "1.5", "2.", "'a'", "'\\n'", "'\\0'", "$", "65535", "0x7fffffffffffffff", "4294967296"]
REGS = ["r0", "r5", "r15", "sp", "a0", "x1", "@r4+", "#5", "#lab", "&0x200", "2(r5)", "[r1]", "(r2)+"]
STRINGS = ['"ab"', '"a,b"', '"(x"', '"y)"', '"a;b"', '"q\\"r"', '"\\\\"', '"t\\tu"', '"é"', '"\xff"', '""', '" s p "',
           '"a//b"', '"/*"', "','", "'('", '"it\'s"', "'\"'", "'\"', \"'\""]


def ident(rng, pool):
    return rng.choice(pool)


def gen_arg(rng, env, depth=0):
    """argument text of a macro call"""
    k = rng.randrange(12)
    if k < 3:
        return rng.choice(NUMBERS)
    if k < 5:
        return rng.choice(REGS)
    if k < 7:
        return rng.choice(STRINGS)
    if k == 7:
        return "(%s %s %s)" % (rng.choice(NUMBERS), rng.choice(["+", "-", "*", "<<", "|", "&&", ">="]), rng.choice(NUMBERS))
    if k == 8 and env["defines"]:
        return rng.choice(env["defines"])
    if k == 9 and env["macros"] and depth < 2:
        return gen_call(rng, env, depth + 1)
    if k == 10:
        return rng.choice(["", " ", "a b", "1 + 2", "x:y", "#", "lab", "lab:"])
    return "%s%s%s" % (rng.choice(NUMBERS), rng.choice(["+", " - ", "*", "/", " % "]), rng.choice(NUMBERS))


def gen_call(rng, env, depth=0, bad=False):
    name, np = rng.choice(env["macros"])
    if np == 0:
        return name
    n = np
    if bad:
        n = max(0, np + rng.choice([-1, 1]))
    args = [gen_arg(rng, env, depth) for _ in range(n)]
    sep = rng.choice([",", ", ", " , ", ",\t"])
    lp = rng.choice(["(", " (", "( ", "\t("])
    return name + lp + sep.join(args) + rng.choice([")", " )"])


def use_of_param(rng, p):
    """a spot in a body that mentions parameter p in some lexical context"""
    return rng.choice([p, "#" + p, p + "+1", "(" + p + ")", p + "," + p, "_" + p, p + "_", "1" + p, p + "1",
                       '"' + p + '"', "'" + p + "'", p + ".w", "-" + p, p + ":", "@" + p, p + " ; " + p,
                       p + " // " + p, "/* " + p + " */ " + p, "0x" + p, p.upper()])


def gen_body_line(rng, env, params):
    word = rng.choice(STMT_WORDS)
    n = rng.randrange(0, 4)
    ops = []
    for _ in range(n):
        r = rng.random()
        if params and r < 0.6:
            ops.append(use_of_param(rng, rng.choice(params)))
        elif r < 0.75 and env["defines"]:
            ops.append(rng.choice(env["defines"]))
        elif r < 0.85 and env["macros"]:
            ops.append(gen_call(rng, env, 1))
        else:
            ops.append(gen_arg(rng, env, 2))
    ind = rng.choice(["  ", "\t", "", " "])
    return ind + word + (" " + ", ".join(ops) if ops else "")


def gen_definition(rng, env):
    """returns source text of one definition and registers it in env"""
    k = rng.randrange(10)
    if k < 3:                                   # .define NAME value
        name = ident(rng, DEFINE_NAMES)
        val = rng.choice([gen_arg(rng, env, 2), "", "1 + 2", "(3)", rng.choice(NUMBERS)])
        kw = rng.choice([".define", "#define", ".define\t", "# define"]) if rng.random() < 0.9 else ".define"
        tail = rng.choice(["", " ; c", " // c", " /* c */", "  "])
        if rng.random() < 0.1:
            val = val + " \\\n  + 1"
        env["defines"].append(name)
        return "%s %s %s%s" % (kw, name, val, tail)
    if k < 5:                                   # define with parameters
        name = ident(rng, MACRO_NAMES)
        ps = rng.sample(PARAM_NAMES, rng.randrange(1, 4))
        body = " ".join(rng.choice(["(", ")", "+", ",", "<<"]) if rng.random() < 0.3 else use_of_param(rng, rng.choice(ps))
                        for _ in range(rng.randrange(1, 5)))
        env["macros"].append((name, len(ps)))
        return "%s %s(%s) %s" % (rng.choice([".define", "#define"]), name, rng.choice([",", ", "]).join(ps), body)
    if k < 8:                                   # .macro
        name = ident(rng, MACRO_NAMES)
        ps = rng.sample(PARAM_NAMES, rng.randrange(0, 5))
        head = ".macro " + name
        if ps or rng.random() < 0.2:
            head += rng.choice(["(", " (", " ( "]) + rng.choice([",", ", ", " , "]).join(ps) + ")"
        lines = [gen_body_line(rng, env, ps) for _ in range(rng.randrange(1, 4))]
        if rng.random() < 0.2:
            lines.insert(rng.randrange(len(lines) + 1), rng.choice(["", "  ; only a comment", "lab%d:" % rng.randrange(3), "// c", "/* c */"]))
        endm = rng.choice([".endm", "  .endm", ".ENDM", "\t.endm  ", ".endm ; done"])
        env["macros"].append((name, len(ps)))
        return "\n".join([head] + lines + [endm])
    if k == 8:                                  # NAME equ VALUE
        name = ident(rng, DEFINE_NAMES)
        env["defines"].append(name)
        return "%s equ %s%s" % (name, rng.choice(NUMBERS + ["1+2", "(4)", "r5", '"s"']), rng.choice(["", " ; c", " // c", " /* c */"]))
    name = ident(rng, DEFINE_NAMES)
    env["defines"].append(name)
    return "%s %s = %s" % (rng.choice([".equ", ".def"]), name, rng.choice(NUMBERS + ["r5", '"s"']))


def gen_statement(rng, env, bad=False):
    r = rng.random()
    lab = ""
    if r < 0.15:
        lab = "L%d: " % env["labels"]
        env["labels"] += 1
    if env["macros"] and rng.random() < 0.5:
        body = gen_call(rng, env, 0, bad=bad)
        if rng.random() < 0.4:
            body = rng.choice(STMT_WORDS) + " " + body + rng.choice(["", ", 1", " + 2"])
    else:
        ops = [gen_arg(rng, env, 1) for _ in range(rng.randrange(0, 4))]
        body = rng.choice(STMT_WORDS) + (" " + ", ".join(ops) if ops else "")
    tail = rng.choice(["", "", " ; c", " // c", " /* c */", "\t"])
    after = ""
    if rng.random() < 0.05:
        after = " L%d:" % env["labels"]
        env["labels"] += 1
    return "  " + lab + body + after + tail


def gen_source(rng, malformed=False):
    env = {"defines": [], "macros": [], "labels": 0}
    lines = []
    for _ in range(rng.randrange(1, 5)):
        lines.append(gen_definition(rng, env))
    for _ in range(rng.randrange(1, 5)):
        if rng.random() < 0.15:
            lines.append(gen_definition(rng, env))
        lines.append(gen_statement(rng, env, bad=malformed and rng.random() < 0.5))
    eol = "\r\n" if rng.random() < 0.1 else "\n"
    src = eol.join(lines) + (eol if rng.random() < 0.9 else "")
    if malformed:
        k = rng.randrange(6)
        b = bytearray(src.encode("latin-1"))
        if k == 0 and b:
            del b[rng.randrange(len(b))]
        elif k == 1 and b:
            i = rng.randrange(len(b)); b[i:i] = b[i:i + 1]
        elif k == 2 and b:
            b = b[:rng.randrange(len(b))]
        elif k == 3 and b:
            i = rng.randrange(len(b)); b[i:i] = rng.choice([b"(", b")", b",", b'"', b"'", b"\\", b";", b"/*", b"\xff", b"\n"])
        elif k == 4:
            b += b"\n.define D0 D0\n op D0\n"
        src = bytes(b).decode("latin-1")
    return src


def boundary_sources(rng):
    """deterministic boundary classes (each a (tag, source) pair)"""
    out = []
    # argument length around the 1021 limit of params[1024]
    for n in (1018, 1019, 1020, 1021, 1022):
        arg = ("1+" * (n // 2) + "11")[:n]
        out.append(("arglen%d" % n, ".macro m(p)\n op p\n.endm\n m(%s)\n op 2\n" % arg))
    # expansion length around the 4096-byte arena (5 uses of one argument + padding)
    for total in (4093, 4094, 4095, 4096, 4097):
        L = 816
        pad = total - (5 * L + 13)
        arg = "0+" * 407 + "01"
        body = "op p, p, p, p, p" + " " * max(0, pad + 2)
        out.append(("arena%d" % total, ".macro m(p)\n%s\n.endm\n.macro k(q)\n op q\n.endm\n m(%s)\n k(7)\n k(8)\n" % (body, arg)))
    # nesting depth around MAX_NESTED_MACROS
    for depth in (126, 127, 128, 129, 130):
        defs = "".join(".define N%d N%d\n" % (i, i + 1) for i in range(depth - 1)) + ".define N%d 7\n" % (depth - 1)
        out.append(("nest%d" % depth, defs + " op N0, 1\n op 2\n"))
    for depth in (126, 127, 128, 129):
        defs = "".join(".macro P%d(a)\n P%d(a)\n.endm\n" % (i, i + 1) for i in range(depth - 1)) + ".macro P%d(a)\n op a\n.endm\n" % (depth - 1)
        out.append(("pnest%d" % depth, defs + " P0(3)\n op 2\n"))
    # macro text length around MAX_MACRO_LEN - 2
    for n in (1018, 1019, 1020, 1021, 1022, 1023):
        body = "op " + "1," * ((n - 4) // 2) + "1"
        body = body[:n - 1]
        out.append(("bodylen%d" % n, ".macro big\n%s\n.endm\n big\n op 2\n" % body))
        out.append(("deflen%d" % n, ".define BIG %s\n op 2\n" % body))
    # token length around TOKENLEN - 2
    for n in (507, 508, 509, 510, 511, 512):
        out.append(("toklen%d" % n, " op %s, 1\n" % ("a" * n)))
        out.append(("strlen%d" % n, ' op "%s", 1\n' % ("s" * n)))
    # macro name length around 126/127
    for n in (125, 126, 127, 128):
        nm = "n" * n
        out.append(("namelen%d" % n, ".define %s 5\n op %s\n" % (nm, nm)))
        out.append(("equname%d" % n, "%s equ 5\n op %s\n" % (nm, nm)))
    # parameter counts: index bytes '/' (47) and ';' (59), the uint8_t limit
    for np in (46, 47, 48, 58, 59, 60, 254, 255, 256):
        ps = ["p%d" % i for i in range(np)]
        use = [ps[0], ps[-1]] + ([ps[46]] if np > 46 else []) + ([ps[58]] if np > 58 else [])
        out.append(("params%d" % np, ".macro w(%s)\n op %s\n.endm\n w(%s)\n op 2\n" % (",".join(ps), ", ".join(use), ",".join(str(i % 10) for i in range(np)))))
    # parenthesis depth of an argument around the uint8_t counter
    for d in (254, 255, 256, 257):
        out.append(("parens%d" % d, ".macro m(p)\n op p\n.endm\n m(%s1%s)\n op 2\n" % ("(" * d, ")" * d)))
    # end of file inside / right after things
    for tail in ["", " ", "(", "(1", "(1,", "(1,2", "(1,2)", "(1,2) ", "\n"]:
        out.append(("eof", ".macro m(a,b)\n op a, b\n.endm\n m" + tail))
    for body in [".macro e\n.endm\n e\n op 1\n", ".macro e\n\n.endm\n e\n op 1\n", ".macro e\n  .endm\n e\n op 1\n",
                 ".macro e\n op 1\n.endm", ".macro e\n op 1\n", ".macro e(a\n op a\n.endm\n", ".macro 1e\n.endm\n",
                 ".define\n op 1\n", ".define A\n op A, 1\n", "#define A(b\n", ".define A A\n op A\n",
                 ".define A B\n.define B A\n op A\n", "A equ\n op A,1\n", ".equ\n", ".equ A\n", ".equ A =\n", ".equ A = 1 2\n",
                 "A equ 1 /* x\n y */ + 2\n op A\n", ".define A 1 /* x\n y */ + 2\n op A\n", ".macro c\n op 1 /* x\n y */, 2\n.endm\n c\n",
                 ".macro s\n op \"a;b\", 1\n.endm\n s\n", ".macro s(a)\n op a/a\n op a//a\n op a / /a\n.endm\n s(4)\n",
                 ".define X(a) a\\\n+a\n op X(2)\n", ".define X(a) a\\ \n", ".macro t\n\top\t1\n.endm\n t\n",
                 ".macro m(a)\n op a\n.endm\n m(1)m(2)\n", ".macro m(a)\n op a\n.endm\nm (1)\n m\n(1)\n",
                 ".define P (1\n op P)\n", ".macro m(a)\n op a\n.endm\n.define C m\n C(5)\n", ".define L lab:\n L op 1\n",
                 ".macro m(a)\na: op 1\n.endm\n m(x)\n m(y)\n", "lab: .define lab 1\n", ".define lab 1\nlab: op 1\n",
                 "#define A 1\n#define A 2\n op A\n", ".macro m(a, a)\n op a\n.endm\n m(1,2)\n",
                 ".macro m(endm)\n op endm\n.endm\n m(1)\n", ".macro m(a)\n op a\n.endmacro\n m(1)\n", ".macro m(a)\n op a .endm\n m(1)\n",
                 ".include \"missing.inc\"\n op 1\n", " op 1\n end\n op 2\n", " op \xff1\n op 2\n", ".define A\xff\n op A\n", " op A\xff\n",
                 ".define A 5\n op A\xff\n op 2\n", ".macro m(a)\n op a\n.endm\n m(\"\xff\")\n op 2\n", " op 'ab', 'abc', ''\n", " op \"unterminated\n op 2\n",
                 " op /* unterminated\n op 2\n", " op 1 ;\n", "a:b:c: op a\n", "a: a: op 1\n", " op $, $a, $1\n"]:
        out.append(("form", body))
    return out


def mexp_cases(rng, n):
    """list of (tag, flags, source, includes)"""
    cases = []
    for tag, src in boundary_sources(rng):
        cases.append((tag, "-", src, None))
    for i in range(n):
        malformed = rng.random() < 0.25
        src = gen_source(rng, malformed)
        flags = "".join(f for f in "tdshnp" if rng.random() < 0.15) or "-"
        inc = None
        if rng.random() < 0.1:
            env = {"defines": [], "macros": [], "labels": 100}
            body = "\n".join(gen_definition(rng, env) for _ in range(rng.randrange(1, 3)))
            body += "\n" + gen_statement(rng, env) + ("\n" if rng.random() < 0.8 else "")
            inc = {"inc%d.inc" % (i % 3): body}
            src = ".include \"inc%d.inc\"\n" % (i % 3) + src
            if rng.random() < 0.3:
                src = src + " .include \"inc%d.inc\"\n" % (i % 3)
        cases.append(("malformed" if malformed else "random", flags, src, inc))
    return cases


# ---------------------------------------------------------------------------------------------
# Specification: textual substitution (written from the property statement)
# ---------------------------------------------------------------------------------------------

def subst_words(body, params, args):
    """replace every whole word of `body` (bytes) that equals a parameter name by its argument"""
    table = dict(zip(params, args))

    def rep(m):
        w = m.group(0)
        return table.get(w, w)
    return WORD.sub(rep, body)


# ---------------------------------------------------------------------------------------------
# Wrapped programs and their hand expansion (the `prog` oracle)
# ---------------------------------------------------------------------------------------------

PIECE = re.compile(r"""'(?:[^'\\]|\\.)'|"(?:[^"\\]|\\.)*"|[A-Za-z_][A-Za-z0-9_]*|[0-9][A-Za-z0-9_]*""")
# data statements with literals that are hard for an argument collector (quotes inside ticks, commas and
# parentheses inside quotes); no ';' or tab inside literals: those are known findings of their own
EXTRA_DATA = ["  .db '\"', 1", "  .db \"a,b)\", ',', '('", "  .ascii \"it's\"", "  .db ')', \"(\", 2", "  .db \"q\\\"r\", 3",
              "  .db '\\'', 4"]
# no atom sequence may spell a name of Namer (prefixes Z / z / _): the hand expansion substitutes words textually
STRING_ATOMS = ["a", "b", "xy", "k9", " ", " ", "  ", "   ", "    ", ",", ", ", "(", ")", " )", "( ", "'", "=", "-", "+ ", ".", ":", "#"]


def extra_data(rng):
    """a data statement whose literal is hard for an argument collector: one of EXTRA_DATA or a string built from
    STRING_ATOMS (runs of blanks at the start, the end and inside, next to commas / parentheses / apostrophes;
    no ';', tab or backslash: those are known findings of their own).  Every blank of a string literal is a byte
    of the image, whether the literal stands in the text or arrives through a parameter (seeded C09-m3)."""
    if rng.random() < 0.5:
        return rng.choice(EXTRA_DATA)
    s = "".join(rng.choice(STRING_ATOMS) for _ in range(rng.choice([1, 2, 3, 5, 8])))
    form = rng.choice(['  .db "%s", 1', '  .ascii "%s"', '  .db 2, "%s"', '  .asciiz "%s"'])
    return form % s


TRICKY_PARAMS = ["b", "h", "q", "x", "d", "w", "l", "e", "b1", "_p", "p_", "a"]


def split_stmt(line):
    """(head, operands): head = indentation + first word (mnemonic / directive), operands = rest"""
    m = re.match(r"(\s*\S+)(.*)$", line, re.S)
    return (m.group(1), m.group(2)) if m else (line, "")


def words_of(text):
    return set(m.group(0) for m in re.finditer(r"[A-Za-z0-9_]+", text))


def sub_words_str(text, params, args):
    return subst_words(text.encode("latin-1"), [p.encode("latin-1") for p in params],
                       [a.encode("latin-1") for a in args]).decode("latin-1")


class Namer:
    def __init__(self):
        self.n = 0

    def fresh(self, prefix):
        self.n += 1
        return "%s%d" % (prefix, self.n)


def balanced(text):
    """parentheses and quotes balanced, no comma outside them (can be passed as one macro argument)"""
    parts = split_top(text)
    if len(parts) != 1:
        return False
    depth, q, i = 0, None, 0
    while i < len(text):
        c = text[i]
        if q:
            if c == "\\":
                i += 1
            elif c == q:
                q = None
        elif c in "\"'":
            q = c
        elif c == "(":
            depth += 1
        elif c == ")":
            depth -= 1
            if depth < 0:
                return False
        i += 1
    return depth == 0 and q is None


def pick_piece(rng, line, token=False, backslash_ok=False):
    """a piece of the operand field of `line`: (start, end, text) relative to the line, or None.
    token=True: the piece must be a token of the lexer by itself (a define name is looked up per
    token, so `$name`, `name:`, `a.name` and `name'` do not use the define)."""
    head, ops = split_stmt(line)
    if line.strip().endswith(":") or not ops.strip() or head.strip().startswith((".org", ".include")):
        return None
    ms = list(PIECE.finditer(ops))
    if not ms:
        return None
    for _ in range(4):
        i = rng.randrange(len(ms))
        j = i
        if rng.random() < 0.25:
            j = rng.randrange(i, len(ms))
        s, e = ms[i].start() + len(head), ms[j].end() + len(head)
        text = line[s:e]
        if not balanced(text):
            continue
        if token:
            if "\\" in text and not backslash_ok:
                continue      # a backslash in a .define text is a line continuation (known finding define-backslash)
            before = line[s - 1] if s > 0 else " "
            after = line[e] if e < len(line) else " "
            if before in "$./'\\" or after in ":./'":
                continue
        return s, e, text
    return None


def equivalent_arg(rng, text):
    """argument text for a piece: the piece itself or another spelling of it"""
    if re.fullmatch(r"[0-9]+", text) and rng.random() < 0.5:
        v = int(text, 8) if len(text) > 1 and text[0] == "0" and set(text) <= set("01234567") else int(text)
        return rng.choice(["(%d)" % v, "%d+0" % v, "0x%x" % v, "%d" % v, "(%d + %d)" % (v - v // 2, v // 2), " %d " % v])
    return rng.choice([text, text, " " + text, text + " "])


def wrap_chunk(rng, chunk, names, kind, incs):
    """returns (wrapped lines, expanded lines, tag) for one run of statements"""
    if kind in ("define", "hashdefine", "equ", "dotequ"):
        # (the value of `NAME equ VALUE` is copied raw: escapes inside its literals are not a line continuation)
        picks = [(k, pick_piece(rng, l, token=True, backslash_ok=(kind == "equ"))) for k, l in enumerate(chunk)]
        picks = [(k, pp) for k, pp in picks if pp]
        if not picks:
            return chunk, chunk, "none"
        k, (s, e, text) = rng.choice(picks)
        name = names.fresh(rng.choice(["ZD", "zd_", "_Z", "ZVALUE_"]))
        if kind == "dotequ":
            if not re.fullmatch(r"[0-9][0-9A-Za-z_]*|[A-Za-z_][A-Za-z0-9_]*", text):
                return chunk, chunk, "none"
            head = "%s %s = %s" % (rng.choice([".equ", ".def"]), name, text)
        elif kind == "equ":
            head = "%s equ %s%s" % (name, text, rng.choice(["", " ; c", " // c", "  "]))
        else:
            kw = ".define" if kind == "define" else "#define"
            head = "%s %s %s%s" % (kw, name, text, rng.choice(["", " ; c", " // c", " /* c */", "  "]))
        wl = list(chunk)
        wl[k] = chunk[k][:s] + name + chunk[k][e:]
        pos = rng.randrange(k + 1)
        return wl[:pos] + [head] + wl[pos:], list(chunk), kind
    if kind in ("macro", "macro2", "nested", "definep"):
        # parameters replace pieces of the body
        body = list(chunk)
        params, args = [], []
        used = words_of("\n".join(chunk))
        for _ in range(rng.choice([0, 1, 1, 2, 3, 5, 9]) if kind != "definep" else rng.choice([1, 2])):
            picks = [(k, pick_piece(rng, l)) for k, l in enumerate(body)]
            picks = [(k, pp) for k, pp in picks if pp]
            if not picks:
                break
            k, (s, e, text) = rng.choice(picks)
            if any(p in words_of(text) for p in params) or "\x00" in text:
                continue
            p = rng.choice(TRICKY_PARAMS) if rng.random() < 0.4 else names.fresh("zp")
            if p in used or p in params:
                p = names.fresh("zp")
            body[k] = body[k][:s] + p + body[k][e:]
            params.append(p)
            args.append(text)
            used.add(p)
        name = names.fresh(rng.choice(["ZM", "zm_", "_ZM"]))
        if kind == "definep":
            if len(body) != 1 or not params:
                return chunk, chunk, "none"
            head, ops = split_stmt(body[0])
            if not ops.strip() or "\\" in ops:
                return chunk, chunk, "none"
            d = "%s %s(%s) %s" % (rng.choice([".define", "#define"]), name, ",".join(params), ops.strip())
            call = "%s(%s)" % (name, rng.choice([",", ", "]).join(equivalent_arg(rng, a) for a in args))
            return [d, head + " " + call], [head + " " + ops.strip()] if False else [d_expand(head, ops, params, call, name)], kind
        sep = rng.choice([",", ", ", " , "])
        head = ".macro " + name + ((rng.choice(["(", " ("]) + sep.join(params) + ")") if params else "")
        blines = [l + rng.choice(["", "", " ; c", " // c"]) for l in body]
        endm = rng.choice([".endm", "  .endm", ".ENDM"])
        defn = [head] + blines + [endm]

        def call_and_expansion(argv):
            callargs = [equivalent_arg(rng, a) for a in argv]
            call = name + (rng.choice(["(", " ("]) + rng.choice([",", ", "]).join(callargs) + ")" if params else
                           rng.choice(["", "()"]) if False else "")
            # an argument reaches the text with leading blanks removed (blanks after '(' and ',' are skipped)
            exp = [sub_words_str(l, params, [a.lstrip(" \t") for a in callargs]) for l in body]
            return "  " + call, exp
        c1, e1 = call_and_expansion(args)
        wl, el = defn + [c1], list(e1)
        if kind == "macro2":
            c2, e2 = call_and_expansion(args)
            wl += [c2]
            el += e2
        if kind == "nested":
            outer = names.fresh("ZO")
            oparams = [names.fresh("zq") for _ in params]
            ohead = ".macro %s%s" % (outer, "(" + ", ".join(oparams) + ")" if oparams else "")
            inner_call = "  " + name + ("(" + ", ".join(oparams) + ")" if oparams else "")
            callargs = [equivalent_arg(rng, a) for a in args]
            ocall = "  " + outer + ("(" + ",".join(callargs) + ")" if oparams else "")
            wl = defn + [ohead, inner_call, ".endm", ocall]
            inner_args = [sub_words_str(q, oparams, [a.lstrip(" \t") for a in callargs]) for q in oparams]
            el = [sub_words_str(l, params, inner_args) for l in body]
        return wl, el, kind + ":%d" % len(params)
    if kind == "defmacro":
        # a define / equ name used inside a macro body (the character after the name is ungot
        # below the mark of the define and must be read after its text, inside the outer text)
        w1, e1, t1 = wrap_chunk(rng, chunk, names, rng.choice(["define", "hashdefine", "equ", "dotequ"]), incs)
        if t1 == "none":
            return chunk, chunk, "none"
        heads = [l for l in w1 if l not in e1 and re.match(r"\s*(\.define|#define|\.equ|\.def)\b|^\S+ equ ", l)]
        if len(heads) != 1:
            return chunk, chunk, "none"
        head = heads[0]
        stm = [l for l in w1 if l is not head]
        m = re.match(r"\s*(?:\.define|#define)\s+(\S+) (.*)$|^(\S+) equ (.*)$|\s*(?:\.equ|\.def) (\S+) = (.*)$", head)
        name = m.group(1) or m.group(3) or m.group(5)
        w2, e2, t2 = wrap_chunk(rng, stm, names, rng.choice(["macro", "macro2", "nested"]), incs)
        orig = dict((a, b) for a, b in zip(stm, chunk))
        # hand expansion: parameters first, then the define name (a fresh word) by its text
        text = None
        for a, b in zip(stm, chunk):
            if a != b:
                i = a.index(name)
                text = b[i:len(b) - (len(a) - i - len(name))]
        if text is None:
            return chunk, chunk, "none"
        e2x = [sub_words_str(l, [name], [text]) for l in e2]
        return [head] + w2, e2x, "defmacro"
    if kind == "callarg":
        # a call whose argument is itself a call: the inner commas are inside parentheses
        picks = [(k, pick_piece(rng, l, token=True)) for k, l in enumerate(chunk)]
        picks = [(k, pp) for k, pp in picks if pp and re.fullmatch(r"[0-9]+", pp[2])]
        if not picks:
            return chunk, chunk, "none"
        k, (s, e, text) = rng.choice(picks)
        za, zb = names.fresh("ZA"), names.fresh("ZB")
        p1, p2, p3 = names.fresh("zp"), names.fresh("zp"), names.fresh("zp")
        extra = rng.choice(["0", "(0)", "(1-1)", "0*(2+3)"])
        defs = ["%s %s(%s,%s) %s+%s" % (rng.choice([".define", "#define"]), za, p1, p2, p1, p2),
                "%s %s(%s) (%s)" % (rng.choice([".define", "#define"]), zb, p3, p3)]
        call = "%s(%s(%s%s%s))" % (zb, za, text, rng.choice([",", ", ", " , "]), extra)
        wl, el = list(chunk), list(chunk)
        wl[k] = chunk[k][:s] + call + chunk[k][e:]
        el[k] = chunk[k][:s] + "(%s+%s)" % (text, extra) + chunk[k][e:]
        return defs + wl, el, "callarg"
    if kind == "equq":
        # NAME equ VALUE ; comment  where VALUE holds escaped quotes / the other quote character, used with further
        # operands behind the name: whatever of the comment stays in the stored text swallows them at the use site
        text, nbytes = rng.choice(EQU_QUOTED)
        name = names.fresh(rng.choice(["ZQ", "zq_", "_ZQ"]))
        comment = rng.choice(EQU_COMMENTS) if rng.random() < 0.85 else ""
        head = "%s equ %s%s" % (name, text, comment)
        before = rng.choice([[], [], ["1"], ["0x10", "2"]])
        after = rng.choice([["5", "6"], ["7"], ["0x21", "0x22", "0x23"], [name], [name, "9"]])
        ops = before + [name] + after
        n = len(before) + sum(nbytes if o == name else 1 for o in [name] + after)
        if n % 2:
            ops.append("0")                     # an even number of bytes: the statements behind stay aligned
        use = "  .db " + ", ".join(ops)
        lab = names.fresh("zlab")
        k = rng.randrange(len(chunk) + 1)
        pos = rng.randrange(k + 1)
        wl = list(chunk[:k]) + [use, lab + ":"] + list(chunk[k:])
        el = list(chunk[:k]) + [sub_words_str(use, [name], [text]), lab + ":"] + list(chunk[k:])
        return wl[:pos] + [head] + wl[pos:], el, "equq:" + ("escaped" if "\\" in text else "plain") + ("+comment" if comment else "")
    if kind == "include":
        fn = names.fresh("zi") + ".inc"
        incs[fn] = "\n".join(chunk) + rng.choice(["\n", "\n", "\n\n"])
        return ['.include "%s"' % fn], list(chunk), "include"
    return chunk, chunk, "none"


def d_expand(head, ops, params, call, name):
    """expansion of `head NAME(args)` for `.define NAME(params) ops`"""
    m = re.match(r".*?\((.*)\)$", call, re.S)
    # the call arguments of this generator contain no top-level commas except the separators it wrote
    raw = split_top(m.group(1))
    return head + " " + sub_words_str(ops.strip(), params, [a.lstrip(" \t") for a in raw])


def split_top(text):
    """split at commas outside quotes / parentheses (call syntax of the manual)"""
    out, cur, depth, q = [], "", 0, None
    i = 0
    while i < len(text):
        c = text[i]
        if q:
            cur += c
            if c == "\\" and i + 1 < len(text):
                cur += text[i + 1]; i += 1
            elif c == q:
                q = None
        elif c in "\"'":
            q = c; cur += c
        elif c == "(":
            depth += 1; cur += c
        elif c == ")":
            depth -= 1; cur += c
        elif c == "," and depth == 0:
            out.append(cur); cur = ""
        else:
            cur += c
        i += 1
    out.append(cur)
    return out


KINDS = ["define", "hashdefine", "equ", "dotequ", "macro", "macro", "macro2", "nested", "definep", "callarg", "defmacro", "defmacro", "include", "none",
         "equq"]
# (value text, bytes it assembles to): escaped quote characters, the other quote character inside a literal, escaped
# backslashes, plain controls; no ; // tab inside the literals (known findings of their own)
EQU_QUOTED = [("'\\''", 1), ('"5\\""', 2), ('"a\\"b"', 3), ('"\\""', 1), ('"q\\"r\\"s"', 5), ("'\"'", 1), ('"it\'s"', 4), ("'\\\\'", 1),
              ('"\\\\"', 1), ('"x\\\\\\"y"', 4), ("'a'", 1), ('"ab"', 2), ("'\\n'", 1), ('"a\\tb"', 3)]
EQU_COMMENTS = [" ; c", " // c", "   ; the quote character", " ;", "//x", " ; it's", ' ; say "hi"', " // 'q'", "\t; tab"]


def wrapped_program(rng, lines):
    """lines: a valid program (first lines select CPU / origin).  Returns dict with the wrapped source,
    the hand-expanded source, include files and the list of kinds used."""
    head = [l for l in lines[:2]]
    body = list(lines[2:])
    for _ in range(rng.choice([0, 1, 1, 2])):
        body.insert(rng.randrange(len(body) + 1), extra_data(rng))
    names = Namer()
    incs = {}
    wl, el, kinds = list(head), list(head), []
    i = 0
    while i < len(body):
        n = rng.choice([1, 1, 2, 3])
        chunk = body[i:i + n]
        i += n
        kind = rng.choice(KINDS)
        if kind == "definep":
            chunk, rest = chunk[:1], chunk[1:]
        else:
            rest = []
        w, e, tag = wrap_chunk(rng, chunk, names, kind, incs)
        if rng.random() < 0.2:
            lab = names.fresh("zlab")
            if rng.random() < 0.5:                   # label in front of the (possibly wrapped) statements
                w = [lab + ":"] + w if rng.random() < 0.5 or not w or w[0].startswith((".", "#")) else [lab + ": " + w[0].strip()] + w[1:]
                e = [lab + ":"] + e
            else:
                w = w + [lab + ":"]
                e = e + [lab + ":"]
        wl += w + rest
        el += e + rest
        kinds.append(tag)
    return {"wrapped": "\n".join(wl) + "\n", "expanded": "\n".join(el) + "\n", "includes": incs, "kinds": kinds}


def repeat_program(rng, lines):
    """dict: w = source with .repeat, r = the body once, a = what precedes the body, b = that plus the
    body, n = count.  The body sits between zstart: and zafter:; a and b give its byte addresses."""
    head = lines[:2]
    body = [l for l in lines[2:] if not l.strip().endswith(":")]
    k = rng.randrange(0, max(1, len(body)))
    n = rng.choice([1, 2, 3, 4, 7, 16])
    j = min(len(body), k + rng.choice([1, 1, 2, 3]))
    pre, rep, post = body[:k], body[k:j], body[j:]
    w = head + pre + ["zstart:", ".repeat %d" % n] + rep + [".endr", "zafter:"] + post
    r = head + pre + ["zstart:"] + rep + ["zafter:"] + post
    org = int(head[1].split()[1], 16)
    j_ = "\n".join
    return {"w": j_(w) + "\n", "r": j_(r) + "\n", "a": j_(head + pre) + "\n", "b": j_(head + pre + rep) + "\n",
            "n": n, "org": org}
