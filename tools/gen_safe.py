"""C17 — object files for the readers of naken_util: small well-formed files of the nine formats with their
field tables and record boundaries, and the mutators that make them truncated or corrupt.

A seed is {"fmt", "data": bytes, "fields": [(name, offset, size, endian)], "cuts": [offsets of record /
section boundaries], "ext"}.  A case is (fmt, ext, data, label).  Only the rng passed in is used.
"""
import struct

FMTS = ["hex", "srec", "ti_txt", "wdc", "uf2", "elf", "amiga", "macho", "bin"]
EXT = {"hex": "hex", "srec": "srec", "ti_txt": "txt", "wdc": "wdc", "uf2": "uf2", "elf": "elf", "amiga": "out",
       "macho": "macho", "bin": "bin"}


def rbytes(rng, n):
    return bytes(rng.randrange(256) for _ in range(n))


# ---------------------------------------------------------------------------
# well-formed files
# ---------------------------------------------------------------------------

def hex_record(typ, addr, data):
    body = bytes([len(data), (addr >> 8) & 0xff, addr & 0xff, typ]) + data
    ck = (-sum(body)) & 0xff
    return b":" + (body + bytes([ck])).hex().upper().encode()


def build_hex(rng):
    lines, cuts, pos = [], [], 0
    base = rng.choice([0, 0, 0x1000, 0xfff0, 0x1fff8, 0x7fffff00, 0xfffffff0])
    upper = None
    a = base
    for _ in range(rng.randrange(1, 6)):
        n = rng.choice([1, 2, 15, 16, 16, 17, 32, 255])
        if (a >> 16) != upper:
            upper = a >> 16
            lines.append(hex_record(4, 0, struct.pack(">H", upper & 0xffff)))
        lines.append(hex_record(0, a & 0xffff, rbytes(rng, n)))
        a = (a + n + rng.choice([0, 0, 1, 300])) & 0xffffffff
    if rng.random() < 0.3:
        lines.append(hex_record(2, 0, struct.pack(">H", rng.randrange(65536))))
        lines.append(hex_record(0, rng.randrange(65536), rbytes(rng, 4)))
    if rng.random() < 0.3:
        lines.append(hex_record(rng.choice([3, 5]), 0, rbytes(rng, 4)))
    if rng.random() < 0.8:
        lines.append(hex_record(1, 0, b"") if rng.random() < 0.8 else hex_record(1, 0, rbytes(rng, rng.choice([1, 2, 4, 255]))))
    eol = rng.choice([b"\n", b"\n", b"\r\n"])
    data = b""
    for l in lines:
        cuts.append(len(data))
        data += l + eol
    fields = []
    off = 0
    for l in lines:
        fields += [("count", off + 1, 2, "hex"), ("addr", off + 3, 4, "hex"), ("type", off + 7, 2, "hex"),
                   ("cksum", off + len(l) - 2, 2, "hex")]
        off += len(l) + len(eol)
    return {"fmt": "hex", "data": data, "fields": fields, "cuts": cuts + [len(data)]}


def srec_record(typ, addr, data):
    alen = {1: 2, 2: 3, 3: 4, 0: 2, 5: 2, 7: 4, 8: 3, 9: 2}[typ]
    body = bytes([alen + len(data) + 1]) + addr.to_bytes(alen, "big") + data
    ck = (~sum(body)) & 0xff
    return ("S%d" % typ).encode() + (body + bytes([ck])).hex().upper().encode()


def build_srec(rng):
    lines = [srec_record(0, 0, b"naken")]
    typ = rng.choice([1, 2, 3])
    top = {1: 0xffff, 2: 0xffffff, 3: 0xffffffff}[typ]
    a = rng.choice([0, 0x100, top - 40, top - 3, top >> 1])
    for _ in range(rng.randrange(1, 6)):
        n = rng.choice([1, 2, 16, 16, 31, 32, 250])
        lines.append(srec_record(typ, a & top, rbytes(rng, n)))
        a = (a + n + rng.choice([0, 0, 5])) & top
    if rng.random() < 0.7:
        lines.append(srec_record({1: 9, 2: 8, 3: 7}[typ], rng.randrange(top + 1), b""))
    eol = rng.choice([b"\n", b"\n", b"\r\n"])
    data, cuts, fields = b"", [], []
    for l in lines:
        cuts.append(len(data))
        fields += [("type", len(data) + 1, 1, "hex"), ("count", len(data) + 2, 2, "hex"),
                   ("addr", len(data) + 4, 4, "hex"), ("cksum", len(data) + len(l) - 2, 2, "hex")]
        data += l + eol
    return {"fmt": "srec", "data": data, "fields": fields, "cuts": cuts + [len(data)]}


def build_ti_txt(rng):
    out, cuts = b"", []
    a = rng.choice([0, 0xf800, 0xffe0, 0x10000, 0xfffffff8])
    for _ in range(rng.randrange(1, 4)):
        cuts.append(len(out))
        out += b"@%X\n" % a if rng.random() < 0.7 else b"@%x\r\n" % a
        n = rng.choice([1, 2, 16, 17, 40])
        d = rbytes(rng, n)
        for i in range(0, n, 16):
            out += b" ".join(b"%02X" % x for x in d[i:i + 16]) + rng.choice([b"\n", b" \n", b"\r\n"])
        a = (a + n + rng.choice([0, 16, 0x1000])) & 0xffffffff
    cuts.append(len(out))
    out += rng.choice([b"q\n", b"q", b"", b"q\r\n"])
    return {"fmt": "ti_txt", "data": out, "fields": [], "cuts": cuts + [len(out)]}


def build_wdc(rng):
    out, cuts, fields = b"Z", [0], []
    a = rng.choice([0, 0x8000, 0xfffff0, 0xffff00])
    for _ in range(rng.randrange(1, 4)):
        n = rng.choice([1, 2, 16, 255, 256, 300])
        cuts.append(len(out))
        fields += [("addr", len(out), 3, "le"), ("len", len(out) + 3, 3, "le")]
        out += a.to_bytes(3, "little") + n.to_bytes(3, "little") + rbytes(rng, n)
        a = (a + n + rng.choice([0, 7])) & 0xffffff
    cuts.append(len(out))
    fields += [("addr", len(out), 3, "le"), ("len", len(out) + 3, 3, "le")]
    out += b"\0\0\0\0\0\0"
    return {"fmt": "wdc", "data": out, "fields": fields, "cuts": cuts + [len(out)]}


def uf2_block(addr, data, no, total, flags=0x2000, family=0xe48bff59):
    return (struct.pack("<8I", 0x0a324655, 0x9e5d5157, flags, addr, len(data), no, total, family) +
            data + bytes(476 - len(data)) + struct.pack("<I", 0x0ab16f30))


def build_uf2(rng):
    nb = rng.randrange(1, 4)
    a = rng.choice([0x10000000, 0x2000, 0xffffff00, 0x7fffff80])
    out, cuts, fields = b"", [], []
    for i in range(nb):
        n = rng.choice([256, 256, 1, 255, 476, 475])
        fl = 0x2000 | (1 if rng.random() < 0.15 else 0)
        cuts.append(len(out))
        for j, nm in enumerate(["magic0", "magic1", "flags", "addr", "count", "blockno", "total", "family"]):
            fields.append((nm, len(out) + 4 * j, 4, "le"))
        fields.append(("magic2", len(out) + 508, 4, "le"))
        out += uf2_block(a, rbytes(rng, n), i, nb, fl)
        a = (a + n) & 0xffffffff
    return {"fmt": "uf2", "data": out, "fields": fields, "cuts": cuts + [len(out)]}


def build_elf(rng, bits=None, be=None):
    bits = bits or rng.choice([32, 32, 64])
    be = rng.random() < 0.3 if be is None else be
    E = ">" if be else "<"
    machine = rng.choice([105, 83, 40, 243, 8, 4, 20, 0, 0xffff, 0x1223])
    text = rbytes(rng, rng.choice([2, 4, 16, 33, 100]))
    datab = rbytes(rng, rng.choice([0, 1, 8]))
    taddr = rng.choice([0, 0x8000, 0xf800, 0x10000, 0xfffffff0, 0x7ffffffc])
    daddr = rng.choice([0x200, 0x20000000])
    names = [b"main", b"loop", b"a_rather_long_symbol_name_" + b"x" * rng.choice([0, 100, 130]), b"end"]
    strtab = b"\0" + b"\0".join(names) + b"\0"
    shnames = [b"", b".text", b".data", b".symtab", b".strtab", b".shstrtab"]
    if rng.random() < 0.2:
        shnames[2] = rng.choice([b".data1", b".vectors", b".dat", b".bss"])
    shstr = b"\0".join(shnames) + b"\0"
    shname_off = [0]
    for s in shnames[1:]:
        shname_off.append(shstr.index(s + b"\0", 1))
    syms = []
    noff = 1
    for i, nm in enumerate(names):
        info = rng.choice([0x12, 0x10, 0x11, 0, 3, 4, 2, 1])
        val = (taddr + i * 2) & 0xffffffff
        if bits == 32:
            syms.append(struct.pack(E + "IIIBBH", noff, val, 0, info, 0, 1))
        else:
            syms.append(struct.pack(E + "IBBHQQ", noff, info, 0, 1, val, 0))
        noff += len(nm) + 1
    symtab = b"".join(syms)
    ehsize = 52 if bits == 32 else 64
    shentsize = 40 if bits == 32 else 64
    bodies = [b"", text, datab, symtab, strtab, shstr]
    offs, pos = [], ehsize
    for b in bodies:
        offs.append(pos)
        pos += len(b)
    shoff = pos
    types = [0, 1, 1, 2, 3, 3]
    flags = [0, 6, 3, 0, 0, 0]
    addrs = [0, taddr, daddr, 0, 0, 0]
    ident = b"\x7fELF" + bytes([1 if bits == 32 else 2, 2 if be else 1, 1, 0]) + bytes(8)
    if bits == 32:
        hdr = ident + struct.pack(E + "HHIIIIIHHHHHH", 2, machine, 1, taddr, 0, shoff, 0, ehsize, 0, 0, shentsize, 6, 5)
    else:
        hdr = ident + struct.pack(E + "HHIQQQIHHHHHH", 2, machine, 1, taddr, 0, shoff, 0, ehsize, 0, 0, shentsize, 6, 5)
    out = hdr + b"".join(bodies)
    fields = [("ei_class", 4, 1, "b"), ("ei_data", 5, 1, "b"), ("e_machine", 18, 2, E)]
    if bits == 32:
        fields += [("e_shoff", 32, 4, E), ("e_shentsize", 46, 2, E), ("e_shnum", 48, 2, E), ("e_shstrndx", 50, 2, E)]
    else:
        fields += [("e_shoff", 40, 8, E), ("e_shentsize", 58, 2, E), ("e_shnum", 60, 2, E), ("e_shstrndx", 62, 2, E)]
    cuts = [ehsize] + offs + [shoff]
    for i in range(6):
        base = len(out)
        cuts.append(base)
        if bits == 32:
            out += struct.pack(E + "IIIIIIIIII", shname_off[i], types[i], flags[i], addrs[i], offs[i], len(bodies[i]), 0, 0, 1, 0)
            for j, nm in enumerate(["sh_name", "sh_type", "sh_flags", "sh_addr", "sh_offset", "sh_size"]):
                fields.append(("%s[%d]" % (nm, i), base + 4 * j, 4, E))
        else:
            out += struct.pack(E + "IIQQQQIIQQ", shname_off[i], types[i], flags[i], addrs[i], offs[i], len(bodies[i]), 0, 0, 1, 0)
            fields += [("sh_name[%d]" % i, base, 4, E), ("sh_type[%d]" % i, base + 4, 4, E)]
            for j, nm in enumerate(["sh_flags", "sh_addr", "sh_offset", "sh_size"]):
                fields.append(("%s[%d]" % (nm, i), base + 8 + 8 * j, 8, E))
    for i in range(len(names)):
        so = offs[3] + i * (16 if bits == 32 else 24)
        fields.append(("st_name[%d]" % i, so, 4, E))
        fields.append(("st_info[%d]" % i, so + (12 if bits == 32 else 4), 1, "b"))
    return {"fmt": "elf", "data": out, "fields": fields, "cuts": sorted(set(cuts + [len(out)])), "bits": bits, "be": be}


def build_amiga(rng):
    code = rbytes(rng, 4 * rng.choice([1, 2, 8, 30]))
    name = rng.choice([b"", b"", b"prog"])
    name += bytes((-len(name)) % 4)
    nh = rng.choice([1, 1, 2])
    out = struct.pack(">II", 0x3f3, len(name) // 4) + name
    fields = [("magic", 0, 4, ">"), ("name_len", 4, 4, ">")]
    base = len(out)
    out += struct.pack(">III", nh, 0, nh - 1)
    fields += [("table_len", base, 4, ">"), ("first", base + 4, 4, ">"), ("last", base + 8, 4, ">")]
    cuts = [8, base, len(out)]
    for i in range(nh):
        fields.append(("size[%d]" % i, len(out), 4, ">"))
        out += struct.pack(">I", len(code) // 4 if i == 0 else rng.choice([1, 2]))
    cuts.append(len(out))
    if rng.random() < 0.3:
        # a hunk the reader skips using entry 0 of the table as its length
        fields.append(("hunk_type", len(out), 4, ">"))
        out += struct.pack(">I", rng.choice([0x3f1, 0x3e8, 0x3f0])) + bytes(len(code) // 4)
        cuts.append(len(out))
    fields += [("hunk_type", len(out), 4, ">"), ("code_len", len(out) + 4, 4, ">")]
    out += struct.pack(">II", 0x3e9, len(code) // 4) + code
    cuts.append(len(out))
    out += struct.pack(">I", 0x3f2)
    return {"fmt": "amiga", "data": out, "fields": fields, "cuts": sorted(set(cuts + [len(out)]))}


def build_macho(rng, bits=None, be=None):
    bits = bits or rng.choice([32, 32, 64])
    be = rng.random() < 0.3 if be is None else be
    E = ">" if be else "<"
    cpu = rng.choice([12, 12, 6, 0x12, 7, 0]) | (0x01000000 if bits == 64 else 0)
    if (cpu & 0xff) == 0x12 and not be:
        cpu = 12 | (cpu & 0x01000000)          # PowerPC switches the reader to big endian: keep the seed well-formed
    text = rbytes(rng, rng.choice([4, 16, 40, 100]))
    taddr = rng.choice([0, 0x1000, 0xfffffff0, 0x100000000 if bits == 64 else 0x4000])
    names = [b"_main", b"_loop", b"_" + b"y" * rng.choice([3, 126, 140])]
    strtab = b"\0" + b"\0".join(names) + b"\0"
    magic = 0xfeedfacf if bits == 64 else 0xfeedface
    hdr_len = 32 if bits == 64 else 28
    seg_len = (72 if bits == 64 else 56)
    sec_len = (80 if bits == 64 else 68)
    ncmds = 2
    cmds_len = seg_len + sec_len + 24
    text_off = hdr_len + cmds_len
    sym_off = text_off + len(text)
    nlist = 16 if bits == 64 else 12
    str_off = sym_off + nlist * len(names)
    fields = [("magic", 0, 4, E), ("cputype", 4, 4, E), ("ncmds", 16, 4, E), ("sizeofcmds", 20, 4, E)]
    out = struct.pack(E + "IIIIIII", magic, cpu, 0, 1, ncmds, cmds_len, 0)
    if bits == 64:
        out += struct.pack(E + "I", 0)
    cuts = [len(out)]
    base = len(out)
    fields += [("cmd[0]", base, 4, E), ("cmdsize[0]", base + 4, 4, E)]
    segname = b"__TEXT".ljust(16, b"\0")
    if bits == 64:
        out += struct.pack(E + "II", 0x19, seg_len + sec_len) + segname + struct.pack(E + "QQQQIIII", taddr, len(text), text_off, len(text), 7, 5, 1, 0)
        fields.append(("nsects", base + 64, 4, E))
    else:
        out += struct.pack(E + "II", 1, seg_len + sec_len) + segname + struct.pack(E + "IIIIIIII", taddr & 0xffffffff, len(text), text_off, len(text), 7, 5, 1, 0)
        fields.append(("nsects", base + 48, 4, E))
    cuts.append(len(out))
    base = len(out)
    secname = rng.choice([b"__text"] * 5 + [b"__data", b"__text__"]).ljust(16, b"\0")
    if bits == 64:
        out += secname + segname + struct.pack(E + "QQIIIIIIII", taddr, len(text), text_off, 2, 0, 0, 0x80000400, 0, 0, 0)
        fields += [("sect_addr", base + 32, 8, E), ("sect_size", base + 40, 8, E), ("sect_offset", base + 48, 4, E)]
    else:
        out += secname + segname + struct.pack(E + "IIIIIIIII", taddr & 0xffffffff, len(text), text_off, 2, 0, 0, 0x80000400, 0, 0)
        fields += [("sect_addr", base + 32, 4, E), ("sect_size", base + 36, 4, E), ("sect_offset", base + 40, 4, E)]
    fields.append(("sectname", base, 8, "b"))
    cuts.append(len(out))
    base = len(out)
    out += struct.pack(E + "IIIIII", 2, 24, sym_off, len(names), str_off, len(strtab))
    fields += [("cmd[1]", base, 4, E), ("cmdsize[1]", base + 4, 4, E), ("symoff", base + 8, 4, E), ("nsyms", base + 12, 4, E),
               ("stroff", base + 16, 4, E), ("strsize", base + 20, 4, E)]
    cuts.append(len(out))
    out += text
    cuts.append(len(out))
    noff = 1
    for i, nm in enumerate(names):
        typ = rng.choice([0x0f, 0x0f, 0x0e, 0x01, 0])
        fields += [("n_strx[%d]" % i, len(out), 4, E), ("n_type[%d]" % i, len(out) + 4, 1, "b")]
        if bits == 64:
            out += struct.pack(E + "IBBHQ", noff, typ, 1, 0, taddr + 2 * i)
        else:
            out += struct.pack(E + "IBBHI", noff, typ, 1, 0, (taddr + 2 * i) & 0xffffffff)
        noff += len(nm) + 1
        cuts.append(len(out))
    out += strtab
    return {"fmt": "macho", "data": out, "fields": fields, "cuts": sorted(set(cuts + [len(out)])), "bits": bits, "be": be}


def build_bin(rng):
    d = rbytes(rng, rng.choice([0, 1, 2, 100, 300]))
    return {"fmt": "bin", "data": d, "fields": [], "cuts": [0, len(d)]}


BUILDERS = {"hex": build_hex, "srec": build_srec, "ti_txt": build_ti_txt, "wdc": build_wdc, "uf2": build_uf2,
            "elf": build_elf, "amiga": build_amiga, "macho": build_macho, "bin": build_bin}


# ---------------------------------------------------------------------------
# mutators
# ---------------------------------------------------------------------------

def field_values(size, flen):
    """extremes of a binary field of `size` bytes in a file of `flen` bytes"""
    top = (1 << (8 * size)) - 1
    vals = [0, 1, 2, top, top - 1, top >> 1, (top >> 1) + 1, flen & top, (flen + 1) & top, (flen - 1) & top,
            0x10 & top, 0xfffffff0 & top, 0xfffffff1 & top, 0x100000000 & top, 0xffffffff & top]
    if size == 8:
        vals += [0x7fffffffffffffff, 0x8000000000000000, 1 << 44, 1 << 40, 1 << 62]
    out = []
    for v in vals:
        if v not in out:
            out.append(v)
    return out


def put_field(data, off, size, endian, v):
    b = bytearray(data)
    if endian == "hex":
        b[off:off + size] = (b"%0*X" % (size, v & ((1 << (4 * size)) - 1)))
    elif endian in ("b",):
        b[off:off + size] = (v & ((1 << (8 * size)) - 1)).to_bytes(size, "big")
    else:
        b[off:off + size] = (v & ((1 << (8 * size)) - 1)).to_bytes(size, "big" if endian == ">" else "little")
    return bytes(b)


def hex_field_values(size):
    top = (1 << (4 * size)) - 1
    return [0, 1, top, top - 1, top >> 1, (top >> 1) + 1]


def mutations(rng, seed, limit=None):
    """structured mutants of one seed: (data, label)"""
    data, fmt = seed["data"], seed["fmt"]
    out = [(data, "seed")]
    n = len(data)
    # every field at its extremes
    for name, off, size, en in seed["fields"]:
        vals = hex_field_values(size) if en == "hex" else field_values(size, n)
        for v in vals:
            out.append((put_field(data, off, size, en, v), "%s=%x" % (name, v)))
        if en == "hex":
            # a non-hex character / lower case / odd digit count inside the field
            b = bytearray(data)
            b[off] = rng.choice(b"gG:-xz \n\r\0\xff")
            out.append((bytes(b), "%s:nonhex" % name))
            out.append((data[:off] + data[off:off + size].lower() + data[off + size:], "%s:lower" % name))
            out.append((data[:off] + data[off + 1:], "%s:odd-digits" % name))
    # truncation at every record / section boundary and next to it
    for c in seed["cuts"]:
        for d in (-1, 0, 1, 2, 3):
            k = c + d
            if 0 <= k <= n:
                out.append((data[:k], "cut@%d%+d" % (c, d)))
    # generic: every aligned 32 bit word of a binary file at the extremes (the first 512 bytes)
    if fmt in ("elf", "macho", "amiga", "uf2", "wdc"):
        step = 4 if fmt != "wdc" else 3
        for off in range(0, min(n - step + 1, 512), step):
            for v in (0, (1 << (8 * step)) - 1, (1 << (8 * step - 1)), n, 0xffffff00 & ((1 << (8 * step)) - 1)):
                for en in (("<", ">") if fmt in ("elf", "macho") else ("<" if fmt in ("uf2", "wdc") else ">",)):
                    out.append((put_field(data, off, step, en, v), "word@%d=%x%s" % (off, v, en)))
    # text formats: lines longer than any buffer, missing end record, junk lines, CR only
    if fmt in ("hex", "srec", "ti_txt"):
        out.append((data + {"hex": b":", "srec": b"S1", "ti_txt": b"@"}[fmt] + b"0" * 70000, "long-line"))
        out.append((b"x" * 5000 + b"\n" + data, "junk-line"))
        out.append((data.replace(b"\n", b"\r"), "cr-only"))
        out.append((data.replace(b"\n", b""), "one-line"))
        out.append((data.rstrip(b"\r\n"), "no-final-eol"))
        if fmt == "hex":
            out.append((data.replace(b":00000001FF", b""), "no-eof-record"))
        if fmt == "ti_txt":
            out.append((data.replace(b"q", b""), "no-q"))
            out.append((data.replace(b" ", b"  "), "double-space"))
            out.append((b"@" * 3 + data, "at-at"))
            out.append((data.replace(b"@", b"@@ "), "at-space"))
    # random corruption
    for i in range(12):
        b = bytearray(data)
        for _ in range(rng.choice([1, 1, 2, 5])):
            if b:
                b[rng.randrange(len(b))] = rng.choice([0, 0xff, rng.randrange(256), 0x80, 0x0a, 0x3a])
        out.append((bytes(b), "flip%d" % i))
    for i in range(3):
        k = rng.randrange(n + 1)
        out.append((data[:k] + rbytes(rng, rng.choice([1, 3, 16])) + data[k:], "insert%d" % i))
        out.append((data[:k] + data[k + rng.choice([1, 2, 7]):], "delete%d" % i))
    if limit and len(out) > limit:
        keep = [out[0]] + rng.sample(out[1:], limit - 1)
        out = keep
    return out


def special_cases(rng):
    """hand-made files for the loops that depend on counts in the file"""
    out = []
    E = "<"
    # ELF: 65535 section headers of size 0 (all the same header), tiny loaded section
    s = build_elf(rng, bits=32, be=False)
    d = s["data"]
    f = dict((n, (o, z, e)) for n, o, z, e in s["fields"])
    for entsize, num in ((0, 65535), (0, 0x7fff), (1, 65535), (40, 65535), (65535, 65535), (0xffff, 0x8000), (40, 0)):
        x = put_field(d, f["e_shentsize"][0], 2, E, entsize)
        x = put_field(x, f["e_shnum"][0], 2, E, num)
        # make header 0 a one-byte executable section so the repeated walk stays small
        out.append(("elf", x, "shentsize=%d,shnum=%d" % (entsize, num)))
    # section table that points at itself / at the ELF header, symbol table larger than the file
    x = put_field(d, f["sh_offset[1]"][0], 4, E, f["sh_offset[1]"][0])
    out.append(("elf", x, "text-at-own-header"))
    for size in (0xffffffff, 0xfffffff0, 0xfffffff1, 0x80000000, len(d), len(d) + 1, 17, 15):
        out.append(("elf", put_field(d, f["sh_size[3]"][0], 4, E, size), "symtab-size=%x" % size))
        out.append(("elf", put_field(d, f["sh_size[1]"][0], 4, E, size), "text-size=%x" % size))
    for off in (0xffffffff, 0x80000000, len(d), len(d) - 1, 0):
        out.append(("elf", put_field(d, f["sh_offset[3]"][0], 4, E, off), "symtab-offset=%x" % off))
        out.append(("elf", put_field(d, f["e_shoff"][0], 4, E, off), "shoff=%x" % off))
    s64 = build_elf(rng, bits=64, be=False)
    d64 = s64["data"]
    f64 = dict((n, (o, z, e)) for n, o, z, e in s64["fields"])
    for v in (0xffffffffffffffff, 0x8000000000000000, 0x7fffffffffffffff, 0x100000000, 0xffffffff000, 0xffffffff001,
              0xfffffffffffffff0, 1 << 44, (1 << 44) - 4096, (1 << 44) - 4095):
        # offsets within one stdio buffer of the file system's seek limit (2^44 - 4096 on ext4): glibc's failed fseek leaves
        # ftell off there, which no model of "fseek succeeds or fails" describes; such files are run for crashes only
        win = "window:" if (1 << 44) - 8192 <= v < (1 << 44) else ""
        for fld in ("e_shoff", "sh_size[1]", "sh_size[3]", "sh_offset[1]", "sh_offset[3]", "sh_offset[4]", "sh_addr[1]"):
            out.append(("elf", put_field(d64, f64[fld][0], 8, E, v), "%s%s=%x" % (win, fld, v)))
    # Mach-O: counts far beyond the file
    for bits in (32, 64):
        m = build_macho(rng, bits=bits, be=False)
        md = m["data"]
        mf = dict((n, (o, z, e)) for n, o, z, e in m["fields"])
        for v in (0xffffffff, 0x80000000, 1000, 3):
            for fld in ("ncmds", "nsects", "nsyms", "cmdsize[0]", "cmdsize[1]", "symoff", "stroff"):
                out.append(("macho", put_field(md, mf[fld][0], 4, E, v), "%d:%s=%x" % (bits, fld, v)))
        for v in ((0xffffffff, 0xffffffffffffffff, 1 << 32, (1 << 32) + 5) if bits == 64 else (0xffffffff, 0x80000000)):
            out.append(("macho", put_field(md, mf["sect_size"][0], mf["sect_size"][1], E, v), "%d:sect_size=%x" % (bits, v)))
        # a command that is neither a segment nor a symbol table, sizes 0..9
        for sz in (0, 7, 8, 9, 0xffffffff):
            x = put_field(md, mf["cmd[0]"][0], 4, E, 0x26)
            out.append(("macho", put_field(x, mf["cmdsize[0]"][0], 4, E, sz), "%d:unknown-cmd-size=%x" % (bits, sz)))
    # Amiga: no code hunk, negative / zero / huge lengths, huge table, huge name
    hdr = struct.pack(">IIIII", 0x3f3, 0, 1, 0, 0)
    for ln in (0xfffffffc, 0xffffffff, 0x80000000, 0, 1, 4, 0x7fffffff, 8):
        out.append(("amiga", hdr + struct.pack(">I", ln) + struct.pack(">I", 0x3f1) + bytes(16), "no-code,len=%x" % ln))
        out.append(("amiga", hdr + struct.pack(">I", ln) + struct.pack(">II", 0x3f1, 0) + struct.pack(">II", 0x3e9, 1) + b"ABCD",
                    "skip-then-code,len=%x" % ln))
    for tl in (0xffffffff, 0x40000000, 2, 3):
        out.append(("amiga", struct.pack(">IIIII", 0x3f3, 0, tl, 0, 0) + struct.pack(">II", 1, 1) + struct.pack(">II", 0x3e9, 1) + b"WXYZ",
                    "table_len=%x" % tl))
    for nl in (0xffffffff, 0x40000000, 0x3fffffff, 1):
        out.append(("amiga", struct.pack(">II", 0x3f3, nl) + b"name" + struct.pack(">IIII", 1, 0, 0, 1) + struct.pack(">II", 0x3e9, 1) + b"WXYZ",
                    "name_len=%x" % nl))
    out.append(("amiga", struct.pack(">I", 0x3f3) * 40, "headers-only"))
    out.append(("amiga", struct.pack(">II", 0x3f3, 0) + struct.pack(">III", 1, 0, 0) + struct.pack(">I", 2) + struct.pack(">II", 0x3e9, 0xffffffff) + b"abcdefgh",
                "code_len=ffffffff"))
    # UF2: byte counts around the data area
    for cnt in (0, 1, 475, 476, 477, 512, 0x7fffffff, 0x80000000, 0xffffffff):
        blk = bytearray(uf2_block(0x1000, bytes((i % 255) + 1 for i in range(476)), 0, 1))
        blk[16:20] = struct.pack("<I", cnt)
        out.append(("uf2", bytes(blk), "count=%x" % cnt))
        out.append(("uf2", uf2_block(0x2000, b"\x11" * 256, 0, 2) + bytes(blk), "second-block-count=%x" % cnt))
    out.append(("uf2", uf2_block(0xfffffff0, b"\x22" * 32, 0, 1), "wrap-address"))
    out.append(("uf2", uf2_block(0x7ffffff0, b"\x22" * 32, 0, 1), "wrap-int-address"))
    # hex / srec: the count field versus what follows
    out.append(("hex", b":FF000001" + b"0" * 510 + b"00\n", "eof-record-255-bytes"))
    out.append(("hex", b":FF000001" + b"F" * 510 + b"00\n", "eof-record-255-bytes-ff"))
    out.append(("hex", b":FF0000", "count-ff-then-eof"))
    out.append(("hex", b":FF000000" + b"12" * 10, "data-shorter-than-count"))
    out.append(("hex", b":02000004FFFFFC\n:10FFF800" + b"AB" * 16 + b"00\n", "top-of-memory"))
    out.append(("hex", b":", "colon-only"))
    out.append(("hex", b"::::::::\n", "colons"))
    out.append(("srec", b"S1", "s1-only"))
    out.append(("srec", b"S100", "count-0"))
    out.append(("srec", b"S1020000FD\n", "count-2"))
    out.append(("srec", b"S3FFFFFFFFF0" + b"CD" * 250 + b"00\n", "s3-wraps"))
    out.append(("srec", b"S2FF" + b"F" * 600, "s2-eof-in-data"))
    out.append(("srec", b"S" * 5000, "all-S"))
    out.append(("wdc", b"Z\xff\xff\xff\xff\xff\xff" + b"A" * 100, "len-ffffff"))
    out.append(("wdc", b"Z\xf0\xff\xff\x40\x00\x00" + b"B" * 64, "addr-wrap-24"))
    out.append(("wdc", b"Z\x00\x00", "cut-in-address"))
    out.append(("wdc", b"Z\x00\x00\x00\x05", "cut-in-length"))
    out.append(("wdc", b"Y\x00\x00\x00\x01\x00\x00A", "bad-magic"))
    out.append(("wdc", b"", "empty"))
    out.append(("ti_txt", b"@FFFFFFFF\n01 02 03\nq\n", "wrap-address"))
    out.append(("ti_txt", b"@123456789ABCDEF\n01\nq", "address-17-digits"))
    out.append(("ti_txt", b"0102030405\n", "value-10-digits"))
    out.append(("ti_txt", b"@\n@\n\n  \n01", "empty-address"))
    out.append(("ti_txt", b"@10 @20 01 q 02", "address-chain"))
    out.append(("ti_txt", b"01 02 0g 03", "syntax-error"))
    out.append(("ti_txt", b"1" * 70000, "70000-digit-value"))
    for fmt in FMTS:
        out.append((fmt, b"", "empty"))
        out.append((fmt, b"\x00", "nul"))
        out.append((fmt, b"\xff" * 64, "ff64"))
    return out


def sniff_cases(rng):
    """(ext, data) pairs for get_file_type(): extension decides, else the magic"""
    magics = [b"\x7fELF", b"\xce\xfa\xed\xfe", b"\xcf\xfa\xed\xfe", b"\xfe\xed\xfa\xce", b"\xfe\xed\xfa\xcf", b"\x00\x00\x03\xf3",
              b":", b"UF2\n", b"Z", b"S1", b"@", b""]
    exts = ["hex", "HEX", "Hex", "wdc", "srec", "SREC", "txt", "uf2", "bin", "elf", "o", "dat", "he", "hexx", "srec2", "TXT", "uF2"]
    out = []
    for m in magics:
        for k in (len(m), max(0, len(m) - 1), len(m) + 60):
            body = (m + rbytes(rng, 64))[:k] if k <= len(m) else m + rbytes(rng, k - len(m))
            for e in (rng.sample(exts, 4) + ["dat", "bin"]):
                out.append((e, body))
    return out


# ---------------------------------------------------------------------------
# command layer: argument strings for get_num / get_address / get_range / write* / print*
# ---------------------------------------------------------------------------

NUM_ATOMS = ["0", "1", "9", "10", "255", "256", "65535", "65536", "4294967295", "4294967296", "4294967297", "2147483648",
             "99999999999999999999", "0x0", "0x1", "0xff", "0xFF", "0xffff", "0x10000", "0xffffffff", "0x100000000",
             "0xfffffffe", "0xfffffffc", "0xffff0000", "0x7fffffff", "0x80000000", "0x123456789abcdef", "0x", "0xg", "0x1g",
             "10h", "ffh", "FFh", "h", "-h", "1-h", "-10h", "0h", "ffffffffh", "100000000h", "ah", "gh", "1h2",
             "-1", "-0", "-", "--", "-5", "-4294967295", "-2147483648", "- 5", "+5", "1e3", "12a", "a12", "zz", "main", "tab",
             "0x-1", "0x1-2", "1-2", "1 - 2", "1-", "-1-", "1--2", "5x", "0X10", "010", "1_000", "1,2", "1.5", "'a'", "\t1", "1\t"]
SEPS = [" ", " ", " ", "  ", "   ", "", "-", " - ", "\t"]


def num_string(rng, n=None):
    n = n if n is not None else rng.choice([0, 1, 1, 2, 2, 3, 5, 9])
    s = rng.choice(["", "", "", " ", "   "])
    for i in range(n):
        if i:
            s += rng.choice(SEPS)
        s += rng.choice(NUM_ATOMS)
    s += rng.choice(["", "", "", " ", "  ", "h", " h", "-"])
    return s


def rand_string(rng):
    alphabet = "0123456789abcdefxXhH- -  ghz\t+,._'\"=@:;/\\()"
    return "".join(rng.choice(alphabet) for _ in range(rng.choice([0, 1, 2, 3, 5, 8, 13, 30, 300])))


def range_string(rng):
    a = rng.choice(NUM_ATOMS + ["main", "tab", ""])
    b = rng.choice(NUM_ATOMS + ["main", "tab", ""])
    form = rng.choice(["%s-%s", "%s - %s", "%s-", "-%s", "%s", "%s %s", "%s-%s x", " %s-%s ", "%s--%s", "-", "", "%s -%s"])
    try:
        return form % (a, b)
    except TypeError:
        try:
            return form % a
        except TypeError:
            return form


def print_range(rng):
    """ranges for print*: syntactically anything, but never more than a few hundred addresses wide"""
    a = rng.choice([0, 1, 2, 3, 0x10, 0xff, 0x100, 0xfffe, 0xffff, 0x10000, 0x7ffffff0, 0x80000000, 0xffffff00, 0xfffffff0,
                    0xfffffffc, 0xfffffffd, 0xfffffffe, 0xffffffff])
    span = rng.choice([0, 1, 2, 3, 4, 5, 15, 16, 17, 31, 32, 33, 127, 128, 129, 300])
    b = min(a + span, 0xffffffff)
    fa = rng.choice(["0x%x", "%d", "%xh", "0x%X"]) % a
    fb = rng.choice(["0x%x", "%d", "%xh"]) % b
    form = rng.choice(["%s-%s", "%s-%s", "%s - %s", " %s-%s ", "%s -%s", "%s- %s"])
    r = form % (fa, fb)
    k = rng.randrange(12)
    if k == 0:
        return fa
    if k == 1:
        return r + " x"
    if k == 2 and b < 0x10000:       # end before start (small values only: a scaled address must not wrap into a 4 GB range)
        return form % (fb, fa)
    if k == 3:
        return rng.choice(["", "-", "--", "zz", "1-zz", "zz-1", "- -", "main", "10-main", "-%s" % (fb if b < 0x1000 else "0x20"), "%s-" % fa])
    return r


WRAP_RANGES = ["0xfffffffe-0xffffffff", "0xfffffffc-0xffffffff", "0xfffffffd-0xffffffff", "0xffffff80", "0xffffff81",
               "0xfffffff0-0xffffffff", "0xffffffff", "0xffffffff-0xffffffff", "0xffffffff-0", "0x10-0x8", "0-0", "0-1", "0-2",
               "0-15", "0-16", "0-17", "0-33", "1-2", "1-18", "3-4", "0x7fffffff-0x80000010", "0xfffffffb-0xffffffff",
               "0xfffffff8-0xfffffffe", "0xfffffffe", "0xfffffffc", "-0x10", "0xffffff00-"]

CMD_CPUS = ["msp430", "avr8", "68000", "arm", "tms340", "6502", "pic14", "dspic", "mips", "8051", "riscv", "1802"]
SYMS = "6d61696e=1234,746162=ffffff00,2d=5,3130=77,68=9,6d61696e2035=42"      # main, tab, "-", "10", "h", "main 5"


def hx(s):
    b = s.encode("latin-1") if isinstance(s, str) else s
    return b.hex() if b else "-"


def cmd_lines(rng, n):
    """protocol lines for snum / saddr / srange / swrite / sprint / svalid"""
    out = []
    for a in NUM_ATOMS:
        out.append("snum " + hx(a))
        out.append("snum " + hx(" " + a + " 7"))
        out.append("saddr avr8 %s %s" % (SYMS, hx(a)))
        out.append("srange msp430 %s ffff %s" % (SYMS, hx(a + "-" + a)))
        for w in ("8", "16", "32"):
            out.append("swrite %s msp430 - %s" % (w, hx("0x100 " + a + " 5")))
            out.append("swrite %s 68000 %s %s" % (w, SYMS, hx(a + " 1 2")))
    for r in WRAP_RANGES:
        for w in ("8", "16", "32"):
            for cpu in ("msp430", "avr8", "arm", "6502"):
                out.append("sprint %s %s - %s %s" % (w, cpu, rng.choice(["ffff", "ffffffff", "0"]), hx(r)))
    for i in range(n):
        k = rng.randrange(8)
        cpu = rng.choice(CMD_CPUS)
        syms = rng.choice(["-", SYMS])
        if k == 0:
            out.append("snum " + hx(rng.choice([num_string(rng), rand_string(rng)])))
        elif k == 1:
            out.append("saddr %s %s %s" % (cpu, syms, hx(rng.choice([num_string(rng), rand_string(rng)]))))
        elif k == 2:
            out.append("srange %s %s %x %s" % (cpu, syms, rng.choice([0, 0xffff, 0xffffffff, 0x1234]),
                                             hx(rng.choice([range_string(rng), range_string(rng), rand_string(rng)]))))
        elif k in (3, 4):
            addr = rng.choice(["0x100", "0", "0xffffffff", "0xfffffffe", "0xfffc", "1", "3", "main", "tab", "zz", "", "0x7ffffffe"])
            out.append("swrite %s %s %s %s" % (rng.choice(["8", "16", "32"]), cpu, syms,
                                               hx(addr + rng.choice([" ", "  ", ""]) + rng.choice([num_string(rng), rand_string(rng)]))))
        elif k in (5, 6):
            r = rng.choice([print_range(rng), print_range(rng), rng.choice(WRAP_RANGES)])
            out.append("sprint %s %s %s %x %s" % (rng.choice(["8", "16", "32"]), cpu, syms, rng.choice([0, 0xffff, 0x20]), hx(r)))
        else:
            names = ["asm", "break", "call", "clear", "disasm", "display", "dumpram", "dump_ram", "exit", "help", "info", "no_clear",
                     "print", "print16", "print32", "push", "quit", "registers", "reg", "reset", "run", "set", "speed", "step", "stop",
                     "symbols", "write", "write16", "write32", "", "?", "Print", "prin", "print8", "quit ", "x" * 300]
            out.append("svalid %s %s" % (hx(rng.choice(names)), hx(rng.choice(["", "", "1", "x y", " "]))))
    return out


def walk_lines(rng, n):
    """swalk: images in a few pages, ranges incl. the top of the address space"""
    out = []
    pages = [0, 0x10000, 0x20000, 0x7fff0000, 0x80000000, 0xfffe0000, 0xffff0000]
    for i in range(n):
        cells = []
        for p in rng.sample(pages, rng.choice([0, 1, 1, 2, 3])):
            off = rng.choice([0, 1, 0x100, 0xfffe, 0xffff, 0x8000])
            ln = rng.choice([1, 2, 4])
            cells.append("%x:%s" % ((p + off) & 0xffffffff, "ab" * ln))
        cpu = rng.choice(["msp430", "msp430", "avr8", "6502", "tms340", "arm"])
        start = rng.choice(pages + [0x100, 0xffff, 0xffffffff, 0xffff0010])
        end = rng.choice(pages + [0xffff, 0x1ffff, 0xffffffff, 0xfffffffe, 0xffff0000, 0xfffeffff, 0x80000001])
        out.append("swalk %s %s %x %x" % (cpu, ";".join(cells) or "-", start, end))
    return out
