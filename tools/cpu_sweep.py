"""CPU-independent enrolment sweeps over the statement corpus (all CPUs of corpus/statements).

C06: for every statement and every numeric literal N in it, N + 2^k (k in KS) must not be accepted with
the same encoding as N (the pair is never a signed/unsigned spelling of one field value because
N >= 0 and N + 2^k >= 2^k).  The sweep is exhaustive over the corpus, hence deterministic; hits on the
unchanged tree are listed one by one in known_findings_sweep.json.  This is exploration of the
unmodelled back ends, reported as such in the evidence; it is not part of any theorem.
"""
import re, collections
import nvlib, gen_src as S

NUM = re.compile(r"(?<![A-Za-z0-9_$.'])(0x[0-9a-fA-F]+|\d+)(?![A-Za-z0-9_.'])")
KS = [3, 4, 5, 6, 7, 8, 10, 12, 13, 16, 20, 24, 32]
C06_THEOREMS = []
LEAN_MODULES = []
NAME = "corpus sweep (all CPUs, exploration only)"


def c06_lines():
    lines, meta = [], []
    for cpu in S.cpus():
        for st in S.statements(cpu):
            for m in NUM.finditer(st):
                t = m.group(1)
                v = int(t, 16) if t.startswith("0x") else int(t)
                lines.append("asmq %s %s" % (cpu, nvlib.hexs(st)))
                meta.append((cpu, st, m.start(1), None, v))
                for k in KS:
                    st2 = st[:m.start(1)] + ("0x%x" % (v + (1 << k))) + st[m.end(1):]
                    lines.append("asmq %s %s" % (cpu, nvlib.hexs(st2)))
                    meta.append((cpu, st, m.start(1), k, v + (1 << k)))
    return lines, meta


def c06_correspondence(ctx, corr):
    return


def c06_oracle(ctx, orc):
    lines, meta = c06_lines()
    ans = ctx.impl(lines)
    hits = collections.OrderedDict()
    base = None
    accepted = 0
    for (cpu, st, pos, k, v), a in zip(meta, ans):
        orc["cases"] += 1
        if a.startswith("DIED"):
            orc["failures"].append({"sig": "C06:sweep-crash:%s:%s" % (cpu, st), "input": st, "expected": "ok/err",
                                    "observed": a, "what": "assembler crashed on operand value 0x%x" % v})
            continue
        if k is None:
            base = a
            continue
        if a.startswith("ok"):
            accepted += 1
            if a == base:
                hits.setdefault((cpu, st, pos), []).append(k)
    for (cpu, st, pos), ks in hits.items():
        orc["failures"].append({"sig": "C06:trunc:%s:%s@%d" % (cpu, st, pos), "input": ".%s / %s" % (cpu, st),
                                "expected": "different bytes or an error",
                                "observed": "same bytes as the original for the literal + 2^k, k in %s" % ks,
                                "what": "operand silently truncated", "replay_line": "asmq %s %s" % (cpu, nvlib.hexs(st))})
    orc["stats"]["sweep_c06"] = {"statements": len(set((m[0], m[1]) for m in meta)), "variants": len(lines),
                                 "variants_accepted": accepted, "truncations": len(hits)}
