"""CPU-independent sweeps over EVERY back end of cpu_list (exploration of the back ends without a Lean model).

These sweeps use property-level oracles only (never golden outputs) and fixed, seed-independent input sets, so
that the set of failures of the unchanged tree is a fixed list: known_findings_sweep.json names every one of them
(for large classes: the exact member set), a failure outside that list is a VIOLATION.  They are reported as
exploration in the evidence; they are not part of any theorem.  A "CPU module" in the sense of tools/props/C0x.py.

C01  encode -> decode -> encode: every statement of corpus/statements (all CPUs) and variants of its numeric
     literals is assembled (real two-pass assembly), the emitted bytes are walked with the CPU's single-instruction
     disassembler (must consume exactly the bytes), every printed text is assembled again at its address: rejected
     or the same bytes.
C06  a numeric literal N and N + 2^k are never accepted with the same encoding; an accepted boundary value is the
     value the listing shows; the powers of two +-2^k (k = 0..31) a literal position accepts form an interval in k.
C07  decode -> encode -> decode: byte strings (corpus encodings, single-bit flips of them) are disassembled,
     the text is assembled at the same address; if accepted, the new bytes must disassemble to the same text
     (after numeric normalisation).
C08  (a) every CPU x every 16-bit prefix x fixed tail: NUL-terminated text inside the 128-byte buffer, length >= one
     address unit and <= the CPU's longest instruction, text and length independent of the bytes after the length;
     (b) disasm_range over fixed blocks prints exactly the chain of instruction addresses start, start+len, ...
     up to the end; (c) naken_util -disasm over images in several page geometries lists every instruction.
"""
import re, os, json, collections, subprocess, zlib
import nvlib, gen_src as S

NUM = re.compile(r"(?<![A-Za-z0-9_$.'])(0x[0-9a-fA-F]+|\d+)(?![A-Za-z0-9_.'])")
KS = [3, 4, 5, 6, 7, 8, 10, 12, 13, 16, 20, 24, 32]
NEG_KS = [3, 4, 5, 6, 7, 8, 9, 10, 11, 12, 13, 16]
C01_THEOREMS = []
C06_THEOREMS = []
C07_THEOREMS = []
C08_THEOREMS = []
LEAN_MODULES = []
CPU = "all-cpus-sweep"
NAME = "sweep over all CPUs (exploration only)"
MODELLED = ("NOTHING: this part is EXPLORATION, not proof - no Lean model and no theorem; property-level oracles run on the "
            "real code of every back end of cpu_list over fixed input sets (round trips, value tracking, "
            "length/locality/tiling; never golden outputs); a failure that known_findings_sweep.json does not name is a "
            "VIOLATION, the absence of failures proves nothing beyond the inputs that were run")
NOT_MODELLED = ("every back end other than the modelled ones is only explored: corpus statements x boundary values of "
                "their literals, every 16-bit pattern (+ fixed tails, two offsets), three byte blocks per CPU for the "
                "range walk, four CPUs x nine page geometries for naken_util -disasm (tools/cpu_sweep.py, "
                "notes/sweep.md)")
ONLY_CPUS = None      # replay: restrict the sweeps to these CPUs
A0 = 0x1000
TAIL = "00112233445566778899aabbccdd"
HERE = os.path.dirname(os.path.dirname(os.path.abspath(__file__)))


# ---------------------------------------------------------------------------------------------
# known member sets (large failure classes are listed by their exact member set)
# ---------------------------------------------------------------------------------------------
def _ranges_to_set(s):
    out = set()
    if not s:
        return out
    for part in s.split(","):
        if "-" in part:
            a, b = part.split("-")
            out.update(range(int(a, 16), int(b, 16) + 1))
        else:
            out.add(int(part, 16))
    return out


def set_to_ranges(xs):
    xs = sorted(xs)
    out, i = [], 0
    while i < len(xs):
        j = i
        while j + 1 < len(xs) and xs[j + 1] == xs[j] + 1:
            j += 1
        out.append("%04x" % xs[i] if i == j else "%04x-%04x" % (xs[i], xs[j]))
        i = j + 1
    return ",".join(out)


def known_members(prop):
    """sig -> set of members, from known_findings_sweep.json entries that carry a 'members' field"""
    p = os.path.join(HERE, "known_findings_sweep.json")
    out = {}
    if os.path.exists(p):
        for e in json.load(open(p))["entries"]:
            if e.get("property") == prop and "members" in e and e.get("state") == "finding":
                out[e["sig"]] = _ranges_to_set(e["members"])
    return out


def corpus_cpus():
    """CPUs that have a statement corpus; NV_SWEEP_ONLY=<cpu,cpu> restricts them (development aid, never set by a check)"""
    only = os.environ.get("NV_SWEEP_ONLY")
    return [c for c in S.cpus() if (not only or c in only.split(",")) and (ONLY_CPUS is None or c in ONLY_CPUS)]


def heavy(ctx, lines):
    """batch commands (thousands of instructions per line): one shard per core whatever the number of lines, and a
    time limit sized for a loaded machine"""
    return nvlib.run_lines(ctx.harness, lines, timeout=3600, shards=min(nvlib.NPROC, max(1, len(lines))))


def statements(cpu):
    """statements of the corpus (snapshot of tests/comparison) plus corpus/sweep_extra/<cpu>.txt: hand-written
    jumps, branches and calls with NUMERIC targets (the test corpus writes them with labels, which the generators
    skip); data for the sweeps only, statements an assembler rejects are ignored"""
    out = list(S.statements(cpu))
    p = os.path.join(HERE, "corpus", "sweep_extra", cpu + ".txt")
    if os.path.exists(p):
        out += [l.strip() for l in open(p, encoding="latin-1") if l.strip() and l.strip() not in out]
    return out


def cpu_table(ctx):
    """[(name, bytes_per_address)] of every cpu_list entry, from the harness"""
    a = ctx.impl(["cpus"])[0]
    out = []
    for item in a.split(","):
        n, bpa, endian = item.split(":")
        if ONLY_CPUS is None or n in ONLY_CPUS:
            out.append((n, max(1, int(bpa))))
    return out


def _with_replay(orc, prop, start):
    """every failure this module added since index `start` gets a replay record (re-run of the sweep on its CPU)"""
    for f in orc["failures"][start:]:
        p = f["sig"].split(":")
        if len(p) > 2:
            f["replay"] = {"cpu": "sweep", "prop": prop, "only": p[2], "sig": f["sig"]}


# ---------------------------------------------------------------------------------------------
# statements and their variants (shared by C01, C06, C07)
# ---------------------------------------------------------------------------------------------
# Values put in the place of every numeric literal of a corpus statement: the field boundaries 2^k-1, 2^k, -2^k,
# -2^k-1, the 32-bit edges, and far PC-relative targets around the load address (A0 +- 2^k, and 2 inside that).
KB = (3, 4, 5, 6, 7, 8, 11, 12, 15, 16)
EDGES32 = [0x7fffffff, 0x80000000, 0xffffffff, -0x80000000, -0x7fffffff]
BOUNDARY = [f for k in KB for f in ((1 << k) - 1, 1 << k, -(1 << k), -(1 << k) - 1)] + [0, 1] + EDGES32
FAR = [x for k in (8, 11, 12, 16, 20, 21, 22, 24, 25)
       for x in (A0 + (1 << k), A0 - (1 << k), A0 + (1 << k) - 2, A0 - (1 << k) + 2) if x >= 0]
ALLVALS = BOUNDARY + FAR
QUICK_PICKS = 4
# statements whose mnemonic looks like a jump / branch / call: their literal is a target, the quick tier gives them
# every far target (the reach of the offset field is what such encoders and decoders get wrong)
BRANCHLIKE = re.compile(r"^(\w+\s+)?(b|j|c\.j|c\.b|call|rcall|rjmp|acall|ajmp|ljmp|lcall|sjmp|goto|loop|djnz|sob|dbra|lb|br|rj|if_\w+\s+j)", re.I)


def _lit(t, w):
    """value w written in the style of literal token t"""
    if t.startswith("0x"):
        return ("-0x%x" % -w) if w < 0 else "0x%x" % w
    return "%d" % w


def variants(st, thorough):
    """[(text, pos, value)]: the statement itself (pos None) and copies with ONE numeric literal replaced.
    thorough: every value of ALLVALS plus neighbours of the literal; quick: two neighbours, the five 32-bit edge
    values, QUICK_PICKS values of ALLVALS chosen by a hash of the statement text, and every far target for a
    branch-like mnemonic (a subset of the thorough set; nothing depends on the seed)."""
    out = [(st, None, None)]
    h = zlib.crc32(st.encode("latin-1"))
    for li, m in enumerate(NUM.finditer(st)):
        t = m.group(1)
        v = int(t, 16) if t.startswith("0x") else int(t)
        near = [v + 1, v ^ 2, v - 1 if v > 0 else 3, v * 2]
        if thorough:
            vals = near + ALLVALS
        else:
            vals = near[:2] + EDGES32 + [ALLVALS[(h + 7 * li + 13 * j) % len(ALLVALS)] for j in range(QUICK_PICKS)]
            if BRANCHLIKE.match(st):
                vals += FAR
        seen = set([v])
        for w in vals:
            if w in seen:
                continue
            seen.add(w)
            out.append((st[:m.start(1)] + _lit(t, w) + st[m.end(1):], m.start(1), w))
    return out


# A listing may end in an annotation of a PC-relative operand - " (14)", " (offset=-2)" after the target address -
# which is an aid for the reader, not part of the instruction (the assemblers reject it; the seeded demos drop it as
# well).  The round trips assemble the text without it.  Only a trailing, blank-separated, purely decimal annotation
# is removed: "ld a,(500)" keeps its operand.
ANNOT = re.compile(rb"^(.*[^ \t,(]*[0-9][^ \t,(]*)[ \t]+\((offset=)?-?[0-9]+\)[ \t]*$", re.S)


def instr_text(txt):
    """txt without a trailing annotation that follows an operand containing a digit (the target address)"""
    m = ANNOT.match(txt)
    return m.group(1) if m else txt


def walk_bytes(ctx, items):
    """items: list of (key, cpu, addr, bytes).  Walks the single-instruction disassembler over the bytes.
    returns {key: ("ok", [(off, len, text)]) | (kind, detail)}"""
    res = {}
    state = [(k, cpu, addr, b, 0, []) for (k, cpu, addr, b) in items]
    while state:
        lines = ["disx %s %x %s" % (cpu, addr + off, b[off:].hex() or "-") for (k, cpu, addr, b, off, acc) in state]
        ans = ctx.impl(lines)
        nxt = []
        for (k, cpu, addr, b, off, acc), a in zip(state, ans):
            p = a.split()
            if a.startswith("DIED") or p[0] in ("nonul", "bad-op", "MISSING"):
                res[k] = ("dis-crash" if a.startswith("DIED") else "dis-" + p[0], a[:160])
                continue
            n = int(p[0])
            txt = nvlib.unhex(p[1]) if len(p) > 1 else b""
            if isinstance(txt, str):
                txt = txt.encode("latin-1")
            if n <= 0:
                res[k] = ("len<=0", "length %d at offset %d of %s" % (n, off, b.hex()))
                continue
            acc = acc + [(off, n, txt)]
            if off + n == len(b):
                res[k] = ("ok", acc)
            elif off + n > len(b):
                res[k] = ("overrun", "walk over %s consumed %d bytes: %s" % (
                    b.hex(), off + n, "; ".join("%d:%s" % (o, t.decode("latin-1")) for o, l, t in acc)))
            else:
                nxt.append((k, cpu, addr, b, off + n, acc))
        state = nxt
    return res


def round_trip(ctx, thorough):
    """assemble every corpus statement and its variants at A0, walk the disassembler over the emitted bytes,
    assemble every printed text again at its address.
    returns a list of records {cpu, st, text, pos, value, status, bytes, walk: (kind, detail), pieces: [(off, bytes,
    text, answer)]} (status: "ok" | "ok@" | "err" | "DIED ...")"""
    lines, recs = [], []
    for cpu in corpus_cpus():
        for st in statements(cpu):
            for (v, pos, w) in variants(st, thorough):
                lines.append("asm1 %s %x - %s" % (cpu, A0, nvlib.hexs(v)))
                recs.append({"cpu": cpu, "st": st, "text": v, "pos": pos, "value": w})
    ans = ctx.impl(lines)
    items = []
    for i, (r, a) in enumerate(zip(recs, ans)):
        r["status"] = a.split()[0] if not a.startswith("DIED") else a[:160]
        r["bytes"] = bytes.fromhex(a.split()[1]) if a.startswith("ok ") else None
        r["walk"], r["pieces"] = None, []
        if r["bytes"] is not None:
            items.append((i, r["cpu"], A0, r["bytes"]))
    walked = walk_bytes(ctx, items)
    lines2, meta2 = [], []
    for (i, cpu, addr, b) in items:
        recs[i]["walk"] = walked[i]
        if walked[i][0] == "ok":
            for off, n, txt in walked[i][1]:
                lines2.append("asm1 %s %x - %s" % (cpu, A0 + off, instr_text(txt).hex() or "-"))
                meta2.append((i, off, b[off:off + n], txt))
    ans2 = ctx.impl(lines2)
    for (i, off, b, txt), a in zip(meta2, ans2):
        recs[i]["pieces"].append((off, b, txt, a))
    return recs


def piece_verdict(b, a):
    """round-trip verdict of one disassembled piece: same | rejected | crash | diff"""
    if a.startswith("err"):
        return "rejected"
    if a.startswith("ok ") and bytes.fromhex(a.split()[1]) == b:
        return "same"
    if a.startswith("DIED"):
        return "crash"
    return "diff"


# ---------------------------------------------------------------------------------------------
# C01
# ---------------------------------------------------------------------------------------------
def c01_correspondence(ctx, corr):
    return


def c01_oracle(ctx, orc):
    _start = len(orc["failures"])
    _c01_oracle(ctx, orc)
    _with_replay(orc, "C01", _start)


def _c01_oracle(ctx, orc):
    recs = round_trip(ctx, not ctx.quick())
    fails = collections.OrderedDict()

    def fail(r, kind, exp, obs):
        key = (r["cpu"], kind, r["st"])
        if key not in fails:
            fails[key] = {"sig": "C01:sweep:%s:%s:%s" % key, "input": ".%s / %s" % (r["cpu"], r["text"]),
                          "expected": exp, "observed": obs, "what": "all-CPU round-trip sweep: " + kind,
                          "replay_line": "asm1 %s %x - %s" % (r["cpu"], A0, nvlib.hexs(r["text"]))}

    accepted = exact = same = rej = 0
    for r in recs:
        orc["cases"] += 1
        if r["status"].startswith("DIED"):
            fail(r, "asm-crash", "ok/err", r["status"])
        if r["bytes"] is None:
            continue
        accepted += 1
        kind, det = r["walk"]
        if kind != "ok":
            fail(r, kind, "the disassembler consumes exactly the emitted bytes " + r["bytes"].hex(), det)
            continue
        exact += 1
        for off, b, txt, a in r["pieces"]:
            orc["cases"] += 1
            v = piece_verdict(b, a)
            if v == "same":
                same += 1
            elif v == "rejected":
                rej += 1
            elif v == "crash":
                fail(r, "reasm-crash", "ok/err", a[:160])
            else:
                fail(r, "diff", "bytes %s again (or a rejection)" % b.hex(),
                     "%s disassembles to '%s', which assembles to %s" % (b.hex(), txt.decode("latin-1"), a))
    orc["failures"].extend(fails.values())
    orc["stats"]["sweep_c01"] = {"cpus": len(corpus_cpus()), "statements_and_variants": len(recs), "accepted": accepted,
                                 "walk_exact": exact, "texts_reassembled_same": same, "texts_rejected": rej,
                                 "failing_statements": len(fails)}
    orc["distinct_nontrivial"] = orc.get("distinct_nontrivial", 0) + accepted


# ---------------------------------------------------------------------------------------------
# C06
# ---------------------------------------------------------------------------------------------
def c06_lines():
    lines, meta = [], []
    for cpu in corpus_cpus():
        for st in statements(cpu):
            for m in NUM.finditer(st):
                t = m.group(1)
                v = int(t, 16) if t.startswith("0x") else int(t)
                lines.append("asmq %s %s" % (cpu, nvlib.hexs(st)))
                meta.append((cpu, st, m.start(1), None, v))
                for k in KS:
                    st2 = st[:m.start(1)] + ("0x%x" % (v + (1 << k))) + st[m.end(1):]
                    lines.append("asmq %s %s" % (cpu, nvlib.hexs(st2)))
                    meta.append((cpu, st, m.start(1), k, v + (1 << k)))
                # N and N - 2^k with N < 2^(k-1): if both are accepted with the same bytes the field is at most k bits
                # wide (the values agree modulo its width), but then N - 2^k < -2^(k-1) is below the smallest value
                # such a field holds: not the signed spelling of N's field value.  (N >= 2^(k-1) is left out: 200 and
                # -56 ARE the two spellings of one 8 bit value.)
                if m.start(1) > 0 and st[m.start(1) - 1] in "-+":
                    continue
                for k in NEG_KS:
                    if v < (1 << (k - 1)):
                        st2 = st[:m.start(1)] + ("-%d" % ((1 << k) - v)) + st[m.end(1):]
                        lines.append("asmq %s %s" % (cpu, nvlib.hexs(st2)))
                        meta.append((cpu, st, m.start(1), -k, v - (1 << k)))
    return lines, meta


def c06_correspondence(ctx, corr):
    return


def numbers(txt):
    """the numbers of a disassembly text (0x.., $.., ..h, decimal; a leading '-' or '#-' counts as the sign)"""
    out = []
    for m in NUMTOK.finditer(txt):
        t = m.group(1)
        try:
            if t.startswith(b"0x"):
                v = int(t, 16)
            elif t.startswith(b"$"):
                v = int(t[1:], 16)
            elif t.endswith(b"h"):
                v = int(t[:-1], 16)
            else:
                v = int(t)
        except ValueError:
            continue
        if m.start(1) > 0 and txt[m.start(1) - 1:m.start(1)] == b"-":
            v = -v
        out.append(v)
    return out


def same_value(p, w):
    """p and w are spellings of one operand value: equal after reading a value in 2^31..2^32-1 as its 32-bit two's
    complement (0xffffffff is -1, see ASSUMPTIONS of the property modules), or the signed and the unsigned reading of
    the same k-bit pattern whose top bit is set (-1 and 0xff, 0xfffe and -2, ...), 3 <= k <= 32"""
    def readings(x):
        return {x, x - (1 << 32)} if (1 << 31) <= x < (1 << 32) else {x}
    for a in readings(p):
        for b in readings(w):
            if a == b:
                return True
            lo, hi = min(a, b), max(a, b)
            if lo >= 0:
                continue
            for k in range(3, 33):
                if hi - lo == (1 << k) and (1 << (k - 1)) <= hi < (1 << k):
                    return True
    return False


# (3) monotone acceptance.  Model-free and sound for every encoder whose operand check has the form
# "fits iff lo <= v <= hi (and v is a multiple of the alignment)" - a field of any width, signed, unsigned or both
# spellings, an absolute address window, a PC-relative reach around the load address: the powers of two 2^k that such
# a check accepts are the ones between the alignment and the upper bound, an INTERVAL in k (and the same for -2^k and
# the lower bound).  So once a power of two has been rejected after an accepted one, no larger one may be accepted:
# a value far outside the field that is accepted again was wrapped or masked into it (or slipped through a check that
# negates / shifts before it compares).  k runs over 0..31: 2^31 = 0x80000000 and -2^31 are the ends of the 32-bit
# operand domain the property quantifies over (2^32 is outside it; `trunc` above looks at N + 2^32).
POW_K = list(range(0, 32))
# Operands that are no field value but part of the mnemonic (an enumerated selector): the F8 shifts exist as
# SR 1 / SR 4 / SL 1 / SL 4 (opcodes 0x12 0x14 0x13 0x15); "1" and "4" select the opcode, {1, 4} is the instruction set's
# own operand set and both members get different encodings, which is all the property asks of accepted values.
ENUMERATED = {("f8", "sr"), ("f8", "sl")}


POW_QUICK_DIVISOR = 1


def pow_selected(cpu, st, thorough):
    """the statements whose literals are probed (nothing depends on the seed).  All of them in both tiers: the
    223,000 probes of the whole corpus take 7 s; POW_QUICK_DIVISOR = 4 would restrict the quick tier to a quarter
    chosen by a hash of the text"""
    return thorough or zlib.crc32((cpu + "/" + st).encode("latin-1")) % POW_QUICK_DIVISOR == 0


def literal_spans(st):
    """[(start, end)] of the numeric literals of a statement; a unary minus in front of a literal belongs to it"""
    out = []
    for m in NUM.finditer(st):
        a = m.start(1)
        if a > 0 and st[a - 1] == "-" and (a == 1 or st[a - 2] in " \t,#([{=:+*/<>&|^~"):
            a -= 1
        out.append((a, m.end(1), m.start(1)))
    return out


def c06_pow_lines(thorough):
    lines, meta, seen = [], [], set()
    for cpu in corpus_cpus():
        for st in statements(cpu):
            if not pow_selected(cpu, st, thorough) or (cpu, st) in seen or (cpu, st.split()[0].lower()) in ENUMERATED:
                continue
            seen.add((cpu, st))
            for (a, e, pos) in literal_spans(st):
                for sign in (1, -1):
                    for k in POW_K:
                        w = sign << k
                        txt = st[:a] + ("-0x%x" % -w if w < 0 else "0x%x" % w) + st[e:]
                        lines.append("asmq %s %s" % (cpu, nvlib.hexs(txt)))
                        meta.append((cpu, st, pos, sign, k, txt))
    return lines, meta


def c06_monotone(ctx, orc):
    lines, meta = c06_pow_lines(not ctx.quick())
    ans = ctx.impl(lines)
    rows = collections.OrderedDict()
    for (cpu, st, pos, sign, k, txt), a in zip(meta, ans):
        orc["cases"] += 1
        rows.setdefault((cpu, st, pos, sign), []).append((k, txt, a))
    bad = collections.OrderedDict()
    nacc = nrows = 0
    for (cpu, st, pos, sign), row in rows.items():
        if any(a.startswith("DIED") for _, _, a in row):
            continue            # reported by the crash signature of (1) / C16
        acc = [a.startswith("ok") for _, _, a in row]
        nrows += 1
        nacc += sum(acc)
        if True not in acc:
            continue
        first = acc.index(True)
        if False not in acc[first:]:
            continue
        rej = first + acc[first:].index(False)
        again = [row[i] for i in range(rej, len(row)) if acc[i]]
        if not again:
            continue
        key = (cpu, st, pos)
        if key in bad:
            continue
        k2, txt2, a2 = again[0]
        s = "-" if sign < 0 else ""
        bad[key] = {"sig": "C06:sweep:%s:accept-after-reject:%s@%d" % key, "input": ".%s / %s" % (cpu, txt2),
                    "expected": "a value beyond a rejected power of two is rejected as well (fits iff lo <= v <= hi)",
                    "observed": "%s2^k accepted for k = %s, rejected for k = %s, but %s2^%d accepted again: %s" % (
                        s, [k for (k, _, _), x in zip(row, acc) if x and k < row[rej][0]], [k for (k, _, _), x in zip(row, acc) if not x and k >= row[rej][0]],
                        s, k2, a2[:60]),
                    "what": "operand far outside the field accepted (non-monotone range check)",
                    "replay_line": "asmq %s %s" % (cpu, nvlib.hexs(txt2))}
    orc["failures"].extend(bad.values())
    orc["stats"]["sweep_c06_monotone"] = {"literal_rows": nrows, "probes": len(lines), "accepted": nacc, "non_monotone": len(bad)}


def c06_oracle(ctx, orc):
    _start = len(orc["failures"])
    _c06_oracle(ctx, orc)
    _with_replay(orc, "C06", _start)


def _c06_oracle(ctx, orc):
    # (1) a literal N and N + 2^k are never accepted with the same encoding
    lines, meta = c06_lines()
    ans = ctx.impl(lines)
    hits = collections.OrderedDict()
    neg_hits = collections.OrderedDict()
    base = None
    accepted = 0
    for (cpu, st, pos, k, v), a in zip(meta, ans):
        orc["cases"] += 1
        if a.startswith("DIED"):
            orc["failures"].append({"sig": "C06:sweep-crash:%s:%s" % (cpu, st), "input": st, "expected": "ok/err",
                                    "observed": a, "what": "assembler crashed on operand value 0x%x" % v})
            continue
        if k is None:
            base = a
            continue
        if a.startswith("ok"):
            accepted += 1
            if a == base:
                (hits if k > 0 else neg_hits).setdefault((cpu, st, pos), []).append(abs(k))
    for (cpu, st, pos), ks in hits.items():
        orc["failures"].append({"sig": "C06:trunc:%s:%s@%d" % (cpu, st, pos), "input": ".%s / %s" % (cpu, st),
                                "expected": "different bytes or an error",
                                "observed": "same bytes as the original for the literal + 2^k, k in %s" % ks,
                                "what": "operand silently truncated", "replay_line": "asmq %s %s" % (cpu, nvlib.hexs(st))})
    for (cpu, st, pos), ks in neg_hits.items():
        if (cpu, st, pos) in hits:
            continue
        orc["failures"].append({"sig": "C06:trunc-neg:%s:%s@%d" % (cpu, st, pos), "input": ".%s / %s" % (cpu, st),
                                "expected": "different bytes or an error",
                                "observed": "same bytes as the original for the literal - 2^k (below -2^(k-1)), k in %s" % ks,
                                "what": "two operand values that are not spellings of one field value share an encoding",
                                "replay_line": "asmq %s %s" % (cpu, nvlib.hexs(st))})
    # (2) an accepted boundary value is the value that was encoded.  For a literal that the listing TRACKS (the
    # listing of the original statement and of its accepted neighbours v+1, v^2 shows their values) the listing of an
    # accepted boundary value w (w not 0 or 1: listings leave those out) must show w or its signed/unsigned alias.
    # If it shows another value and that listing assembles to the very same bytes, the encoder gave two different
    # operand values one encoding; if it shows no instruction at all ('???'), the value ran into the opcode bits.
    # (A listing that assembles to OTHER bytes is a disagreement of decoder and encoder: C01's business.)
    recs = round_trip(ctx, not ctx.quick())

    def listing(r):
        return [txt for off, n_, txt in r["walk"][1]]

    def shows(r, value):
        return any(same_value(n, value) for txt in listing(r) for n in numbers(txt))

    by_lit = collections.defaultdict(list)
    base = {}
    for r in recs:
        if r["bytes"] is None or not r["walk"] or r["walk"][0] != "ok":
            continue
        if r["pos"] is None:
            base[(r["cpu"], r["st"])] = r
        else:
            by_lit[(r["cpu"], r["st"], r["pos"])].append(r)
    altered = collections.OrderedDict()
    checked = tracked = 0
    for key, rs in by_lit.items():
        cpu, st, pos = key
        b = base.get((cpu, st))
        if b is None:
            continue
        m = NUM.match(st, pos)
        t = m.group(1)
        v = int(t, 16) if t.startswith("0x") else int(t)
        near = [r for r in rs if r["value"] in (v + 1, v ^ 2) and r["value"] not in (0, 1)]
        if v in (0, 1) or not shows(b, v) or not near or not all(shows(r, r["value"]) for r in near):
            continue
        tracked += 1
        for r in rs:
            w = r["value"]
            orc["cases"] += 1
            if w in (0, 1) or shows(r, w):
                continue
            checked += 1
            texts = "; ".join(x.decode("latin-1") for x in listing(r))
            verdicts = [piece_verdict(bb, a) for off, bb, txt, a in r["pieces"]]
            if any((not x) or b"?" in x for x in listing(r)):
                why = "operand %d (0x%x) accepted, emitted %s, which is listed as '%s': no instruction" % (
                    w, w & 0xffffffff, r["bytes"].hex(), texts)
            elif verdicts and all(x == "same" for x in verdicts):
                why = "operand %d (0x%x) accepted, emitted %s = '%s', the encoding of another operand value" % (
                    w, w & 0xffffffff, r["bytes"].hex(), texts)
            else:
                continue
            if key not in altered:
                altered[key] = {"sig": "C06:sweep:%s:altered:%s@%d" % key, "input": ".%s / %s" % (cpu, r["text"]),
                                "expected": "the operand value is encoded exactly or rejected",
                                "observed": why, "what": "operand value altered by the encoder",
                                "replay_line": "asm1 %s %x - %s" % (cpu, A0, nvlib.hexs(r["text"]))}
    orc["failures"].extend(altered.values())
    orc["stats"]["sweep_c06"] = {"statements": len(set((m[0], m[1]) for m in meta)), "variants": len(lines),
                                 "variants_accepted": accepted, "truncations": len(hits),
                                 "boundary_variants": len(recs), "literals_tracked_by_the_listing": tracked,
                                 "boundary_values_not_shown": checked,
                                 "altered": len(altered)}
    orc["distinct_nontrivial"] = orc.get("distinct_nontrivial", 0) + accepted
    c06_monotone(ctx, orc)


# ---------------------------------------------------------------------------------------------
# C07
# ---------------------------------------------------------------------------------------------
NUMTOK = re.compile(rb"(?<![A-Za-z0-9_$.])(0x[0-9a-fA-F]+|\$[0-9a-fA-F]+|[0-9][0-9a-fA-F]*h|\d+)(?![A-Za-z0-9_])")


def normalise(txt):
    def rep(m):
        t = m.group(1)
        try:
            if t.startswith(b"0x"):
                v = int(t, 16)
            elif t.startswith(b"$"):
                v = int(t[1:], 16)
            elif t.endswith(b"h"):
                v = int(t[:-1], 16)
            else:
                v = int(t)
        except ValueError:
            return t
        return b"%d" % v
    return b" ".join(NUMTOK.sub(rep, txt).lower().replace(b",", b" , ").split())


def shape(txt):
    """failure class of an instruction text: the text with every run of digits (numbers, and the numbers inside
    register names) replaced by '#': mnemonic, operand structure, named registers; not the register numbers"""
    t = NUMTOK.sub(b"#", txt).lower()
    return b" ".join(re.sub(rb"[0-9]+", b"#", t).replace(b",", b" , ").split()).decode("latin-1")


def mnemonic(txt):
    p = txt.split()
    return p[0].decode("latin-1") if p else ""


def c07_correspondence(ctx, corr):
    return


# Input sets of the exhaustive decode -> encode -> decode pass: (tag, address, tail, offset of the 16-bit pattern, k).
# quick: the first instruction of every shape per 8192 patterns; thorough: every distinct instruction, and a
# second tail.  (quick is a subset of thorough: same patterns, k-limited)
def c07_configs(thorough):
    if thorough:
        return [("", A0, TAIL, 0, 0), ("@2", A0, TAIL, 2, 0), ("@t2", A0, TAIL2, 0, 0)]
    return [("", A0, TAIL, 0, 1), ("@2", A0, TAIL, 2, 1)]


RT_CHUNK = 8192


def c07_prefix_pass(ctx, orc, fails):
    cpus = cpu_table(ctx)
    tot = collections.Counter()
    for tag, addr, tail, off, k in c07_configs(not ctx.quick()):
        sel = [c for c, b in cpus if off == 0 or MAXLEN.get(c, 0) >= 4]
        # chunk-major order: neighbouring work items belong to different CPUs (even load of the parallel shards)
        work = [(c, fr) for fr in range(0, 65536, RT_CHUNK) for c in sel]
        ans = heavy(ctx, ["rtxb %s %x %s %d %d %d %d" % (c, addr, tail, fr, fr + RT_CHUNK, off, k) for c, fr in work])
        for (c, fr), a in zip(work, ans):
            if not a.startswith("n="):
                fails.setdefault((c, "harness-died", tag), {
                    "sig": "C07:sweep:%s:harness-died%s" % (c, tag), "input": ".%s patterns %x.. offset %d" % (c, fr, off),
                    "expected": "an answer", "observed": a[:160], "what": "harness died in the prefix pass"})
                continue
            d = dict(x.split("=", 1) for x in a.split())
            for key in ("n", "uniq", "acc", "same", "more", "unexplored"):
                tot[key] += int(d[key])
            orc["cases"] += int(d["uniq"])
            if int(d["unexplored"]) or int(d["more"]):
                fails.setdefault((c, "unexplored", tag), {
                    "sig": "C07:sweep:%s:unexplored%s" % (c, tag), "input": ".%s patterns %x.. offset %d" % (c, fr, off),
                    "expected": "every pattern is processed", "observed": "unexplored=%s more=%s" % (d["unexplored"], d["more"]),
                    "what": "so many crashes/hangs (or differing re-encodings) that the pass gave up on part of the range"})
            if d["rec"] == "-":
                continue
            for rec in d["rec"].split(";"):
                f = rec.split(",")
                pat = int(f[0], 16)
                bb = bytes.fromhex(tail)
                bb = bb[:off] + bytes([pat >> 8, pat & 0xff]) + bb[off:]
                rl = "disx %s %x %s" % (c, addr, bb.hex())
                if len(f) == 2:
                    key = (c, "asm-" + f[1], "%04x" % pat)
                    fails.setdefault(key, {"sig": "C07:sweep:%s:asm-%s%s:%04x" % (c, f[1], tag, pat), "input": ".%s bytes %s at 0x%x" % (c, bb.hex(), addr),
                                           "expected": "the assembler accepts or rejects the disassembly text",
                                           "observed": "assembler/disassembler %s" % f[1], "what": "crash or hang while assembling a disassembly text",
                                           "replay_line": rl})
                    continue
                t1, b2, t2 = nvlib.unhex(f[1]), nvlib.unhex(f[2]), nvlib.unhex(f[3])
                tot["other_bytes"] += 1
                if normalise(t1) == normalise(t2):
                    continue
                key = (c, shape(t1), shape(t2))
                fails.setdefault(key, {"sig": "C07:sweep:%s:%s->%s" % key, "input": ".%s bytes %s at 0x%x = '%s'" % (c, bb.hex(), addr, t1.decode("latin-1")),
                                       "expected": "re-assembled bytes disassemble to the same instruction",
                                       "observed": "assembled to %s = '%s'" % (b2.hex(), t2.decode("latin-1")),
                                       "what": "all-CPU decode->encode->decode sweep (16-bit patterns)", "replay_line": rl})
    return dict(tot)


def c07_oracle(ctx, orc):
    _start = len(orc["failures"])
    _c07_oracle(ctx, orc)
    _with_replay(orc, "C07", _start)


def _c07_oracle(ctx, orc):
    thorough = not ctx.quick()
    fails = collections.OrderedDict()
    # (1) byte strings from the corpus: encodings of the statements and of their boundary variants, single-bit flips
    lines, meta = [], []
    for cpu in corpus_cpus():
        for st in statements(cpu):
            for (v, pos, w) in variants(st, thorough):
                lines.append("asm1 %s %x - %s" % (cpu, A0, nvlib.hexs(v)))
                meta.append((cpu, st, pos))
    ans = ctx.impl(lines)
    words = collections.OrderedDict()
    for (cpu, st, pos), a in zip(meta, ans):
        if not a.startswith("ok "):
            continue
        b = bytes.fromhex(a.split()[1])
        words.setdefault((cpu, b), st)
        if pos is not None:
            continue
        nbits = min(len(b), 4) * 8
        h = sum(b) + len(st)
        flips = range(nbits) if thorough else sorted(set((h + 5 * j) % nbits for j in range(4)))
        for bit in flips:
            c = bytearray(b)
            c[bit // 8] ^= 1 << (bit % 8)
            words.setdefault((cpu, bytes(c) + bytes.fromhex(TAIL)[:4]), st)
    keys = list(words)
    ans = ctx.impl(["disx %s %x %s" % (cpu, A0, b.hex()) for cpu, b in keys])
    lines2, meta2 = [], []
    for (cpu, b), a in zip(keys, ans):
        orc["cases"] += 1
        p = a.split()
        if a.startswith("DIED") or p[0] in ("nonul", "bad-op", "MISSING") or int(p[0]) <= 0 or len(p) < 2:
            continue            # C08's business
        n = int(p[0])
        txt = nvlib.unhex(p[1])
        txt = txt.encode("latin-1") if isinstance(txt, str) else txt
        lines2.append("asm1 %s %x - %s" % (cpu, A0, instr_text(txt).hex() or "-"))
        meta2.append((cpu, b[:n], txt))
    ans2 = ctx.impl(lines2)
    lines3, meta3 = [], []
    acc = 0
    for (cpu, b, txt), a in zip(meta2, ans2):
        if a.startswith("DIED"):
            key = (cpu, "asm-crash", mnemonic(txt))
            fails.setdefault(key, {"sig": "C07:sweep:%s:asm-crash:%s" % (cpu, mnemonic(txt)), "input": txt.decode("latin-1"),
                                   "expected": "ok/err", "observed": a[:160], "what": "assembler crashed on disassembly text",
                                   "replay_line": "asm1 %s %x - %s" % (cpu, A0, txt.hex())})
            continue
        if not a.startswith("ok "):
            continue
        acc += 1
        b2 = bytes.fromhex(a.split()[1])
        if b2 == b:
            continue            # same bytes: same instruction
        lines3.append("disx %s %x %s" % (cpu, A0, b2.hex()))
        meta3.append((cpu, b, txt, b2))
    ans3 = ctx.impl(lines3)
    for (cpu, b, txt, b2), a in zip(meta3, ans3):
        orc["cases"] += 1
        p = a.split()
        txt2 = b""
        if len(p) > 1 and not a.startswith("DIED") and p[0] not in ("nonul", "bad-op"):
            t = nvlib.unhex(p[1])
            txt2 = t.encode("latin-1") if isinstance(t, str) else t
        if normalise(txt2) == normalise(txt):
            continue
        key = (cpu, shape(txt), shape(txt2))
        fails.setdefault(key, {"sig": "C07:sweep:%s:%s->%s" % key, "input": ".%s bytes %s = '%s'" % (cpu, b.hex(), txt.decode("latin-1")),
                               "expected": "re-assembled bytes disassemble to the same instruction",
                               "observed": "assembled to %s = '%s'" % (b2.hex(), txt2.decode("latin-1")),
                               "what": "all-CPU decode->encode->decode sweep", "replay_line": "disx %s %x %s" % (cpu, A0, b.hex())})
    # (2) every 16-bit pattern of every CPU
    pp = c07_prefix_pass(ctx, orc, fails)
    orc["failures"].extend(fails.values())
    orc["stats"]["sweep_c07"] = {"corpus_byte_strings": len(keys), "texts_accepted": acc, "reassembled_to_other_bytes": len(lines3),
                                 "prefix_pass": pp, "failing_classes": len(fails)}
    orc["distinct_nontrivial"] = orc.get("distinct_nontrivial", 0) + acc + pp.get("acc", 0)


# ---------------------------------------------------------------------------------------------
# C08
# ---------------------------------------------------------------------------------------------
# The longest instruction of every back end in BYTES, written by hand from the instruction-set definitions (and, for
# the back ends that implement only part of an ISA, from the longest form the back end encodes); it is NOT derived
# from what the disassembler returns.  Family members share the entry of their disassembler.
MAXLEN = {
    "1802": 3, "4004": 2, "6502": 3, "65816": 4, "65832": 4, "6800": 3, "68000": 10, "6809": 5, "68hc08": 4, "8008": 3,
    "8041": 2, "8048": 2, "8051": 3, "86000": 3, "agc": 4, "arc": 8, "arm": 4, "arm64": 4, "avr8": 4, "cell": 4,
    "copper": 4, "cp1610": 6, "dotnet": 9, "dspic": 8, "pic24": 8, "ebpf": 16, "epiphany": 4, "f100_l": 6, "f8": 3,
    "java": 6, "lc3": 2, "m8c": 3, "mips": 4, "mips32": 4, "n64_rsp": 4, "pic32": 4, "ps2_ee": 4, "msp430": 6,
    "msp430x": 8, "pdk13": 2, "pdk14": 2, "pdk15": 2, "pdk16": 2, "pdp11": 6, "pdp8": 2, "pic14": 2, "pic18": 4,
    "powerpc": 4, "propeller": 4, "propeller2": 4, "ps2_ee_vu0": 4, "ps2_ee_vu1": 4, "riscv": 4, "riscv64": 4,
    "sh4": 2, "sparc": 4, "stm8": 5, "super_fx": 4, "sweet16": 3, "thumb": 4, "tms1000": 1, "tms1100": 1,
    "tms340": 10, "tms9900": 6, "unsp": 4, "webasm": 11, "xtensa": 3, "z80": 4,
}


def maxlen_table():
    return MAXLEN


def disxb_all(ctx, cpus, addr, off=0, tail=TAIL, chunk=4096):
    """every 16-bit pattern at byte offset `off` of the instruction, for the named CPUs.
    returns {cpu: {"bad": {kind: {pattern: len}}, "max": n, "n": count, "lens": histogram, "unexplored": n}}
    (the harness survives a crashing decoder: kinds crash/hang; after 8 crashes in a chunk of 4096 patterns the rest
    of the chunk is counted as unexplored)"""
    res = {c: {"bad": collections.defaultdict(dict), "max": 0, "n": 0, "lens": collections.Counter(), "unexplored": 0,
               "died": []} for c, _ in cpus}
    work = [(c, fr, fr + chunk) for fr in range(0, 65536, chunk) for c, _ in cpus]
    ans = heavy(ctx, ["disxb %s %x %s %d %d %d" % (c, addr, tail, fr, to, off) for c, fr, to in work])
    for (c, fr, to), a in zip(work, ans):
        if not a.startswith("n="):
            res[c]["died"].append((fr, to, a[:160]))      # the harness itself died (not the forked worker)
            res[c]["unexplored"] += to - fr
            continue
        d = dict(x.split("=", 1) for x in a.split())
        res[c]["n"] += int(d["n"])
        res[c]["max"] = max(res[c]["max"], int(d["max"]))
        res[c]["unexplored"] += int(d["unexplored"])
        if d["bad"] != "-":
            for b in d["bad"].split(";"):
                p, k, l = b.split(":")
                res[c]["bad"][k][int(p, 16)] = int(l)
        if d["lens"] != "-":
            for x in d["lens"].split(","):
                l, n = x.split(":")
                res[c]["lens"][int(l)] += int(n)
    return res


def lcg_block(seed, n):
    out = bytearray()
    x = seed & 0xffffffff
    for _ in range(n):
        x = (x * 1664525 + 1013904223) & 0xffffffff
        out.append((x >> 16) & 0xff)
    return bytes(out)


def c08_correspondence(ctx, corr):
    return


# Input sets of the single-instruction sweep: (tag, load address, tail bytes, offset of the swept 16-bit pattern).
# Offset 0 for every CPU; offset 2 as well (the upper half-word of a little-endian 32-bit word, where those ISAs keep
# their opcode bits) for every CPU whose instructions reach 4 bytes.  The thorough tier adds a second tail (operand
# bytes that select the long forms: 0x89 = 6809 16-bit offset post byte, 0xff/0x80 sign boundaries) and a second load
# address (2 bytes below 64 KiB).  Fixed lists: quick is a prefix of thorough, nothing depends on the seed.
TAIL2 = "89ff80017fc3e55a0ff01e2d3c4b"
A1 = 0xfffe


def c08_configs(thorough):
    cfg = [("", A0, TAIL, 0), ("@2", A0, TAIL, 2)]
    if thorough:
        cfg += [("@t2", A0, TAIL2, 0), ("@a2", A1, TAIL, 0), ("@t2a2o2", A1, TAIL2, 2)]
    return cfg


WALK_BLOCKS = [(0x1000, 192), (0xff40, 256), (0x20000 - 64, 96)]
KIND_TEXT = {"short": "length >= one address unit",
             "nonlocal": "text and length independent of the bytes after the instruction",
             "nonul": "NUL-terminated text inside the 128-byte buffer",
             "crash": "the disassembler returns", "hang": "the disassembler returns within 20 s"}


def leb_signed32(blk, pos):
    """(value as the C code keeps it in an int, bytes read): LEB128 as disasm/webasm.cpp reads it (at most 10 bytes;
    bytes past the block read as 0)"""
    num, shift, n = 0, 0, 0
    while n < 10:
        ch = blk[pos + n] if pos + n < len(blk) else 0
        n += 1
        num |= (ch & 0x7f) << shift
        shift += 7
        if not ch & 0x80:
            break
    if shift < 64 and num & (1 << (shift - 1)):
        num -= 1 << shift
    num &= 0xffffffff
    return (num - (1 << 32) if num & 0x80000000 else num), n


def line_address(c, bpa, head):
    """byte address named by the text before the ':' of a listing line of disasm_range_<c>; None if the line is not
    an address line (headings such as 'Vectors:')"""
    h = head.strip()
    try:
        if c in ("agc", "pdp8"):                      # "0%04o": octal word address
            return int(h, 8) * bpa if re.fullmatch(r"0[0-7]+", h) else None
        if c == "pdp11":                              # "0%04x": hex byte address after a literal 0
            return int(h[1:], 16) if re.fullmatch(r"0[0-9a-f]{4,}", h) else None
        if c in ("tms1000", "tms1100"):               # "%03x|%-2d [chapter/]page/lsfr": linear address first
            m = re.fullmatch(r"([0-9a-f]+)\|\d+ +[0-9a-f]+/[0-9a-f]+(/[0-9a-f]+)?", h)
            return int(m.group(1), 16) if m else None
        if re.fullmatch(r"0x[0-9a-fA-F]+", h):
            return int(h, 16) * bpa
    except ValueError:
        pass
    return None


def line_step(c, ad, start, end, blk, lens):
    """bytes covered by the listing line that disasm_range prints at byte address `ad` (None: unknown length).
    One line = one instruction of the single-instruction disassembler, except for the three listing formats below."""
    n = lens.get(ad)
    if n is None or n <= 0:
        return None
    if c in ("msp430", "msp430x") and 0xffe0 <= ad <= 0xffff:
        return 2                     # the interrupt vector table is listed as 16 words, one per line
    if c in ("ps2_ee_vu0", "ps2_ee_vu1"):
        m = lens.get(ad + 4)         # a VU instruction is the pair lower (ad) / upper (ad + 4) word: one line
        return n + m if m and m > 0 else None
    if c == "webasm" and blk[ad - start] == 0x0e:
        # br_table: the instruction line covers opcode + count, the entries follow on lines without address
        count, k = leb_signed32(blk, ad - start + 1)
        pos, i = ad + 1 + k, 0
        while i < count and pos <= end:
            _, k2 = leb_signed32(blk, pos - start)
            pos += k2
            i += 1
        return pos - ad
    return n


def c08_oracle(ctx, orc):
    _start = len(orc["failures"])
    _c08_oracle(ctx, orc)
    _with_replay(orc, "C08", _start)


def _c08_oracle(ctx, orc):
    cpus = cpu_table(ctx)
    maxlen = maxlen_table()
    known = known_members("C08")
    stats = {"cpus": len(cpus), "patterns_per_cpu_and_offset": 65536, "instructions": 0, "bad_by_kind": collections.Counter()}
    skip_walk = set()
    full = {}       # sig -> {pattern: length}: complete member sets (tools/sweep_regen.py writes them down)
    for tag, addr, tail, off in c08_configs(not ctx.quick()):
        sel = [(c, b) for c, b in cpus if off == 0 or maxlen.get(c, 0) >= 4]
        res = disxb_all(ctx, sel, addr, off, tail)
        stats["cpus_in_set_%s" % (tag or "base")] = len(sel)
        for c, bpa in sel:
            r = res[c]
            orc["cases"] += r["n"]
            stats["instructions"] += r["n"]
            if r["max"] > maxlen.get(c, 0):
                orc["failures"].append({"sig": "C08:sweep:%s:toolong%s:%d" % (c, tag, r["max"]),
                                        "input": ".%s all 16-bit patterns at offset %d, tail %s, address 0x%x" % (c, off, tail, addr),
                                        "expected": "length <= %d (the CPU's longest instruction)" % maxlen.get(c, 0),
                                        "observed": "length %d" % r["max"], "what": "instruction length above the CPU's maximum"})
            if r["unexplored"]:
                orc["failures"].append({"sig": "C08:sweep:%s:unexplored%s" % (c, tag),
                                        "input": ".%s 16-bit patterns at offset %d, tail %s, address 0x%x" % (c, off, tail, addr),
                                        "expected": "every pattern is disassembled",
                                        "observed": "%d patterns not reached: more than 8 crashes per 4096 patterns%s" % (
                                            r["unexplored"], "; harness died: %s" % (r["died"][:2],) if r["died"] else ""),
                                        "what": "the disassembler crashes on so many patterns that the sweep gave up"})
            for kind, members in r["bad"].items():
                stats["bad_by_kind"][kind] += len(members)
                if kind in ("short", "crash", "hang"):
                    skip_walk.add(c)
                sig = "C08:sweep:%s:%s%s" % (c, kind, tag)
                full[sig] = dict(members)
                new = sorted(set(members) - known.get(sig, set()))
                if len(new) < len(members):
                    orc["failures"].append({"sig": sig, "input": ".%s patterns %s" % (c, set_to_ranges(set(members) - set(new))[:300]),
                                            "expected": KIND_TEXT.get(kind, kind), "observed": kind, "what": "known class"})
                for p in new[:8]:
                    b = bytes.fromhex(tail)
                    b = b[:off] + bytes([p >> 8, p & 0xff]) + b[off:]
                    orc["failures"].append({
                        "sig": "%s:%04x" % (sig, p), "input": ".%s bytes %s at 0x%x" % (c, b.hex(), addr),
                        "expected": KIND_TEXT.get(kind, kind) + (" (%d)" % bpa if kind == "short" else ""),
                        "observed": "%s (%s)" % (kind, members[p]), "what": "single-instruction disassembly: " + kind,
                        "replay_line": "disx %s %x %s" % (c, addr, b.hex())})
    orc["_c08_members"] = full
    # (b) range walk: the address column is the chain start, start + line, ... up to the end
    wl, wm = [], []
    for c, bpa in cpus:
        if c in skip_walk:
            continue
        for bi, (start, n) in enumerate(WALK_BLOCKS):
            blk = lcg_block(0x1234567 + bi * 977 + sum(map(ord, c)), n)
            wl.append("walkx %s %x %x %s" % (c, start, start + n - 1, blk.hex()))
            wm.append((c, bpa, start, blk))
    wa = ctx.impl(wl)
    dl, dm = [], []
    for (c, bpa, start, blk) in wm:
        for ad in range(start, start + len(blk), bpa):
            dl.append("disx %s %x %s" % (c, ad, blk[ad - start:].hex()))
            dm.append((c, start, ad))
    da = ctx.impl(dl)
    lens = collections.defaultdict(dict)
    for (c, start, ad), a in zip(dm, da):
        p = a.split()
        if len(p) == 2 and p[0] == "nonul":
            p = p[1:]               # the missing NUL is reported by the single-instruction sweep; the length stands
        lens[(c, start)][ad] = int(p[0]) if p and p[0].lstrip("-").isdigit() else None
    walks = 0
    for (c, bpa, start, blk), a in zip(wm, wa):
        orc["cases"] += 1
        end = start + len(blk) - 1
        rl = "walkx %s %x %x %s" % (c, start, end, blk.hex())
        if a.startswith("DIED") or a in ("bad-op", "MISSING"):
            orc["failures"].append({"sig": "C08:sweep:%s:walk-crash:%x" % (c, start), "input": ".%s range 0x%x" % (c, start),
                                    "expected": "the range walk returns", "observed": a[:160], "what": "disasm_range died / hung",
                                    "replay_line": rl})
            continue
        walks += 1
        heads = [] if a == "-" else [nvlib.unhex(x) for x in a.split(",")]
        heads = [h.decode("latin-1") if isinstance(h, bytes) else h for h in heads]
        printed = [x for x in (line_address(c, bpa, h) for h in heads) if x is not None]
        # expected instruction lines
        exp, ad, why = [], start, None
        while ad <= end:
            exp.append(ad)
            st = line_step(c, ad, start, end, blk, lens[(c, start)])
            if st is None:
                why = "single-instruction disassembler gives no positive length at 0x%x" % ad
                break
            ad += st
        if why is None:
            es = set(exp)
            if any(y <= x for x, y in zip(printed, printed[1:])):
                why = "address column not strictly increasing"
            elif [x for x in exp if x not in set(printed)]:
                why = "instruction address 0x%x not printed" % [x for x in exp if x not in set(printed)][0]
            else:
                # every other printed address must be a continuation line inside the instruction before it
                bounds = exp + [ad]
                import bisect
                for x in printed:
                    if x in es:
                        continue
                    k = bisect.bisect_right(exp, x) - 1
                    if k < 0 or not (bounds[k] < x < bounds[k + 1]):
                        why = "address 0x%x printed outside the range / chain" % x
                        break
        if why is not None:
            orc["failures"].append({
                "sig": "C08:sweep:%s:walk-tiling:%x" % (c, start), "input": ".%s range 0x%x-0x%x over %s" % (c, start, end, blk.hex()[:64]),
                "expected": "instruction lines at %s... (every unit once, increasing, up to the end)" % ",".join("%x" % x for x in exp[:12]),
                "observed": "%s; printed %s..." % (why, ",".join("%x" % x for x in printed[:12])),
                "what": "disasm_range does not print the chain start, start+len, ... up to the end",
                "replay_line": rl})
    stats["range_walks"] = walks
    stats["walk_skipped_cpus"] = sorted(skip_walk)
    # (c) naken_util -disasm page geometry
    stats["util_disasm_runs"] = util_page_walk(ctx, orc)
    stats["bad_by_kind"] = dict(stats["bad_by_kind"])
    orc["stats"]["sweep_c08"] = stats
    orc["distinct_nontrivial"] = orc.get("distinct_nontrivial", 0) + stats["instructions"]


UTIL_CPUS = [("msp430", bytes([0x03, 0x43]), 1), ("z80", bytes([0x00]), 1), ("arm", bytes([0x00, 0x00, 0xa0, 0xe1]), 1),
             ("avr8", bytes([0x00, 0x00]), 2)]
GEOMETRIES = [(0x0, 0x100), (0x8000, 0x8100), (0x8000, 0x10100), (0xfff0, 0x40), (0x1fffc, 0x8), (0xff00, 0x10080),
              (0x10000, 0x10000), (0x7ffc, 0x20008), (0xc000, 0x14004),
              # the last pages of the address space (page arithmetic in 32 bits wraps here); the image ends below
              # 0xffffffff because the per-CPU range loops never end there (known finding of C17)
              (0xffff0000, 0x8000), (0xfffeff00, 0x200), (0xffff7ffc, 0x40)]


def util_page_walk(ctx, orc):
    tmp = ctx.tmpdir()
    runs = 0
    for cpu, nop, bpa in UTIL_CPUS:
        if ONLY_CPUS is not None and cpu not in ONLY_CPUS:
            continue
        for gi, (start, size) in enumerate(GEOMETRIES):
            size -= size % len(nop)
            path = os.path.join(tmp, "pw_%s_%d.bin" % (cpu, gi))
            open(path, "wb").write(nop * (size // len(nop)))
            try:
                # -address is the BYTE address the image is placed at (fileio/read_bin.cpp); the listing prints address units
                r = subprocess.run([ctx.repo["naken_util"], "-disasm", "-" + cpu, "-bin", "-address", "0x%x" % start, path],
                                   stdout=subprocess.PIPE, stderr=subprocess.PIPE, env=nvlib.SAN_ENV, timeout=120)
                out, rc = r.stdout.decode("latin-1"), r.returncode
            except subprocess.TimeoutExpired:
                out, rc = "", -999
            runs += 1
            orc["cases"] += 1
            addrs = []
            for line in out.split("\n"):
                m = re.match(r"^0x([0-9a-fA-F]+):", line)
                if m:
                    addrs.append(int(m.group(1), 16) * bpa)
            exp = list(range(start, start + size, len(nop)))
            if rc != 0 or addrs != exp:
                miss = sorted(set(exp) - set(addrs))
                extra = [a for a in addrs if a not in set(exp)]
                dup = len(addrs) - len(set(addrs))
                orc["failures"].append({
                    "sig": "C08:util-disasm:%s:%x+%x" % (cpu, start, size),
                    "input": "naken_util -disasm -%s -bin -address 0x%x (image of %d bytes of nop)" % (cpu, start, size),
                    "expected": "every instruction address %x..%x listed once, in order" % (start, start + size - len(nop)),
                    "observed": "rc=%d, %d lines, %d missing (first %s), %d unexpected, %d repeated" % (
                        rc, len(addrs), len(miss), ["%x" % x for x in miss[:3]], len(extra), dup),
                    "what": "whole-image disassembly does not tile the image",
                    })
    return runs


def replay(ctx, r):
    """re-run the sweep of the recorded property on the recorded CPU; the failures with the recorded signature"""
    global ONLY_CPUS
    if r.get("kind") == "util":          # records written before replay records were uniform
        r = {"prop": "C08", "only": r.get("util_cpu"), "sig": None}
    ONLY_CPUS = set([r["only"]])
    try:
        orc = {"cases": 0, "failures": [], "stats": {}}
        globals()["_" + r["prop"].lower() + "_oracle"](ctx, orc)
    finally:
        ONLY_CPUS = None
    return [f for f in orc["failures"] if r.get("sig") is None or f["sig"] == r["sig"] or f["sig"].startswith(r["sig"] + ":")]
