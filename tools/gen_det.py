"""Programs of the statement subset modelled by lean/NakenVerif/Determinism (property C13).

A program is a list of nodes:
  ('label', n) ('cpu', idx, name) ('endian', big) ('seg', bss) ('org', a) ('db', [bytes]) ('dw', opd) ('dd', opd)
  ('resb', n) ('define', n, v) ('list',) ('mov', reg, opd)
  ('ifdef', neg, n, then_list, else_list | None) ('repeat', count, body) ('include', body)
  opd = ('lit', v) | ('sym', n)
`wire(prog)` gives the tokens of the Lean driver's `det` command, `source(prog)` the naken_asm text (+ include
files).  Generation is grammar directed; the classes that matter for C13 are forced with fixed shares:
statements in front of the first .<cpu> directive, byte order / segment switches after data, forward
references (pass-1 placeholders and MSP430 flag bytes), conditionals on names defined later (the two passes take
different branches), .repeat, nested .include, .list.
"""

NAMES = 12


def name(n):
    return "n%d" % n


def opd_src(o):
    if o[0] == "sym":
        return name(o[1])
    v = o[1]
    return str(v) if -10 < v < 10 else ("0x%x" % v if v >= 0 else "-0x%x" % -v)


def opd_wire(o):
    if o[0] == "sym":
        return "@%d" % o[1]
    return "#%x" % (o[1] & 0xffffffffffffffff)


def wire(prog):
    out = []
    for st in prog:
        k = st[0]
        if k == "label": out.append("L%d" % st[1])
        elif k == "cpu": out.append("C%d" % st[1])
        elif k == "endian": out.append("E%d" % int(st[1]))
        elif k == "seg": out.append("S%d" % int(st[1]))
        elif k == "org": out.append("O%x" % st[1])
        elif k == "db": out.append("B" + "".join("%02x" % b for b in st[1]))
        elif k == "dw": out.append("W" + opd_wire(st[1]))
        elif k == "dd": out.append("D" + opd_wire(st[1]))
        elif k == "resb": out.append("R%x" % st[1])
        elif k == "define": out.append("F%d=%x" % (st[1], st[2] & 0xffffffffffffffff))
        elif k == "list": out.append("T")
        elif k == "mov": out.append("M%d,%s" % (st[1], opd_wire(st[2])))
        elif k == "ifdef":
            out.append("%s%d{" % ("J" if st[1] else "I", st[2]))
            out += wire(st[3])
            if st[4] is not None:
                out.append("}{")
                out += wire(st[4])
            out.append("}")
        elif k == "repeat":
            out.append("P%d{" % st[1]); out += wire(st[2]); out.append("}")
        elif k == "include":
            out.append("N{"); out += wire(st[1]); out.append("}")
        else:
            raise ValueError(k)
    return out


def source(prog, files=None, indent=""):
    """-> (text, files) ; files: list of (name, content) for the .include blocks"""
    files = files if files is not None else []
    out = []
    for st in prog:
        k = st[0]
        if k == "label": out.append("%s:" % name(st[1]))
        elif k == "cpu": out.append(".%s" % st[2])
        elif k == "endian": out.append(".big_endian" if st[1] else ".little_endian")
        elif k == "seg": out.append(".bss" if st[1] else ".code")
        elif k == "org": out.append(".org 0x%x" % st[1])
        elif k == "db": out.append("  .db " + ", ".join("0x%02x" % b for b in st[1]))
        elif k == "dw": out.append("  .dw " + opd_src(st[1]))
        elif k == "dd": out.append("  .dc32 " + opd_src(st[1]))
        elif k == "resb": out.append("  .resb %d" % st[1])
        elif k == "define": out.append(".define %s %s" % (name(st[1]), opd_src(("lit", st[2]))))
        elif k == "list": out.append(".list")
        elif k == "mov": out.append("  mov.w #%s, r%d" % (opd_src(st[2]), st[1]))
        elif k == "ifdef":
            out.append("%s %s" % (".ifndef" if st[1] else ".ifdef", name(st[2])))
            out.append(source(st[3], files)[0].rstrip("\n"))
            if st[4] is not None:
                out.append(".else")
                out.append(source(st[4], files)[0].rstrip("\n"))
            out.append(".endif")
        elif k == "repeat":
            out.append(".repeat %d" % st[1])
            out.append(source(st[2], files)[0].rstrip("\n"))
            out.append(".endr")
        elif k == "include":
            body, _ = source(st[1], files)
            fname = "inc%d.inc" % len(files)
            files.append((fname, body))
            out.append('.include "%s"' % fname)
        else:
            raise ValueError(k)
    return "\n".join(l for l in out if l != "") + "\n", files


CG_VALUES = [0, 1, 2, 4, 8, -1, 0xffff]
IMM_VALUES = [3, 5, 7, 0x10, 0x7f, 0x80, 0xff, 0x100, 0x1234, 0x7fff, 0x8000, 0xfffe, -2, -128, -32768]


class Gen:
    def __init__(self, rng, cpulist):
        """cpulist: [(index, name, big_endian, bytes_per_address, pass1_write_disable)] of the data-only choices"""
        self.rng = rng
        self.cpus = cpulist
        self.stats = {}

    def count(self, k):
        self.stats[k] = self.stats.get(k, 0) + 1

    def operand(self, st, fwd_ok=True):
        r = self.rng.random()
        if r < 0.35:
            self.count("opd:literal")
            return ("lit", self.rng.choice(CG_VALUES + IMM_VALUES))
        pool = list(st["defined"]) if (r < 0.6 or not fwd_ok) and st["defined"] else list(st["later"]) or list(st["defined"])
        if not pool:
            return ("lit", self.rng.choice(IMM_VALUES))
        n = self.rng.choice(pool)
        self.count("opd:forward" if n in st["later"] and n not in st["defined"] else "opd:backward")
        return ("sym", n)

    def simple(self, st, msp):
        rng = self.rng
        r = rng.random()
        if msp and r < 0.3:
            self.count("stmt:mov")
            return ("mov", rng.randrange(4, 16), self.operand(st))
        if r < 0.45:
            n = rng.randrange(1, 5)
            if msp and rng.random() < 0.8:
                n = 2 * ((n + 1) // 2)
            self.count("stmt:db")
            return ("db", [rng.randrange(256) for _ in range(n)])
        if r < 0.6:
            self.count("stmt:dw")
            o = self.operand(st)
            return ("dw", o)
        if r < 0.7:
            self.count("stmt:dc32")
            return ("dd", self.operand(st))
        if r < 0.77:
            self.count("stmt:resb")
            return ("resb", rng.choice([1, 2, 2, 4, 6]))
        if r < 0.82:
            self.count("stmt:endian")
            return ("endian", rng.random() < 0.5)
        if r < 0.85:
            self.count("stmt:list")
            return ("list",)
        if r < 0.9 and st["free"]:
            n = st["free"].pop()
            st["defined"].add(n)
            st["defines"].add(n)
            self.count("stmt:define")
            return ("define", n, rng.choice(CG_VALUES[:5] + IMM_VALUES[:9]))
        if st["later"] - st["defined"] and rng.random() < 0.6:
            n = rng.choice(sorted(st["later"] - st["defined"]))
            st["defined"].add(n)
            self.count("stmt:label")
            return ("label", n)
        self.count("stmt:dw")
        return ("dw", self.operand(st))

    def block(self, st, msp, depth, n):
        rng = self.rng
        out = []
        for _ in range(n):
            r = rng.random()
            if depth < 2 and r < 0.12:
                # conditional on a name: defined earlier, defined later (branches differ between the passes) or never
                kind = rng.random()
                if kind < 0.4 and st["later"] - st["defined"]:
                    nm = rng.choice(sorted(st["later"] - st["defined"])); self.count("ifdef:defined-later")
                elif kind < 0.7 and st["defined"]:
                    nm = rng.choice(sorted(st["defined"])); self.count("ifdef:defined-before")
                else:
                    nm = NAMES + rng.randrange(3); self.count("ifdef:never-defined")
                # labels inside conditionals would be defined or not depending on the branch: keep them out
                sub = dict(st); sub["later"] = set(); sub["free"] = []
                sub["defined"] = set(st["defined"])
                t = self.block(sub, msp, depth + 1, rng.randrange(1, 3))
                e = self.block(sub, msp, depth + 1, rng.randrange(1, 3)) if rng.random() < 0.6 else None
                out.append(("ifdef", rng.random() < 0.5, nm, t, e))
            elif depth < 2 and r < 0.18:
                sub = dict(st); sub["later"] = set(); sub["free"] = []
                sub["defined"] = set(st["defined"])
                self.count("block:repeat")
                out.append(("repeat", rng.choice([1, 2, 3, 4]), self.block(sub, msp, depth + 1, rng.randrange(1, 3))))
            elif depth < 2 and r < 0.23:
                self.count("block:include")
                out.append(("include", self.block(st, msp, depth + 1, rng.randrange(1, 3))))
            else:
                out.append(self.simple(st, msp))
        return out

    def program(self, klass=None):
        """-> (prog, class label)"""
        rng = self.rng
        klass = klass or rng.choice(["plain", "plain", "pre-cpu", "no-cpu", "cpu-switch", "bss-tail", "endian-tail"])
        names = list(range(NAMES))
        rng.shuffle(names)
        later = set(names[:6])
        st = {"defined": set(), "later": later, "free": names[6:10], "defines": set()}
        prog = []
        if klass in ("plain", "bss-tail", "endian-tail"):
            if rng.random() < 0.6:
                cpu = (0, "msp430", False, 1, True)
            else:
                cpu = rng.choice(self.cpus)
            prog.append(("cpu", cpu[0], cpu[1]))
            msp = cpu[1] == "msp430"
        elif klass == "no-cpu":
            msp = True
        else:
            msp = True          # statements in front of the first .<cpu> are MSP430 by default
        prog.append(("org", rng.choice([0, 0x100, 0x200, 0x1000])))
        prog += self.block(st, msp, 0, rng.randrange(2, 7))
        if klass in ("pre-cpu", "cpu-switch"):
            cpu = rng.choice(self.cpus)
            prog.append(("cpu", cpu[0], cpu[1]))
            prog += self.block(st, False, 0, rng.randrange(1, 5))
            if klass == "cpu-switch":
                prog.append(("cpu", 0, "msp430"))
                prog += self.block(st, True, 0, rng.randrange(1, 4))
        if klass == "bss-tail":
            prog.append(("seg", True))
            prog.append(("resb", rng.choice([2, 4, 8])))
            if rng.random() < 0.3:
                prog.append(("seg", False))
                prog += self.block(st, msp, 0, 1)
        if klass == "endian-tail":
            prog.append(("endian", True))
            prog.append(("dw", ("lit", 0x1234)))
        # define the forward-referenced names
        prog.append(("org", rng.choice([0x2000, 0x2100, 0x3000])))
        for n in sorted(st["later"] - st["defined"]):
            prog.append(("label", n))
            prog.append(("db", [rng.randrange(256), rng.randrange(256)]))
        self.count("class:" + klass)
        return prog, klass


def has(prog, kind):
    for st in prog:
        if st[0] == kind:
            return True
        if st[0] == "ifdef" and (has(st[3], kind) or (st[4] is not None and has(st[4], kind))):
            return True
        if st[0] == "repeat" and has(st[2], kind):
            return True
        if st[0] == "include" and has(st[1], kind):
            return True
    return False
