"""Programs of the statement subset modelled by lean/NakenVerif/Determinism (property C13).

A program is a list of nodes:
  ('label', n) ('cpu', idx, name) ('endian', big) ('seg', bss) ('org', a) ('db', [bytes]) ('dw', opd) ('dd', opd)
  ('resb', n) ('define', n, v) ('list',) ('mov', reg, opd)
  ('ifdef', neg, n, then_list, else_list | None) ('repeat', count, body) ('include', body)
  opd = ('lit', v) | ('sym', n)
`wire(prog)` gives the tokens of the Lean driver's `det` command, `source(prog)` the naken_asm text (+ include
files).  Generation is grammar directed; the classes that matter for C13 are forced with fixed shares:
statements in front of the first .<cpu> directive, byte order / segment switches after data, forward
references (pass-1 placeholders and MSP430 flag bytes), conditionals on names defined later (the two passes take
different branches), .repeat, nested .include, .list.
"""

NAMES = 12


def name(n):
    return "n%d" % n


def opd_src(o):
    if o[0] == "sym":
        return name(o[1])
    v = o[1]
    return str(v) if -10 < v < 10 else ("0x%x" % v if v >= 0 else "-0x%x" % -v)


def opd_wire(o):
    if o[0] == "sym":
        return "@%d" % o[1]
    return "#%x" % (o[1] & 0xffffffffffffffff)


def wire(prog):
    out = []
    for st in prog:
        k = st[0]
        if k == "label": out.append("L%d" % st[1])
        elif k == "cpu": out.append("C%d" % st[1])
        elif k == "endian": out.append("E%d" % int(st[1]))
        elif k == "seg": out.append("S%d" % int(st[1]))
        elif k == "org": out.append("O%x" % st[1])
        elif k == "db": out.append("B" + "".join("%02x" % b for b in st[1]))
        elif k == "dw": out.append("W" + opd_wire(st[1]))
        elif k == "dd": out.append("D" + opd_wire(st[1]))
        elif k == "resb": out.append("R%x" % st[1])
        elif k == "define": out.append("F%d=%x" % (st[1], st[2] & 0xffffffffffffffff))
        elif k == "list": out.append("T")
        elif k == "mov": out.append("M%d,%s" % (st[1], opd_wire(st[2])))
        elif k == "ifdef":
            out.append("%s%d{" % ("J" if st[1] else "I", st[2]))
            out += wire(st[3])
            if st[4] is not None:
                out.append("}{")
                out += wire(st[4])
            out.append("}")
        elif k == "repeat":
            out.append("P%d{" % st[1]); out += wire(st[2]); out.append("}")
        elif k == "include":
            out.append("N{"); out += wire(st[1]); out.append("}")
        else:
            raise ValueError(k)
    return out


def source(prog, files=None, indent=""):
    """-> (text, files) ; files: list of (name, content) for the .include blocks"""
    files = files if files is not None else []
    out = []
    for st in prog:
        k = st[0]
        if k == "label": out.append("%s:" % name(st[1]))
        elif k == "cpu": out.append(".%s" % st[2])
        elif k == "endian": out.append(".big_endian" if st[1] else ".little_endian")
        elif k == "seg": out.append(".bss" if st[1] else ".code")
        elif k == "org": out.append(".org 0x%x" % st[1])
        elif k == "db": out.append("  .db " + ", ".join("0x%02x" % b for b in st[1]))
        elif k == "dw": out.append("  .dw " + opd_src(st[1]))
        elif k == "dd": out.append("  .dc32 " + opd_src(st[1]))
        elif k == "resb": out.append("  .resb %d" % st[1])
        elif k == "define": out.append(".define %s %s" % (name(st[1]), opd_src(("lit", st[2]))))
        elif k == "list": out.append(".list")
        elif k == "mov": out.append("  mov.w #%s, r%d" % (opd_src(st[2]), st[1]))
        elif k == "ifdef":
            out.append("%s %s" % (".ifndef" if st[1] else ".ifdef", name(st[2])))
            out.append(source(st[3], files)[0].rstrip("\n"))
            if st[4] is not None:
                out.append(".else")
                out.append(source(st[4], files)[0].rstrip("\n"))
            out.append(".endif")
        elif k == "repeat":
            out.append(".repeat %d" % st[1])
            out.append(source(st[2], files)[0].rstrip("\n"))
            out.append(".endr")
        elif k == "include":
            body, _ = source(st[1], files)
            fname = "inc%d.inc" % len(files)
            files.append((fname, body))
            out.append('.include "%s"' % fname)
        else:
            raise ValueError(k)
    return "\n".join(l for l in out if l != "") + "\n", files


CG_VALUES = [0, 1, 2, 4, 8, -1, 0xffff]
IMM_VALUES = [3, 5, 7, 0x10, 0x7f, 0x80, 0xff, 0x100, 0x1234, 0x7fff, 0x8000, 0xfffe, -2, -128, -32768]


class Gen:
    def __init__(self, rng, cpulist):
        """cpulist: [(index, name, big_endian, bytes_per_address, pass1_write_disable)] of the data-only choices"""
        self.rng = rng
        self.cpus = cpulist
        self.stats = {}

    def count(self, k):
        self.stats[k] = self.stats.get(k, 0) + 1

    def operand(self, st, fwd_ok=True):
        r = self.rng.random()
        if r < 0.35:
            self.count("opd:literal")
            return ("lit", self.rng.choice(CG_VALUES + IMM_VALUES))
        pool = list(st["defined"]) if (r < 0.6 or not fwd_ok) and st["defined"] else list(st["later"]) or list(st["defined"])
        if not pool:
            return ("lit", self.rng.choice(IMM_VALUES))
        n = self.rng.choice(pool)
        self.count("opd:forward" if n in st["later"] and n not in st["defined"] else "opd:backward")
        return ("sym", n)

    def simple(self, st, msp):
        rng = self.rng
        r = rng.random()
        if msp and r < 0.3:
            self.count("stmt:mov")
            return ("mov", rng.randrange(4, 16), self.operand(st))
        if r < 0.45:
            n = rng.randrange(1, 5)
            if msp and rng.random() < 0.8:
                n = 2 * ((n + 1) // 2)
            self.count("stmt:db")
            return ("db", [rng.randrange(256) for _ in range(n)])
        if r < 0.6:
            self.count("stmt:dw")
            o = self.operand(st)
            return ("dw", o)
        if r < 0.7:
            self.count("stmt:dc32")
            return ("dd", self.operand(st))
        if r < 0.77:
            self.count("stmt:resb")
            return ("resb", rng.choice([1, 2, 2, 4, 6]))
        if r < 0.82:
            self.count("stmt:endian")
            return ("endian", rng.random() < 0.5)
        if r < 0.85:
            self.count("stmt:list")
            return ("list",)
        if r < 0.9 and st["free"]:
            n = st["free"].pop()
            st["defined"].add(n)
            st["defines"].add(n)
            self.count("stmt:define")
            return ("define", n, rng.choice(CG_VALUES[:5] + IMM_VALUES[:9]))
        if st["later"] - st["defined"] and rng.random() < 0.6:
            n = rng.choice(sorted(st["later"] - st["defined"]))
            st["defined"].add(n)
            self.count("stmt:label")
            return ("label", n)
        self.count("stmt:dw")
        return ("dw", self.operand(st))

    def block(self, st, msp, depth, n):
        rng = self.rng
        out = []
        for _ in range(n):
            r = rng.random()
            if depth < 2 and r < 0.12:
                # conditional on a name: defined earlier, defined later (branches differ between the passes) or never
                kind = rng.random()
                if kind < 0.4 and st["later"] - st["defined"]:
                    nm = rng.choice(sorted(st["later"] - st["defined"])); self.count("ifdef:defined-later")
                elif kind < 0.7 and st["defined"]:
                    nm = rng.choice(sorted(st["defined"])); self.count("ifdef:defined-before")
                else:
                    nm = NAMES + rng.randrange(3); self.count("ifdef:never-defined")
                # labels inside conditionals would be defined or not depending on the branch: keep them out
                sub = dict(st); sub["later"] = set(); sub["free"] = []
                sub["defined"] = set(st["defined"])
                t = self.block(sub, msp, depth + 1, rng.randrange(1, 3))
                e = self.block(sub, msp, depth + 1, rng.randrange(1, 3)) if rng.random() < 0.6 else None
                out.append(("ifdef", rng.random() < 0.5, nm, t, e))
            elif depth < 2 and r < 0.18:
                sub = dict(st); sub["later"] = set(); sub["free"] = []
                sub["defined"] = set(st["defined"])
                self.count("block:repeat")
                out.append(("repeat", rng.choice([1, 2, 3, 4]), self.block(sub, msp, depth + 1, rng.randrange(1, 3))))
            elif depth < 2 and r < 0.23:
                self.count("block:include")
                out.append(("include", self.block(st, msp, depth + 1, rng.randrange(1, 3))))
            else:
                out.append(self.simple(st, msp))
        return out

    def program(self, klass=None):
        """-> (prog, class label)"""
        rng = self.rng
        klass = klass or rng.choice(["plain", "plain", "pre-cpu", "no-cpu", "cpu-switch", "bss-tail", "endian-tail"])
        names = list(range(NAMES))
        rng.shuffle(names)
        later = set(names[:6])
        st = {"defined": set(), "later": later, "free": names[6:10], "defines": set()}
        prog = []
        if klass in ("plain", "bss-tail", "endian-tail"):
            if rng.random() < 0.6:
                cpu = (0, "msp430", False, 1, True)
            else:
                cpu = rng.choice(self.cpus)
            prog.append(("cpu", cpu[0], cpu[1]))
            msp = cpu[1] == "msp430"
        elif klass == "no-cpu":
            msp = True
        else:
            msp = True          # statements in front of the first .<cpu> are MSP430 by default
        prog.append(("org", rng.choice([0, 0x100, 0x200, 0x1000])))
        prog += self.block(st, msp, 0, rng.randrange(2, 7))
        if klass in ("pre-cpu", "cpu-switch"):
            cpu = rng.choice(self.cpus)
            prog.append(("cpu", cpu[0], cpu[1]))
            prog += self.block(st, False, 0, rng.randrange(1, 5))
            if klass == "cpu-switch":
                prog.append(("cpu", 0, "msp430"))
                prog += self.block(st, True, 0, rng.randrange(1, 4))
        if klass == "bss-tail":
            prog.append(("seg", True))
            prog.append(("resb", rng.choice([2, 4, 8])))
            if rng.random() < 0.3:
                prog.append(("seg", False))
                prog += self.block(st, msp, 0, 1)
        if klass == "endian-tail":
            prog.append(("endian", True))
            prog.append(("dw", ("lit", 0x1234)))
        # define the forward-referenced names
        prog.append(("org", rng.choice([0x2000, 0x2100, 0x3000])))
        for n in sorted(st["later"] - st["defined"]):
            prog.append(("label", n))
            prog.append(("db", [rng.randrange(256), rng.randrange(256)]))
        self.count("class:" + klass)
        return prog, klass


def has(prog, kind):
    for st in prog:
        if st[0] == kind:
            return True
        if st[0] == "ifdef" and (has(st[3], kind) or (st[4] is not None and has(st[4], kind))):
            return True
        if st[0] == "repeat" and has(st[2], kind):
            return True
        if st[0] == "include" and has(st[1], kind):
            return True
    return False


# ------------------------------------------------------------------------------------------------ literal bytes
# The reporting paths (listing echo of tokens_get_char, -dump_macros, print_info) see the RAW character stream of the
# source, not statements: what matters for "the image does not depend on the reporting options" is therefore also the
# class of every character, inside and outside literals.  These programs are not in the modelled language (the oracle
# streams compare the real code with itself under the option matrix); the text is latin-1, one byte per character.

def legal_in(quote, body=False):
    """byte values that may stand, unescaped, inside a literal closed by `quote`: everything but NUL, newline, the closing
    quote and backslash.  CR is dropped by the reader in every configuration: it stays in the set for strings, not for
    the one-character constants ('' is rejected).  body=True: the literal stands in the text of a .define / .macro / equ
    or in a macro argument, where 0x01 is the parameter marker, ; // /* start a comment also inside quotes and the
    other quote character / comma / parentheses confuse the argument splitter (all of that is C09's business)."""
    out = [b for b in range(1, 256) if b not in (0x0a, ord(quote), 0x5c)]
    if quote == "'":
        out.remove(0x0d)
    if body:
        out = [b for b in out if b not in (0x01, 0x3b, 0x2f, 0x2a, 0x22, 0x27, 0x2c, 0x28, 0x29)]
    return out


SPECIAL_BYTES = [0x09, 0x01, 0x08, 0x0b, 0x0c, 0x0d, 0x1a, 0x1b, 0x1f, 0x20, 0x22, 0x27, 0x3b, 0x2f, 0x7e, 0x7f, 0x80, 0x81,
                 0xa0, 0xc3, 0xfe, 0xff]

LIT_CPUS = {
    # cpu -> (instruction taking a character constant, or None; plain filler instruction)
    "msp430": ("  mov.b #%s, r6", "  mov.w r5, r6"),
    "z80": ("  ld a, %s", "  nop"),
    "6502": ("  lda #%s", "  nop"),
    "68000": ("  move.b #%s, d1", "  nop"),
    "8051": ("  mov A, #%s", "  nop"),
    "avr8": ("  ldi r16, %s", "  nop"),
    "mips": (None, "  nop"),
    "tms9900": (None, "  clr r1"),
}


def _chr(b):
    return bytes([b]).decode("latin-1")


def _string(bs):
    return '"' + "".join(_chr(b) for b in bs) + '"'


def _tick(b):
    return "'" + _chr(b) + "'"


def literal_fixed():
    """[(label, source)]: between them every legal byte value inside a "string" (of .db / .ascii / .asciiz), inside a
    'c' constant, inside a .define body and inside a .macro body; the bytes are spread over small programs so that one
    rejected byte does not hide the others"""
    out = []
    sq, tq = legal_in('"'), legal_in("'")
    dirs = [".db", ".ascii", ".asciiz"]
    for i in range(0, len(sq), 16):
        chunk = sq[i:i + 16]
        d = dirs[(i // 16) % 3]
        out.append(("literal:string:%02x" % chunk[0],
                    ".msp430\n.org 0x200\nstart:\n  %s %s\nafter:\n  .dw after\n  %s %s, 0\n" %
                    (d, _string(chunk), dirs[(i // 16 + 1) % 3], _string(chunk[::-1]))))
    for i in range(0, len(tq), 16):
        chunk = tq[i:i + 16]
        body = "".join("  .db %s, %d\n" % (_tick(b), k) for k, b in enumerate(chunk[:8]))
        body += "  .db " + ", ".join(_tick(b) for b in chunk[8:]) + "\n" if chunk[8:] else ""
        out.append(("literal:tick:%02x" % chunk[0], ".msp430\n.org 0x300\n" + body + "end:\n  .dw end\n"))
    bq = legal_in('"', body=True)
    for i in range(0, len(bq), 32):
        chunk = bq[i:i + 32]
        t = [b for b in chunk if b != 0x0d] * 3
        src = ".msp430\n.define TEXT %s\n.define CH %s\n.org 0x400\n  .db TEXT\nmid:\n  .db CH, 1\n" % (_string(chunk), _tick(t[0]))
        src += ".macro M\n  .ascii %s\n  .db %s\n.endm\n  M\n.macro P(a, b)\n  .db a, b, %s\n.endm\n  P(%s, %s)\nend:\n  .dw mid, end\n" % \
            (_string(chunk[::2]), _tick(t[1]), _string(chunk[1::2]), _tick(t[2]), _string(chunk[3:6]))
        out.append(("literal:define-macro:%02x" % chunk[0], src))
    # the seeded shape: TAB in a string and in a character constant of an instruction operand
    out.append(("literal:tab", ".msp430\n.org 0x200\nstart:\n\tmov.w #msg, r5\n\tmov.b #'\t', r6\n\tret\nmsg:\n\t.db \"col1\tcol2\tend\", 0\n"))
    return out


class LitGen:
    """random programs with raw bytes of every class inside literals, in comments and as separators"""

    def __init__(self, rng):
        self.rng = rng
        self.stats = {}

    def count(self, k):
        self.stats[k] = self.stats.get(k, 0) + 1

    def byte(self, quote, body=False):
        rng = self.rng
        pool = legal_in(quote, body)
        if rng.random() < 0.55:
            b = rng.choice(SPECIAL_BYTES)
            if b in pool:
                return b
        return rng.choice(pool)

    def string(self, lo=1, hi=10, body=False):
        bs = [self.byte('"', body) for _ in range(self.rng.randrange(lo, hi))]
        for b in bs:
            self.count("byte:" + ("tab" if b == 9 else "ctrl" if b < 0x20 else "del" if b == 0x7f else "high" if b >= 0x80 else
                                  "punct" if not _chr(b).isalnum() else "alnum"))
        return _string(bs)

    def tick(self, body=False):
        b = self.byte("'", body)
        self.count("tick:" + ("tab" if b == 9 else "ctrl" if b < 0x20 else "high" if b >= 0x7f else "print"))
        return _tick(b)

    def sep(self):
        """token separator: blanks and tabs (the character class the listing echo must leave alone too)"""
        return self.rng.choice([" ", "  ", "\t", "\t\t", " \t", "\t "])

    def comment(self):
        rng = self.rng
        if rng.random() < 0.6:
            return ""
        body = "".join(_chr(rng.choice(SPECIAL_BYTES + [0x41, 0x61, 0x30])) for _ in range(rng.randrange(0, 8)))
        body = body.replace("\n", "").replace("\r", "").replace("*", "")
        self.count("comment")
        return self.sep() + rng.choice([";", "//"]) + body

    def program(self):
        rng = self.rng
        cpu = rng.choice(sorted(LIT_CPUS))
        insn, filler = LIT_CPUS[cpu]
        eol = "\r\n" if rng.random() < 0.15 else "\n"
        lines = ["." + cpu, ".org 0x%x" % rng.choice([0, 0x100, 0x200, 0x1000])]
        names = []
        for k in range(rng.randrange(3, 9)):
            r = rng.random()
            s = self.sep()
            if r < 0.22:
                d = rng.choice([".db", ".db", ".ascii", ".asciiz"])
                ops = [self.string()]
                if d == ".db":
                    for _ in range(rng.randrange(0, 3)):
                        ops.append(rng.choice([self.string(1, 5), self.tick(), "0x%02x" % rng.randrange(256)]))
                lines.append(s + d + self.sep() + ("," + self.sep()).join(ops) + self.comment())
                self.count("stmt:" + d)
            elif r < 0.36:
                d = rng.choice([".db", ".db", ".dw", ".dc16", ".dc32"])
                lines.append(s + d + self.sep() + ", ".join(self.tick() for _ in range(rng.randrange(1, 4))) + self.comment())
                self.count("stmt:tick-" + d)
            elif r < 0.46 and insn:
                lines.append(insn.replace("  ", s, 1) % self.tick() + self.comment())
                self.count("stmt:insn-tick")
            elif r < 0.58:
                n = "D%d" % k
                if rng.random() < 0.5:
                    lines.append(".define" + self.sep() + n + self.sep() + self.string(body=True) + self.comment())
                    lines.append(s + rng.choice([".db", ".ascii"]) + " " + n)
                else:
                    lines.append(".define" + self.sep() + n + self.sep() + self.tick(True) + self.comment())
                    lines.append(s + ".db " + n + ", 7")
                self.count("stmt:define")
            elif r < 0.70:
                n = "M%d" % k
                if rng.random() < 0.5:
                    lines += [".macro " + n, s + ".db" + self.sep() + self.string(body=True) + ", " + self.tick(True) + self.comment(), ".endm", s + n]
                    self.count("stmt:macro")
                else:
                    lines += [".macro " + n + "(a, b)", s + ".db a," + self.sep() + "b, " + self.string(1, 4, True), ".endm",
                              s + n + "(" + self.tick(True) + ", " + rng.choice([self.string(1, 5, True), self.tick(True), "3"]) + ")"]
                    self.count("stmt:macro-args")
            elif r < 0.78:
                n = "E%d" % k
                lines.append(n + " equ " + self.tick(True) + self.comment())
                lines.append(s + ".db " + n + ", 1")
                self.count("stmt:equ")
            elif r < 0.86:
                n = "L%d" % k
                names.append(n)
                lines.append(n + ":" + self.comment())
                self.count("stmt:label")
            else:
                lines.append(filler.replace("  ", s, 1) + self.comment())
                self.count("stmt:insn")
        lines.append("tail:")
        lines.append("  .dw tail" + "".join(", " + n for n in names[:3]))
        self.count("cpu:" + cpu)
        if eol != "\n":
            self.count("eol:crlf")
        return "literal:random:" + cpu, eol.join(lines) + eol
