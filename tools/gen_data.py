"""Directive programs for C05: representation, rendering, reference placement, generators.

A program is (cpu, [directive]).  Directives are tuples:

  ("org", op)                       .org
  ("db", mnemonic, [item])          .db/.dc8/.ascii/.asciiz   item = operand | ("s", raw bytes between the quotes)
  ("dc16", mnemonic, [op])          .dw/.dc16
  ("dc32", mnemonic, [op])          .dl/.dc32/.dd
  ("dc64", mnemonic, [op])          .dc64/.dq
  ("resb", op) ("resw", op)
  ("alignbits", mnemonic, op)       .align/.align_bits
  ("alignbytes", op)                .align_bytes
  ("fill", op, op)                  .data_fill value, count
  ("bin", bytes)                    .binfile (content; the file itself is made by the check)
  ("be",) ("le",)                   .big_endian/.little_endian
  ("lab", name)                     name:

Operands: ("n", v) integer as written (|v| < 2^64), ("$",), ("@", name).

`place` is the reference meaning of such a program.  It is written from docs/directives.md and the
statement of C05, not from the code: a location counter in bytes, `.org a` sets it to a * bytes_per_address,
data directives put their bytes at the counter in the selected byte order, reservations and alignment move
the counter without writing, `$` and labels are counter // bytes_per_address.
"""
import re, os

M64 = (1 << 64) - 1
M32 = (1 << 32) - 1


def s64(v):
    v &= M64
    return v - (1 << 64) if v >> 63 else v


# ---------------------------------------------------------------- cpu list (from the translator's output)

def load_cpus(verif):
    """[{name, big, bpa, dollar_hex, p1wd}] parsed from lean/NakenVerif/Generated/CpuList.lean"""
    t = open(os.path.join(verif, "lean", "NakenVerif", "Generated", "CpuList.lean")).read()
    rows = re.findall(r'name := "([^"]+)", type := (\d+), bigEndian := (\w+), bytesPerAddress := (\d+), alignment := (\d+),'
                      r'\s+isDollarHex := (\w+), canTickEndString := (\w+), pass1WriteDisable := (\w+)', t)
    return [{"name": r[0], "big": r[2] == "true", "bpa": int(r[3]), "dollar_hex": r[5] == "true",
             "p1wd": r[7] == "true"} for r in rows]


def pick_cpus(cpus):
    """one CPU per distinct (endian, bytes_per_address, is_dollar_hex, pass_1_write_disable)"""
    seen, out = set(), []
    for c in cpus:
        if c["name"] in ("webasm",):
            continue
        k = (c["big"], c["bpa"], c["dollar_hex"], c["p1wd"])
        if k not in seen:
            seen.add(k)
            out.append(c)
    return out


# ---------------------------------------------------------------- strings

ESC = {ord("n"): 10, ord("r"): 13, ord("t"): 9, ord('"'): 34, ord("\\"): 92, ord("'"): 39, ord("0"): 0}


def unescape(raw):
    """documented/conventional meaning of the text between the quotes; None when an escape has no
    conventional meaning here (then the program's meaning is not specified)"""
    out, i = [], 0
    while i < len(raw):
        c = raw[i]
        if c == 92:
            if i + 1 >= len(raw) or raw[i + 1] not in ESC:
                return None
            out.append(ESC[raw[i + 1]])
            i += 2
        else:
            out.append(c)
            i += 1
    return out


# ---------------------------------------------------------------- rendering

def num_text(v, style=0):
    if v < 0:
        return "-" + num_text(-v, style)
    if style == 1:
        return "0x%x" % v
    return str(v)


def op_text(op, style=0):
    if op[0] == "n":
        return num_text(op[1], style)
    if op[0] == "$":
        return "$"
    return op[1]


def op_wire(op):
    if op[0] == "n":
        return "n%x" % (op[1] & M64)
    if op[0] == "$":
        return "$"
    return "@" + op[1]


def render(cpu, ds, binpaths=None, style=0):
    """assembler source of the program"""
    lines = ["." + cpu["name"]]
    nb = 0
    for d in ds:
        k = d[0]
        if k == "org": lines.append(".org " + op_text(d[1], style))
        elif k == "db":
            items = []
            for it in d[2]:
                if it[0] == "s":
                    items.append('"' + bytes(it[1]).decode("latin-1") + '"')
                else:
                    items.append(op_text(it, style))
            lines.append("." + d[1] + " " + ", ".join(items))
        elif k in ("dc16", "dc32", "dc64"):
            lines.append("." + d[1] + " " + ", ".join(op_text(o, style) for o in d[2]))
        elif k == "resb": lines.append(".resb " + op_text(d[1], style))
        elif k == "resw": lines.append(".resw " + op_text(d[1], style))
        elif k == "alignbits": lines.append("." + d[1] + " " + op_text(d[2], style))
        elif k == "alignbytes": lines.append(".align_bytes " + op_text(d[1], style))
        elif k == "fill": lines.append(".data_fill " + op_text(d[1], style) + ", " + op_text(d[2], style))
        elif k == "bin":
            lines.append('.binfile "%s"' % binpaths[nb]); nb += 1
        elif k == "be": lines.append(".big_endian")
        elif k == "le": lines.append(".little_endian")
        elif k == "lab": lines.append(d[1] + ":")
        else: raise ValueError(k)
    return "\n".join(lines) + "\n"


def wire(cpu, ds):
    """`dir` protocol line for the model driver"""
    toks = []
    for d in ds:
        k = d[0]
        if k == "org": toks.append("org:" + op_wire(d[1]))
        elif k == "db":
            items = []
            for it in d[2]:
                items.append("s" + (bytes(it[1]).hex() or "-") if it[0] == "s" else op_wire(it))
            toks.append("db:%d:%s" % (1 if d[1] == "asciiz" else 0, ",".join(items) or "-"))
        elif k in ("dc16", "dc32", "dc64"): toks.append(k + ":" + (",".join(op_wire(o) for o in d[2]) or "-"))
        elif k in ("resb", "resw"): toks.append(k + ":" + op_wire(d[1]))
        elif k == "alignbits": toks.append("alignbits:" + op_wire(d[2]))
        elif k == "alignbytes": toks.append("alignbytes:" + op_wire(d[1]))
        elif k == "fill": toks.append("fill:" + op_wire(d[1]) + ":" + op_wire(d[2]))
        elif k == "bin": toks.append("bin:" + (bytes(d[1]).hex() or "-"))
        elif k in ("be", "le"): toks.append(k)
        elif k == "lab": toks.append("lab:" + d[1])
    return "dir " + cpu["name"] + " " + " ".join(toks)


# ---------------------------------------------------------------- reference meaning

class Unspecified(Exception):
    """the documents do not say what this program means (the oracle then only demands: no crash)"""


class Rejected(Exception):
    pass


def is_pow2(n):
    return n >= 1 and n & (n - 1) == 0


def in_int32(v):
    return -(1 << 31) <= v < (1 << 31)


def has_bs0(raw):
    """the text contains an escaped backslash directly followed by the digit 0"""
    i = 0
    while i < len(raw):
        if raw[i] == 92 and i + 1 < len(raw):
            if raw[i + 1] == 92 and i + 2 < len(raw) and raw[i + 2] == 48:
                return True
            i += 2
        else:
            i += 1
    return False


def place(cpu, ds, notes=None, any_alignment=False):
    """-> dict(image={byte address: byte}, syms={name: address}, loc, low, high)
    raises Rejected when the documents demand an error, Unspecified when they say nothing.
    `notes` (a set, filled also when an exception is raised) names the classes of input the program
    contains: 'string-bs0', 'align-not-pow2'.  With any_alignment the reading "next multiple of n" (n >= 1,
    no effect for n < 1) is used for alignments that are not powers of two."""
    bpa = cpu["bpa"]
    # labels first: their value does not depend on data values, only on the counter
    loc, big = 0, cpu["big"]
    image, syms = {}, {}
    if notes is None:
        notes = set()

    def counter_pass(define):
        nonlocal loc, big
        loc, big = 0, cpu["big"]
        image.clear()

        def val(op, narrow=False):
            if op[0] == "n":
                return s64(op[1])
            if op[0] == "$":
                return loc // bpa
            if op[1] not in syms:
                if define:
                    return None          # forward reference while collecting labels
                raise Rejected("undefined symbol " + op[1])
            return syms[op[1]]

        def put(bs):
            nonlocal loc
            for b in bs:
                if loc > M32:
                    raise Unspecified("location counter beyond 2^32")
                image[loc] = b
                loc += 1

        def word(v, n):
            bs = [(v >> (8 * i)) & 255 for i in range(n)]
            return bs[::-1] if big else bs

        for d in ds:
            k = d[0]
            if k == "org":
                v = val(d[1])
                if v is None: raise Unspecified(".org with forward reference")
                if not (0 <= v * bpa <= M32): raise Unspecified(".org outside the address space")
                loc = v * bpa
            elif k == "db":
                for it in d[2]:
                    if it[0] == "s":
                        if has_bs0(it[1]): notes.add("string-bs0")
                        bs = unescape(it[1])
                        if bs is None: raise Unspecified("escape without documented meaning")
                        put(bs + ([0] if d[1] == "asciiz" else []))
                    else:
                        v = val(it, True)
                        if v is None: v = 0
                        if not (-128 <= v <= 255): raise Rejected(".db value %d" % v)
                        put([v & 255])
            elif k == "dc16":
                for o in d[2]:
                    v = val(o, True)
                    if v is None: v = 0
                    if not (-32768 <= v <= 65535): raise Rejected(".dw value %d" % v)
                    put(word(v & 0xffff, 2))
            elif k == "dc32":
                for o in d[2]:
                    v = val(o) or 0
                    put(word(v & M32, 4))
            elif k == "dc64":
                for o in d[2]:
                    v = val(o) or 0
                    put(word(v & M64, 8))
            elif k in ("resb", "resw"):
                v = val(d[1])
                if v is None: raise Unspecified("reserve with forward reference")
                if v < 0 or v > M32: raise Unspecified("reservation count outside 0 .. 2^32-1")
                loc += v * (1 if k == "resb" else 2)
                if loc > M32 + 1: raise Unspecified("location counter beyond 2^32")
            elif k in ("alignbits", "alignbytes"):
                v = val(d[2] if k == "alignbits" else d[1])
                if v is None: raise Unspecified("align with forward reference")
                if k == "alignbits":
                    if v % 8 != 0: raise Unspecified("bit alignment not a multiple of 8")
                    v //= 8
                if not is_pow2(v):
                    notes.add("align-not-pow2")
                    if not any_alignment: raise Unspecified("alignment %d" % v)
                elif v > 1024: raise Unspecified("alignment %d" % v)
                if v >= 1:
                    loc = (loc + v - 1) // v * v
                if loc > M32 + 1: raise Unspecified("location counter beyond 2^32")
            elif k == "fill":
                v, c = val(d[1]), val(d[2])
                if v is None or c is None: raise Unspecified("fill with forward reference")
                if c < 1 or c > 0x7fffffff or not (-128 <= v <= 255): raise Unspecified("fill count/value outside the documented use")
                if loc + c > M32 + 1: raise Unspecified("location counter beyond 2^32")
                put([v & 255] * c)
            elif k == "bin":
                put(list(d[1]))
            elif k == "be": big = True
            elif k == "le": big = False
            elif k == "lab":
                if define:
                    if d[1] in syms: raise Rejected("duplicate label")
                    if loc > M32: raise Unspecified("label beyond 2^32")
                    syms[d[1]] = loc // bpa

    try:
        counter_pass(True)
    except Rejected:
        # a range error may be an artefact of the forward-reference placeholder; the second pass decides
        pass
    counter_pass(False)
    out = {"image": dict(image), "syms": dict(syms), "loc": loc}
    out["low"] = min(image) if image else None
    out["high"] = max(image) if image else None
    return out


# ---------------------------------------------------------------- generators

BOUNDARY = sorted(set([
    -129, -128, -127, -1, 0, 1, 127, 128, 254, 255, 256, 257, -32769, -32768, -32767, 32767, 32768, 65534, 65535, 65536,
    (1 << 31) - 1, 1 << 31, (1 << 31) + 1, -(1 << 31), -(1 << 31) - 1, -(1 << 31) + 1,
    (1 << 32) - 1, 1 << 32, (1 << 32) + 1, (1 << 63) - 1, 1 << 63, (1 << 63) + 1, -(1 << 63), -(1 << 63) + 1,
    (1 << 64) - 1, (1 << 64) - 128, (1 << 64) - 129, (1 << 64) - 32768, (1 << 64) - 32769,
    # values whose low 32 bits fall on either side of the .db/.dw bounds
    (1 << 32) + 255, (1 << 32) + 256, (1 << 32) - 128, (1 << 32) - 129, (1 << 32) - 32768, (1 << 32) - 32769,
    (1 << 32) + 65535, (1 << 32) + 65536, (5 << 32) + 7, -(1 << 32) - 1, -(1 << 32) + 200,
    0x1234, 0x12345678, 0x1122334455667788, 0x80, 0x8000, 0xff00, 0x00ff00ff]))

DB_MN = ["db", "dc8", "ascii", "asciiz"]
DC16_MN = ["dw", "dc16"]
DC32_MN = ["dl", "dc32", "dd"]
DC64_MN = ["dc64", "dq"]
ALIGN_MN = ["align", "align_bits"]

PLAIN = [c for c in range(32, 127) if c not in (34, 92)]
ESCAPES = [b"\\n", b"\\r", b"\\t", b'\\"', b"\\\\", b"\\'", b"\\0"]
UNKNOWN_ESCAPES = [b"\\q", b"\\x", b"\\1", b"\\a", b"\\ "]


def N(v):
    return ("n", v)


def value_directive(kind, mn, ops):
    if kind == "db": return ("db", mn, list(ops))
    return (kind, mn, list(ops))


def gen_string(rng, allow_unknown=False, allow_bs0=False):
    parts = []
    for _ in range(rng.randrange(0, 7)):
        r = rng.random()
        if r < 0.45:
            parts.append(bytes(rng.choice(PLAIN) for _ in range(rng.randrange(1, 5))))
        elif r < 0.9:
            e = rng.choice(ESCAPES)
            parts.append(e)
            if e == b"\\\\" and not allow_bs0:
                parts.append(bytes([rng.choice([c for c in PLAIN if c != 48])]))   # never "\\\\0" by accident
        elif allow_unknown:
            parts.append(rng.choice(UNKNOWN_ESCAPES))
    raw = b"".join(parts)
    if allow_bs0 and rng.random() < 0.7:
        raw += b"\\\\0" + bytes(rng.choice(PLAIN) for _ in range(rng.randrange(0, 3)))
    return list(raw)


class Gen:
    """all generators take their randomness from `rng` only"""

    def __init__(self, rng, cpus):
        self.rng, self.cpus, self.nlab = rng, cpus, 0

    def label(self):
        self.nlab += 1
        return "lab_%d" % self.nlab

    def cpu(self):
        return self.rng.choice(self.cpus)

    # -- systematic: every value kind x every boundary value, (cpu, endian switch) round-robin or full product
    def systematic(self, full):
        out, i = [], 0
        kinds = [("db", DB_MN[:2]), ("dc16", DC16_MN), ("dc32", DC32_MN), ("dc64", DC64_MN), ("fill", [None])]
        combos = [(c, e) for c in self.cpus for e in (None, "be", "le")]
        for kind, mns in kinds:
            for v in BOUNDARY:
                for (c, e) in (combos if full else [combos[(i * 7 + k * 5) % len(combos)] for k in range(3)]):
                    i += 1
                    mn = mns[i % len(mns)]
                    ds = [(e,)] if e else []
                    org = self.rng.choice([0, 1, 3, 0x10, 0x7ff, 0xfffe // c["bpa"], 0x12345])
                    if org: ds.append(("org", N(org)))
                    a, b = self.label(), self.label()
                    ds.append(("lab", a))
                    if kind == "fill":
                        ds.append(("fill", N(v), N(self.rng.choice([1, 2, 5]))))
                    else:
                        ops = [N(v)]
                        if self.rng.random() < 0.5: ops.insert(0, N(self.rng.choice([1, 0x7f, 0xfe])))
                        if self.rng.random() < 0.3: ops.append(N(2))
                        ds.append(value_directive(kind, mn, ops))
                    ds.append(("lab", b))
                    ds.append(("dc32", "dc32", [("$",), ("@", a), ("@", b)]))
                    out.append({"cpu": c, "ds": ds, "tag": "sys-" + kind})
        return out

    # -- strings: every escape alone, in pairs, embedded quotes, with numbers around
    def strings(self, n):
        out = []
        singles = ESCAPES + [b"a" + e + b"b" for e in ESCAPES] + [e + f for e in ESCAPES for f in ESCAPES]
        singles += [b"", b" ", b";not a comment", b"a,b", b"x'y", b"$", b'say \\"hi\\"', b"tab\\there", b"nul\\0mid", b"\\0", b"\\0\\0", b"0\\0", b"//", b"/* */", b".db 1", b"a:"]
        for raw in singles:
            if has_bs0(list(raw)):
                continue
            for mn in (DB_MN if len(raw) % 3 == 0 else [self.rng.choice(DB_MN)]):
                c = self.cpu()
                items = [("s", list(raw))]
                if self.rng.random() < 0.4: items.insert(0, N(self.rng.choice([0, 65, 255, -1])))
                if self.rng.random() < 0.4: items.append(N(self.rng.choice([0, 10, 13])))
                out.append({"cpu": c, "ds": [("lab", self.label()), ("db", mn, items), ("lab", self.label()), ("dc16", "dw", [("$",)])],
                            "tag": "str"})
        for _ in range(n):
            c = self.cpu()
            items = []
            for _ in range(self.rng.randrange(1, 4)):
                if self.rng.random() < 0.7:
                    items.append(("s", gen_string(self.rng, allow_unknown=self.rng.random() < 0.15)))
                else:
                    items.append(N(self.rng.choice([0, 1, 34, 92, 255, -128])))
            out.append({"cpu": c, "ds": [("org", N(self.rng.choice([0, 5, 0xfff8 // c["bpa"]]))), ("db", self.rng.choice(DB_MN), items),
                                         ("lab", self.label()), ("dc32", "dd", [("$",)])], "tag": "str"})
        return out

    def strings_bs0(self, n):
        out = []
        for raw in [b"\\\\0", b"a\\\\0b", b"\\\\\\\\0", b"c:\\\\0dir"]:
            out.append({"cpu": self.cpu(), "ds": [("db", "db", [("s", list(raw))]), ("lab", self.label())], "tag": "str-bs0"})
        for _ in range(n):
            out.append({"cpu": self.cpu(), "ds": [("db", self.rng.choice(DB_MN), [("s", gen_string(self.rng, allow_bs0=True))]),
                                                  ("lab", self.label())], "tag": "str-bs0"})
        return [p for p in out if any(it[0] == "s" and has_bs0(it[1]) for d in p["ds"] if d[0] == "db" for it in d[2])]

    # -- a chunk of data of n bytes made of arbitrary data directives
    def data(self, maxlen=12):
        r = self.rng
        k = r.randrange(8)
        small = lambda: N(r.choice([0, 1, 0x7f, 0x80, 0xff, -1, -128, r.randrange(256)]))
        if k == 0: return ("db", r.choice(DB_MN[:2]), [small() for _ in range(r.randrange(1, maxlen))])
        if k == 1: return ("dc16", r.choice(DC16_MN), [N(r.choice([0x1234, -2, 0xffff, -32768, r.randrange(65536)])) for _ in range(r.randrange(1, 5))])
        if k == 2: return ("dc32", r.choice(DC32_MN), [N(r.choice([0x12345678, -2, 1 << 31, r.getrandbits(34)])) for _ in range(r.randrange(1, 4))])
        if k == 3: return ("dc64", r.choice(DC64_MN), [N(r.choice([0x1122334455667788, -2, r.getrandbits(64)])) for _ in range(r.randrange(1, 3))])
        if k == 4: return ("fill", small(), N(r.choice([1, 2, 3, 7, 16, 33])))
        if k == 5: return ("db", r.choice(DB_MN), [("s", gen_string(r))])
        if k == 6: return ("bin", [r.randrange(256) for _ in range(r.choice([0, 1, 2, 5, 17]))])
        return ("db", "db", [small(), ("s", gen_string(r)), small()])

    # -- .org patterns
    def orgs(self, n):
        out, r = [], self.rng
        for _ in range(n):
            c = self.cpu()
            bpa = c["bpa"]
            ds = []
            pat = r.randrange(8)
            if pat == 0:       # backwards and overlapping
                base = r.choice([0x20, 0x100, 0xff00, 0x1fff0, 0x123456]) // bpa
                ds += [("org", N(base)), self.data(), ("lab", self.label()), ("org", N(max(0, base - r.randrange(1, 9)))), self.data(),
                       ("org", N(base + r.randrange(0, 3))), self.data()]
            elif pat == 1:     # across a 64 KiB page boundary
                page = r.choice([1, 2, 0x10, 0xff, 0x100, 0x7fff, 0x8000, 0xfffe, 0xffff])
                units = (page * 0x10000) // bpa
                ds += [("org", N(max(0, units - r.randrange(0, 6)))), ("lab", self.label()), self.data(), self.data(), ("lab", self.label()), self.data()]
            elif pat == 2:     # ends at / near the top of the address space
                top = (1 << 32) // bpa
                ds += [("org", N(top - r.randrange(1, 12))), ("lab", self.label()), self.data(6), ("lab", self.label())]
            elif pat == 3:     # pages visited in unsorted order, revisited
                pages = [r.choice([0, 1, 2, 5, 0x7f, 0x80, 0x100, 0x7fff, 0x8000, 0xffff]) for _ in range(r.randrange(2, 6))]
                for p in pages + pages[:2]:
                    ds += [("org", N((p * 0x10000 + r.choice([0, 1, 0xfffe, 0xffff, 0x8000])) // bpa)), self.data(5)]
                    if r.random() < 0.5: ds.append(("lab", self.label()))
            elif pat == 4:     # addresses > 2^24 and >= 2^31
                a = r.choice([0x1000000, 0x1000001, 0x7ffffff0, 0x7ffffffe, 0x80000000, 0x80000002, 0xc0000000, 0xfffffff0]) // bpa
                ds += [("org", N(a)), ("lab", self.label()), self.data(), ("lab", self.label()), ("dc32", "dc32", [("$",)])]
            elif pat == 5:     # reserve / align between data
                ds += [("org", N(r.choice([0, 1, 3, 0xfffd // bpa, 0x10000 // bpa]))), self.data(5), ("lab", self.label()),
                       (r.choice(["resb", "resw"]), N(r.choice([0, 1, 2, 3, 8, 0x100, 0x10000, 0xfffe]))), ("lab", self.label()), self.data(5),
                       self.align(pow2=True), ("lab", self.label()), self.data(5)]
            elif pat == 6:     # wraps around 2^32 (meaning not specified; model and code must still agree)
                top = (1 << 32) // bpa
                ds += [("org", N(top - r.randrange(1, 3))), self.data(), self.data(), ("lab", self.label()), ("dc32", "dd", [("$",)])]
            else:              # odd org values / values out of the address space
                ds += [("org", N(r.choice([-1, -2, 1 << 32, (1 << 32) + 0x10, (1 << 32) // bpa, (1 << 31), (1 << 63) + 5, -(1 << 31)]))),
                       ("lab", self.label()), self.data(4), ("lab", self.label())]
            if r.random() < 0.3: ds.insert(0, (r.choice(["be", "le"]),))
            out.append({"cpu": c, "ds": ds, "tag": "org%d" % pat})
        return out

    def align(self, pow2):
        r = self.rng
        if pow2:
            n = r.choice([1, 2, 4, 8, 16, 32, 64, 256, 1024])
        else:
            n = r.choice([3, 5, 6, 7, 12, 24, 100, 1000, 1023, 0x100000004])
        if r.random() < 0.5:
            return ("alignbits", r.choice(ALIGN_MN), N(n * 8))
        return ("alignbytes", N(n))

    def aligns(self, n):
        out, r = [], self.rng
        for i in range(n):
            c = self.cpu()
            start = r.choice([0, 1, 2, 3, 5, 7, 8, 9, 15, 31, 33, 0xffff, 0x10001, 1023, 1025])
            which = i % 4
            if which < 2:
                a, tag = self.align(True), "align"
            elif which == 2:
                a, tag = self.align(False), "align-odd"
            else:
                a = r.choice([("alignbytes", N(2048)), ("alignbytes", N(1025)), ("alignbits", "align", N(12)), ("alignbits", "align", N(4)),
                              ("alignbits", "align", N(8 * 2048)), ("alignbits", "align", N(9)), ("alignbytes", N((1 << 32) + 2048))])
                tag = "align-limit"
            ds = [("resb", N(start)), ("lab", self.label()), a, ("lab", self.label()), ("db", "db", [N(0xaa)]), ("dc32", "dc32", [("$",)])]
            if r.random() < 0.3:
                ds.insert(0, ("db", "db", [N(1)]))
            out.append({"cpu": c, "ds": ds, "tag": tag})
        # .align_bytes 0 : the loop runs until the counter wraps to 0; started close below 2^32 so that it is quick
        for k in (1, 5):
            c = self.cpu()
            out.append({"cpu": c, "ds": [("db", "db", [N(0x11)]), ("org", N(((1 << 32) - k * c["bpa"]) // c["bpa"])), ("db", "db", [N(0x22)]),
                                         ("alignbytes", N(0)), ("lab", self.label()), ("db", "db", [N(0x33)])], "tag": "align-zero"})
        out.append({"cpu": self.cpu(), "ds": [("alignbytes", N(0)), ("db", "db", [N(1)])], "tag": "align-zero"})
        # negative alignments: mask = n - 1 has almost all bits set; started where the loop stops soon
        for start, n in ((1, -4), (3, -4), (0, -1), (1, -1), (4, -4), (2, -8)):
            out.append({"cpu": self.cpu(), "ds": [("resb", N(start)), ("alignbytes", N(n)), ("lab", self.label()), ("db", "db", [N(0x44)])],
                        "tag": "align-negative"})
        return out

    # -- random sequences with labels and $ around every directive, forward and backward references
    def sequences(self, n, maxlen=10):
        out, r = [], self.rng
        for _ in range(n):
            c = self.cpu()
            bpa = c["bpa"]
            ds, labs = [], []
            all_labs = [self.label() for _ in range(r.randrange(1, 6))]
            pending = list(all_labs)
            for _ in range(r.randrange(1, maxlen)):
                if pending and r.random() < 0.5:
                    l = pending.pop(0); labs.append(l); ds.append(("lab", l))
                k = r.randrange(14)
                if k < 5: ds.append(self.data())
                elif k == 5: ds.append(("org", N(r.choice([0, 1, 0x10, 0x100, 0xfff0, 0xffff, 0x10000, 0x20000 - 2]) // (1 if r.random() < 0.5 else bpa))))
                elif k == 6: ds.append((r.choice(["resb", "resw"]), N(r.choice([0, 1, 2, 3, 5, 64]))))
                elif k == 7: ds.append(self.align(True))
                elif k == 8: ds.append((r.choice(["be", "le"]),))
                elif k == 9:   # $ as data
                    kind = r.choice(["dc16", "dc32", "dc64"])
                    ds.append((kind, {"dc16": "dw", "dc32": "dl", "dc64": "dq"}[kind], [("$",), N(1), ("$",)]))
                elif k == 10:  # label references, backward and forward
                    kind = r.choice(["dc16", "dc32", "dc64", "db"])
                    refs = [("@", r.choice(all_labs)) for _ in range(r.randrange(1, 3))]
                    ds.append((kind, {"dc16": "dc16", "dc32": "dc32", "dc64": "dc64", "db": "db"}[kind], refs))
                elif k == 11 and labs:  # location from a backward label or $
                    ds.append(("org", r.choice([("@", r.choice(labs)), ("$",)])))
                elif k == 12:
                    ds.append(("fill", r.choice([N(0xee), ("$",)]), r.choice([N(3), N(1), ("$",)])))
                else:
                    ds.append(("db", "db", [("$",), ("$",)]))
            for l in pending:
                ds.append(("lab", l))
            if r.random() < 0.5:
                ds.append(("dc32", "dc32", [("@", l) for l in all_labs] + [("$",)]))
            out.append({"cpu": c, "ds": ds, "tag": "seq"})
        return out

    def binfiles(self, n):
        out, r = [], self.rng
        sizes = [0, 1, 2, 255, 256, 8191, 8192, 8193, 16384 + 3]
        for i in range(n):
            c = self.cpu()
            size = sizes[i] if i < len(sizes) else r.randrange(0, 600)
            content = [r.choice([0, 0, 10, 13, 26, 34, 92, 255, r.randrange(256)]) for _ in range(size)]
            org = r.choice([0, 3, 0xfff0 // c["bpa"], (0x20000 - 100) // c["bpa"]])
            ds = [("org", N(org)), ("lab", self.label()), ("bin", content), ("lab", self.label()), ("dc32", "dc32", [("$",)])]
            if r.random() < 0.4:
                ds.insert(2, ("db", "db", [N(0x5a)]))
            out.append({"cpu": c, "ds": ds, "tag": "binfile"})
        return out

    # -- addresses >= 2^31 with $ / labels (signed location counter)
    def high_addresses(self, n):
        out, r = [], self.rng
        for _ in range(n):
            c = self.cpu()
            a = r.choice([0x80000000, 0x80000004, 0xa0000000, 0xfffffff0, 0x7ffffffc]) // c["bpa"]
            kind = r.choice(["dc32", "dc64", "dc16", "db"])
            mn = {"dc16": "dw", "dc32": "dl", "dc64": "dq", "db": "db"}[kind]
            l = self.label()
            ds = [("org", N(a)), ("lab", l), (kind, mn, [("$",)] if r.random() < 0.5 else [("@", l)]), ("db", "db", [N(7)]), ("lab", self.label())]
            out.append({"cpu": c, "ds": ds, "tag": "high-address"})
        return out


# ---------------------------------------------------------------- raw Memory operation sequences (`mem`)

def gen_mem_ops(rng, n):
    """structured op lists for the `mem` stream: clusters of addresses around page boundaries, 2^32 wrap,
    repeated addresses, both byte orders, all access widths"""
    bases = [0, 0xffff, 0x10000, 0x1ffff, 0x20000, 0x7fff0000, 0x7fffffff, 0x80000000, 0xfffeffff, 0xffff0000, 0xffffffff,
             0x12345678, 0x00ffffff, 0x01000000]
    lines = []
    for _ in range(n):
        endian = rng.choice("lb")
        ops, touched = [], []
        for _ in range(rng.randrange(1, 14)):
            if touched and rng.random() < 0.45:
                a = (rng.choice(touched) + rng.randrange(-4, 5)) & M32
            else:
                a = (rng.choice(bases) + rng.randrange(-4, 5)) & M32
            k = rng.randrange(12)
            if k == 0: ops.append("w8:%x:%x" % (a, rng.choice([0, 1, 0x80, 0xff, rng.randrange(256)])))
            elif k == 1: ops.append("w16:%x:%x" % (a, rng.choice([0, 0x1234, 0xff00, 0x00ff, rng.randrange(65536)])))
            elif k == 2: ops.append("w32:%x:%x" % (a, rng.choice([0, 0x12345678, 0xff000000, rng.getrandbits(32)])))
            elif k in (3, 4): ops.append("wd:%x:%x:%x" % (a, rng.randrange(256), rng.choice([0xfffffffe, 0xfffffffd, 1, 77, 0xffffffff, rng.getrandbits(31)])))
            elif k == 5: ops.append("wg:%x:%x" % (a, rng.choice([0xfffffffe, 5, 0xffffffff])))
            elif k == 6: ops.append("r8:%x" % a)
            elif k == 7: ops.append("r16:%x" % a)
            elif k == 8: ops.append("r32:%x" % a)
            elif k == 9: ops.append("rd:%x" % a)
            elif k == 10: ops.append("e:" + rng.choice("lb"))
            else: ops.append("r16:%x" % ((a - 1) & M32))
            touched.append(a)
        # read everything back
        for a in touched[:6]:
            ops += ["r8:%x" % a, "rd:%x" % a, "r32:%x" % ((a - 1) & M32)]
        lines.append("mem %s %s" % (endian, " ".join(ops)))
    return lines
