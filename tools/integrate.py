#!/usr/bin/env python3
"""integrate.py <agent verif copy> [--apply]: list / copy the files an agent added or changed.
Shared registration files are never copied; their diffs are printed for a manual merge."""
import os, sys, filecmp, shutil, subprocess
src = sys.argv[1].rstrip("/"); apply = "--apply" in sys.argv
dst = "/verif"
SHARED = {"lean/Driver/Main.lean", "harness/cmd_all.h", "harness/nv_dump_more.h", "lean/NakenVerif.lean", "MANIFEST.json",
          "known_findings.json", "lean/lakefile.toml", "tools/nvlib.py", "tools/check.py", "harness/nv_harness.cpp",
          "harness/cmd_prog.h", "harness/nv_dump.cpp", "harness/nv_dump_parts.h", "DESIGN.md", "CONVENTIONS.md", "AGENT_BRIEF.md",
          "tools/gen_src.py", "tools/props/C04.py", "tools/props/C12.py", "known_findings_sweep.json"}
SKIP_DIRS = {".git", ".build", ".lake", "__pycache__", "replay", "evidence"}
new, changed, shared = [], [], []
for root, dirs, files in os.walk(src):
    dirs[:] = [d for d in dirs if d not in SKIP_DIRS]
    for f in files:
        p = os.path.join(root, f); rel = os.path.relpath(p, src); q = os.path.join(dst, rel)
        if rel.startswith("lean/NakenVerif/Generated/"):
            if not os.path.exists(q): new.append(rel)
            continue
        if not os.path.exists(q): new.append(rel)
        elif not filecmp.cmp(p, q, shallow=False):
            (shared if rel in SHARED else changed).append(rel)
print("NEW:", *new, sep="\n  ")
print("CHANGED (non-shared, NOT copied unless --force-changed):", *changed, sep="\n  ")
print("SHARED (merge by hand):", *shared, sep="\n  ")
if apply:
    for rel in new + (changed if "--force-changed" in sys.argv else []):
        os.makedirs(os.path.dirname(os.path.join(dst, rel)), exist_ok=True)
        shutil.copy2(os.path.join(src, rel), os.path.join(dst, rel))
    print("copied", len(new), "new files")
if "--diff" in sys.argv:
    base = subprocess.run(["git", "-C", dst, "log", "--format=%H", "-1"], stdout=subprocess.PIPE).stdout.decode().strip()
    for rel in shared:
        print("=" * 20, rel)
        sys.stdout.write(subprocess.run(["diff", "-u", os.path.join(dst, rel), os.path.join(src, rel)], stdout=subprocess.PIPE).stdout.decode()[:6000])
