"""RISC-V RV32I part of the instruction-level properties C01, C06, C07, C08.

Exports, per property Cxx:  cxx_correspondence(ctx, corr), cxx_oracle(ctx, orc), CXX_THEOREMS,
plus LEAN_MODULES and replay(ctx, rec).  tools/props/C01.py ... C08.py iterate over CPU modules.

Independent reference ("Arch"): the RV32I base instruction formats of the RISC-V unprivileged ISA
manual (chapter "RV32I Base Integer Instruction Set" and the instruction-set listing table):
R/I/S/B/U/J layouts, immediate scrambling of B and J, opcode/funct3/funct7 of the 40 instructions,
and the manual's pseudo-instruction table.  Nothing here is derived from /repo.
"""
import os, re
import nvlib

CPU = "riscv"
M32 = 0xffffffff

LEAN_MODULES = ["NakenVerif.Riscv.Props", "NakenVerif.Riscv.RoundTrip", "NakenVerif.Riscv.NoLossy"]
P = "NakenVerif.Riscv."
C01_THEOREMS = [P + n for n in (
    "Arch.decode_encode", "Arch.encode_decode", "rv32i_encode_sound", "rv32i_encode_sound_defined", "rv32i_encode_len",
    "rv32i_fixpoint_structured", "table_spec_rows", "table_spec_names", "table_rows_known", "table_rt_rows",
    "rv32i_fence_sound", "fence_encode", "rv32i_fixpoint_exact", "encode_ne_lossy")]
C06_THEOREMS = [P + n for n in (
    "rv32i_encode_rejects_unfit", "rv32i_encode_injective_mod_field", "rv32i_encode_injective_imm12",
    "rv32i_encode_exact_field", "table_spec_rows")]
C07_THEOREMS = [P + n for n in (
    "rv32i_decode_encode_decode", "table_rt_rows", "table_fence_rows", "table_fence_type", "fence_encode", "toStmt_fence_iorw", "toStmt_fence_empty",
    "branch_zero_alias_counterexample")]
C08_THEOREMS = [P + n for n in (
    "rv32i_len_bounds", "rv32i_decode_local", "rv32i_text_fits", "rv32i_walk_tiles")]

MODELLED = ("RV32I rows (and the alias rows that shadow them) of table_riscv: parse_instruction_riscv operand "
            "packing, range checks, branch/jal offsets, row selection; disasm_riscv text and length; "
            "length for every word incl. compressed; disasm_range_riscv loop")
NOT_MODELLED = ("RISC-V F/D/A/V/CSR/privileged/compressed rows (length only), li/call/tail pseudo-instructions, "
                "symbols/expressions inside operands (C04/C11); riscv64 flag")

# =============================================================================================
# Arch: reference encoder / decoder written from the ISA manual
# =============================================================================================
R_OPS = {"add": (0, 0x00), "sub": (0, 0x20), "sll": (1, 0x00), "slt": (2, 0x00), "sltu": (3, 0x00),
         "xor": (4, 0x00), "srl": (5, 0x00), "sra": (5, 0x20), "or": (6, 0x00), "and": (7, 0x00)}
I_OPS = {"addi": 0, "slti": 2, "sltiu": 3, "xori": 4, "ori": 6, "andi": 7}
SH_OPS = {"slli": (1, 0x00), "srli": (5, 0x00), "srai": (5, 0x20)}
LOADS = {"lb": 0, "lh": 1, "lw": 2, "lbu": 4, "lhu": 5}
STORES = {"sb": 0, "sh": 1, "sw": 2}
BRANCHES = {"beq": 0, "bne": 1, "blt": 4, "bge": 5, "bltu": 6, "bgeu": 7}
ABI = ["zero", "ra", "sp", "gp", "tp", "t0", "t1", "t2", "s0", "s1", "a0", "a1", "a2", "a3", "a4", "a5",
       "a6", "a7", "s2", "s3", "s4", "s5", "s6", "s7", "s8", "s9", "s10", "s11", "t3", "t4", "t5", "t6"]
FENCE_BITS = {"sw": 0, "sr": 1, "so": 2, "si": 3, "pw": 4, "pr": 5, "po": 6, "pi": 7}   # bit of word[27:20]


def bits(w, hi, lo):
    return (w >> lo) & ((1 << (hi - lo + 1)) - 1)


def sext(v, n):
    v &= (1 << n) - 1
    return v - (1 << n) if v >> (n - 1) else v


def arch_encode(i):
    k = i[0]
    if k == "op":
        _, name, rd, rs1, rs2 = i
        f3, f7 = R_OPS[name]
        return f7 << 25 | rs2 << 20 | rs1 << 15 | f3 << 12 | rd << 7 | 0x33
    if k == "opimm":
        _, name, rd, rs1, imm = i
        return (imm & 0xfff) << 20 | rs1 << 15 | I_OPS[name] << 12 | rd << 7 | 0x13
    if k == "shift":
        _, name, rd, rs1, sh = i
        f3, f7 = SH_OPS[name]
        return f7 << 25 | (sh & 31) << 20 | rs1 << 15 | f3 << 12 | rd << 7 | 0x13
    if k == "load":
        _, name, rd, rs1, imm = i
        return (imm & 0xfff) << 20 | rs1 << 15 | LOADS[name] << 12 | rd << 7 | 0x03
    if k == "store":
        _, name, rs1, rs2, imm = i
        imm &= 0xfff
        return bits(imm, 11, 5) << 25 | rs2 << 20 | rs1 << 15 | STORES[name] << 12 | bits(imm, 4, 0) << 7 | 0x23
    if k == "branch":
        _, name, rs1, rs2, off = i
        o = off & 0x1fff
        return (bits(o, 12, 12) << 31 | bits(o, 10, 5) << 25 | rs2 << 20 | rs1 << 15 | BRANCHES[name] << 12 |
                bits(o, 4, 1) << 8 | bits(o, 11, 11) << 7 | 0x63)
    if k == "lui":
        return (i[2] & 0xfffff) << 12 | i[1] << 7 | 0x37
    if k == "auipc":
        return (i[2] & 0xfffff) << 12 | i[1] << 7 | 0x17
    if k == "jal":
        _, rd, off = i
        o = off & 0x1fffff
        return bits(o, 20, 20) << 31 | bits(o, 10, 1) << 21 | bits(o, 11, 11) << 20 | bits(o, 19, 12) << 12 | rd << 7 | 0x6f
    if k == "jalr":
        _, rd, rs1, imm = i
        return (imm & 0xfff) << 20 | rs1 << 15 | rd << 7 | 0x67
    if k == "fence":
        _, fm, pred, succ, rs1, rd = i
        return fm << 28 | pred << 24 | succ << 20 | rs1 << 15 | rd << 7 | 0x0f
    if k == "ecall":
        return 0x00000073
    if k == "ebreak":
        return 0x00100073
    raise ValueError(i)


def arch_decode(w):
    """RV32I base only; None for everything else."""
    op, rd, f3, rs1, rs2, f7 = bits(w, 6, 0), bits(w, 11, 7), bits(w, 14, 12), bits(w, 19, 15), bits(w, 24, 20), bits(w, 31, 25)
    inv = lambda d: {v: k for k, v in d.items()}
    if op == 0x33:
        n = inv(R_OPS).get((f3, f7))
        return ("op", n, rd, rs1, rs2) if n else None
    if op == 0x13:
        if f3 in (1, 5):
            n = inv(SH_OPS).get((f3, f7))
            return ("shift", n, rd, rs1, rs2) if n else None
        return ("opimm", inv(I_OPS)[f3], rd, rs1, bits(w, 31, 20))
    if op == 0x03:
        n = inv(LOADS).get(f3)
        return ("load", n, rd, rs1, bits(w, 31, 20)) if n else None
    if op == 0x23:
        n = inv(STORES).get(f3)
        return ("store", n, rs1, rs2, f7 << 5 | rd) if n else None
    if op == 0x63:
        n = inv(BRANCHES).get(f3)
        off = sext(bits(w, 31, 31) << 12 | bits(w, 7, 7) << 11 | bits(w, 30, 25) << 5 | bits(w, 11, 8) << 1, 13)
        return ("branch", n, rs1, rs2, off) if n else None
    if op == 0x37:
        return ("lui", rd, bits(w, 31, 12))
    if op == 0x17:
        return ("auipc", rd, bits(w, 31, 12))
    if op == 0x6f:
        off = sext(bits(w, 31, 31) << 20 | bits(w, 19, 12) << 12 | bits(w, 20, 20) << 11 | bits(w, 30, 21) << 1, 21)
        return ("jal", rd, off)
    if op == 0x67 and f3 == 0:
        return ("jalr", rd, rs1, bits(w, 31, 20))
    if op == 0x0f and f3 == 0:
        return ("fence", bits(w, 31, 28), bits(w, 27, 24), bits(w, 23, 20), rs1, rd)
    if w == 0x73:
        return ("ecall",)
    if w == 0x00100073:
        return ("ebreak",)
    return None


def canon(i):
    """canonical form of an intended instruction (immediates as field values)"""
    if i is None:
        return None
    return arch_decode(arch_encode(i))


# field ranges: union of the signed and the unsigned reading the architecture gives the field
def fits_imm12(v): return -2048 <= v <= 4095
def fits_shamt(v): return 0 <= v <= 31
def fits_imm20(v): return -(1 << 19) <= v <= (1 << 20) - 1
def fits_boff(o): return o % 2 == 0 and -4096 <= o <= 4094
def fits_joff(o): return o % 2 == 0 and -(1 << 20) <= o <= (1 << 20) - 2
FIELD_WIDTH = {"imm12": 12, "shamt": 5, "imm20": 20, "boff": 13, "joff": 21}
FITS = {"imm12": fits_imm12, "shamt": fits_shamt, "imm20": fits_imm20, "boff": fits_boff, "joff": fits_joff}


def narrow32(v):
    """what a 64-bit expression value means as a 32-bit operand, or None when it is not a 32-bit quantity"""
    if -(1 << 31) <= v <= M32:
        return sext(v, 32)
    return None


# =============================================================================================
# statement generator (table/type directed, boundary biased)
# =============================================================================================
class Case(object):
    __slots__ = ("text", "addr", "intent", "fit", "form", "group", "value", "mn", "note")

    def __init__(self, text, addr, intent=None, fit=None, form=None, group=None, value=None, mn=None, note=""):
        self.text, self.addr, self.intent, self.fit = text, addr, intent, fit
        self.form, self.group, self.value, self.mn, self.note = form, group, value, mn or text.split(" ")[0], note

    def to_dict(self):
        d = {k: getattr(self, k) for k in self.__slots__}
        d["intent"] = list(self.intent) if self.intent else None
        return d

    @staticmethod
    def from_dict(d):
        c = Case(d["text"], d["addr"])
        for k in Case.__slots__:
            setattr(c, k, d.get(k))
        c.intent = tuple(c.intent) if c.intent else None
        return c

    def line(self):
        return "asm1 %s %x - %s" % (CPU, self.addr, nvlib.hexs(self.text))


ADDRS = [0, 0x1000, 0x1000, 0x1000, 0x2004, 0x10002, 0x7ffffffc, 0x80000000, 0xffff0000, 0xfffffffc, 0xfffff000]


def reg_spelling(rng, n):
    r = rng.random()
    if r < 0.5:
        return "x%d" % n
    if r < 0.9:
        if n == 8 and rng.random() < 0.5:
            return "fp"
        return ABI[n]
    if r < 0.95:
        return "X%d" % n
    return "x%02d" % n


def pick_regnum(rng):
    return rng.choice([0, 1, 15, 31, 2, 8, rng.randrange(32), rng.randrange(32)])


def spell(rng, v, allow32=True):
    """a spelling whose 64-bit value narrows to v (v is a signed 32-bit quantity or 0..2^32-1)"""
    r = rng.random()
    if v < 0:
        if r < 0.6 or not allow32:
            return "-%d" % (-v) if r < 0.45 else "-0x%x" % (-v)
        return "0x%x" % (v & M32)          # 32-bit two's complement spelling
    if r < 0.5:
        return "%d" % v
    return "0x%x" % v


def imm_values(rng, kind, n_random):
    if kind == "imm12":
        b = [-2049, -2048, -2047, -1, 0, 1, 2047, 2048, 4094, 4095, 4096, 4097, -4096, -4095, 0x7fffffff, -0x80000000,
             0xffffffff, 0xfffff800, 0xfffff7ff, 0x80000000, 65535, 65536, -32768, -32769, 32767, 32768]
        lo, hi = -2048, 4095
    elif kind == "shamt":
        b = [-1, 0, 1, 15, 16, 30, 31, 32, 33, 63, 64, -32, -31, 0xffffffff, 0x7fffffff, -0x80000000, 4095, 4096]
        lo, hi = 0, 31
    else:
        b = [-(1 << 19) - 1, -(1 << 19), -(1 << 19) + 1, -1, 0, 1, (1 << 19) - 1, 1 << 19, (1 << 20) - 1, 1 << 20,
             (1 << 20) + 1, -(1 << 20), 0x7fffffff, -0x80000000, 0xffffffff, 0xfff80000, 0xfff7ffff, 0x80000000]
        lo, hi = -(1 << 19), (1 << 20) - 1
    out = list(b)
    for _ in range(n_random):
        out.append(rng.randrange(lo, hi + 1))
        w = hi - lo + 1
        out.append(rng.choice([lo - 1 - rng.randrange(w), hi + 1 + rng.randrange(w)]))
    # 64-bit values whose low 32 bits would fit: not 32-bit quantities at all
    out += [(1 << 32) + rng.choice([0, 1, hi]), (1 << 32) + (lo & M32), -(1 << 32) + rng.choice([0, 1, hi]),
            (1 << 40) + 5, (1 << 63) + 3]
    return out


def off_values(rng, kind, n_random):
    if kind == "boff":
        b = [-4100, -4098, -4097, -4096, -4095, -4094, -2, -1, 0, 1, 2, 3, 4, 2046, 2048, 4092, 4093, 4094, 4095, 4096,
             4097, 4098, 8192, -8192, 0x7ffffffe, -0x80000000]
        lo, hi = -4096, 4094
    else:
        M = 1 << 20
        b = [-M - 4, -M - 2, -M - 1, -M, -M + 1, -M + 2, -2, -1, 0, 1, 2, 4, 2048, 4096, M - 4, M - 3, M - 2, M - 1, M, M + 1,
             M + 2, 2 * M, -2 * M, 0x7ffffffe, -0x80000000]
        lo, hi = -M, M - 2
    out = list(b)
    for _ in range(n_random):
        out.append(rng.randrange(lo // 2, hi // 2 + 1) * 2)
        out.append(rng.randrange(lo, hi + 1) | 1)
        w = hi - lo + 2
        out.append(rng.choice([lo - 2 - 2 * rng.randrange(w // 2), hi + 2 + 2 * rng.randrange(w // 2)]))
    return out


def gen_cases(ctx, what="all"):
    """-> list of Case.  what: all | boundary (only the numeric-field groups)"""
    rng = ctx.rng
    cases = []
    gid = [0]

    def regs(k):
        ns = [pick_regnum(rng) for _ in range(k)]
        return ns, [reg_spelling(rng, n) for n in ns]

    def value_group(mn, kind, tmpl_fn, intent_fn, nrand, addr=None):
        """one group: same statement, only the numeric value varies"""
        gid[0] += 1
        a = rng.choice(ADDRS) if addr is None else addr
        ns, sp = tmpl_fn()
        for v in imm_values(rng, kind, nrand):
            n32 = narrow32(v)
            if n32 is None:
                fit, intent = False, None
                text_v = ("0x%x" % v) if v >= 0 else ("-0x%x" % (-v))
                note = "narrow64"
            else:
                fit = FITS[kind](n32)
                intent = intent_fn(ns, n32) if fit else None
                text_v = spell(rng, v) if v <= 0x7fffffff else "0x%x" % v
                note = ""
            cases.append(Case(sp(text_v), a, intent, fit, mn + ":" + kind, gid[0], n32 if n32 is not None else v, mn, note))

    def target_group(mn, kind, tmpl_fn, intent_fn, nrand):
        gid[0] += 1
        a = rng.choice(ADDRS)
        ns, sp = tmpl_fn()
        for off in off_values(rng, kind, nrand):
            t = (a + off) & M32
            fit = FITS[kind](off)
            r = rng.random()
            if r < 0.6:
                text_v = "0x%x" % t
            elif r < 0.8:
                text_v = "%d" % t
            else:
                text_v = "%d" % sext(t, 32)
            cases.append(Case(sp(text_v), a, intent_fn(ns, off) if fit else None, fit, mn + ":" + kind, gid[0], off, mn))
        # a target that is not a 32-bit quantity
        t = ((a + 8) & M32) + (1 << 32)
        cases.append(Case(sp("0x%x" % t), a, None, False, mn + ":" + kind, gid[0], t, mn, "narrow64"))

    reps = ctx.scale(2, 8)
    nrand = ctx.scale(3, 20)
    for _ in range(reps):
        for mn in I_OPS:
            def t():
                ns, s = regs(2)
                return ns, (lambda v: "%s %s, %s, %s" % (mn, s[0], s[1], v))
            value_group(mn, "imm12", t, lambda ns, v: ("opimm", mn, ns[0], ns[1], v & 0xfff), nrand)
        def tj():
            ns, s = regs(2)
            return ns, (lambda v: "jalr %s, %s, %s" % (s[0], s[1], v))
        value_group("jalr", "imm12", tj, lambda ns, v: ("jalr", ns[0], ns[1], v & 0xfff), nrand)
        for mn in SH_OPS:
            def t():
                ns, s = regs(2)
                return ns, (lambda v: "%s %s, %s, %s" % (mn, s[0], s[1], v))
            value_group(mn, "shamt", t, lambda ns, v: ("shift", mn, ns[0], ns[1], v & 31), nrand)
        for mn in ("lui", "auipc"):
            def t():
                ns, s = regs(1)
                return ns, (lambda v: "%s %s, %s" % (mn, s[0], v))
            value_group(mn, "imm20", t, lambda ns, v: (mn, ns[0], v & 0xfffff), nrand)
        for mn in LOADS:
            style = rng.choice(["paren", "paren", "three"])
            def t():
                ns, s = regs(2)
                if style == "paren":
                    return ns, (lambda v: "%s %s, %s(%s)" % (mn, s[0], v, s[1]))
                return ns, (lambda v: "%s %s, %s, %s" % (mn, s[0], s[1], v))
            value_group(mn, "imm12", t, lambda ns, v: ("load", mn, ns[0], ns[1], v & 0xfff), nrand)
        for mn in STORES:
            style = rng.choice(["paren", "paren", "three"])
            def t():
                ns, s = regs(2)
                if style == "paren":
                    return ns, (lambda v: "%s %s, %s(%s)" % (mn, s[0], v, s[1]))
                return ns, (lambda v: "%s %s, %s, %s" % (mn, s[0], s[1], v))
            value_group(mn, "imm12", t, lambda ns, v: ("store", mn, ns[1], ns[0], v & 0xfff), nrand)
        for mn in BRANCHES:
            def t():
                ns, s = regs(2)
                return ns, (lambda v: "%s %s, %s, %s" % (mn, s[0], s[1], v))
            target_group(mn, "boff", t, lambda ns, o: ("branch", mn, ns[0], ns[1], o), nrand)
        def tjal():
            ns, s = regs(1)
            return ns, (lambda v: "jal %s, %s" % (s[0], v))
        target_group("jal", "joff", tjal, lambda ns, o: ("jal", ns[0], o), nrand)
        # pseudo-instructions with a numeric field (manual, table of pseudo-instructions)
        for mn, real, swap in (("beqz", "beq", 0), ("bnez", "bne", 0), ("blez", "bge", 1), ("bgez", "bge", 0),
                               ("bltz", "blt", 0), ("bgtz", "blt", 1)):
            def t():
                ns, s = regs(1)
                return ns, (lambda v: "%s %s, %s" % (mn, s[0], v))
            target_group(mn, "boff", t, (lambda ns, o, real=real, swap=swap:
                                         ("branch", real, 0, ns[0], o) if swap else ("branch", real, ns[0], 0, o)), nrand)
        for mn, real in (("bgt", "blt"), ("ble", "bge"), ("bgtu", "bltu"), ("bleu", "bgeu")):
            def t():
                ns, s = regs(2)
                return ns, (lambda v: "%s %s, %s, %s" % (mn, s[0], s[1], v))
            target_group(mn, "boff", t, lambda ns, o, real=real: ("branch", real, ns[1], ns[0], o), nrand)
        for mn, rd in (("j", 0), ("jal", 1)):
            def t():
                return [], (lambda v: "%s %s" % (mn, v))
            target_group(mn, "joff", t, lambda ns, o, rd=rd: ("jal", rd, o), nrand)
    if what == "boundary":
        return cases

    # forms without a numeric field: every mnemonic x register choices
    nreg = ctx.scale(10, 60)
    for mn in R_OPS:
        for _ in range(nreg):
            ns, s = regs(3)
            cases.append(Case("%s %s, %s, %s" % (mn, s[0], s[1], s[2]), rng.choice(ADDRS), ("op", mn, ns[0], ns[1], ns[2]), mn=mn))
    for mn, f in (("mv", lambda a, b: ("opimm", "addi", a, b, 0)), ("not", lambda a, b: ("opimm", "xori", a, b, 0xfff)),
                  ("neg", lambda a, b: ("op", "sub", a, 0, b)), ("seqz", lambda a, b: ("opimm", "sltiu", a, b, 1)),
                  ("snez", lambda a, b: ("op", "sltu", a, 0, b)), ("sltz", lambda a, b: ("op", "slt", a, b, 0)),
                  ("sgtz", lambda a, b: ("op", "slt", a, 0, b))):
        for _ in range(nreg):
            ns, s = regs(2)
            cases.append(Case("%s %s, %s" % (mn, s[0], s[1]), rng.choice(ADDRS), f(ns[0], ns[1]), mn=mn))
    for mn, rd in (("jr", 0), ("jalr", 1)):
        for _ in range(nreg):
            ns, s = regs(1)
            cases.append(Case("%s %s" % (mn, s[0]), rng.choice(ADDRS), ("jalr", rd, ns[0], 0), mn=mn))
    for a in ADDRS:
        cases.append(Case("nop", a, ("opimm", "addi", 0, 0, 0)))
        cases.append(Case("ret", a, ("jalr", 0, 1, 0)))
        cases.append(Case("ecall", a, ("ecall",)))
        cases.append(Case("ebreak", a, ("ebreak",)))
        # manual: "fence" without operands is the pseudo-instruction fence iorw, iorw
        cases.append(Case("fence", a, ("fence", 0, 15, 15, 0, 0), note="fence-bare"))
    names = sorted(FENCE_BITS)
    for _ in range(ctx.scale(4, 12)):
        k = rng.randrange(1, 5)
        fl = rng.sample(names, k)
        w = 0
        for f in fl:
            w |= 1 << FENCE_BITS[f]
        cases.append(Case("fence " + ", ".join(fl), rng.choice(ADDRS), ("fence", 0, w >> 4, w & 15, 0, 0), note="fence-flags"))
    # register numbers that do not exist
    for bad in ("x32", "x33", "x99", "x100", "x255", "x256", "t7", "a8", "s12", "x-1", "x1x", "r1"):
        cases.append(Case("add %s, x1, x2" % bad, 0x1000, None, False, "add:reg", None, None, "add", "badreg"))
        cases.append(Case("addi x1, %s, 5" % bad, 0x1000, None, False, "addi:reg", None, None, "addi", "badreg"))
        cases.append(Case("lw x1, 4(%s)" % bad, 0x1000, None, False, "lw:reg", None, None, "lw", "badreg"))
    # operand count / kind errors (must not be accepted as something else)
    for t in ("add x1, x2", "add x1, x2, 3", "addi x1, x2", "addi x1, 2, x3", "lui x1", "lui x1, x2", "jal x1, x2",
              "beq x1, x2", "beq x1, 4, 8", "ecall x1", "nop 1", "sw x1, x2", "slli x1, x2, x3", "lw x1, 4(x2), 5",
              "add x1, x2, x3, x4", "add x1 x2 x3"):
        cases.append(Case(t, 0x1000, None, False, "syntax", None, None, None, "syntax"))
    return cases


def fragment_ok(text):
    """statements inside the fragment the Lean operand parser models (identifiers, - decimal/hex numbers, ( ) ,)"""
    return re.fullmatch(r"[A-Za-z0-9_.,()\- ]*", text) is not None


# =============================================================================================
# word generators for the decoder side
# =============================================================================================
def gen_words(ctx, n_extra):
    """(addr, word) : every opcode[6:2] x funct3 x funct7 pattern with sampled/boundary fields + valid RV32I"""
    rng = ctx.rng
    out = []
    edge = [0, 1, 31]
    per = ctx.scale(1, 4)
    for op5 in range(32):
        for f3 in range(8):
            for f7 in range(128):
                for _ in range(per):
                    rd = rng.choice(edge + [rng.randrange(32)])
                    rs1 = rng.choice(edge + [rng.randrange(32)])
                    rs2 = rng.choice(edge + [rng.randrange(32)])
                    w = f7 << 25 | rs2 << 20 | rs1 << 15 | f3 << 12 | rd << 7 | op5 << 2 | 3
                    out.append((rng.choice(ADDRS), w))
    for _ in range(n_extra):
        i = random_instr(rng)
        out.append((rng.choice(ADDRS), arch_encode(i)))
    for w in (0, M32, 0x00000013, 0x00008067, 0x0000000f, 0x0ff0000f, 0x8330000f, 0x00100073, 0x00000073, 0x00200073,
              0xfff00013 | 3 << 12, 0x00103013, 0x00002033, 0x0002d063, 0x00505063, 0xfe000ee3, 0x7ffff06f, 0x800000ef):
        out.append((0x1000, w))
    return out


def random_instr(rng):
    k = rng.randrange(12)
    r = lambda: pick_regnum(rng)
    i12 = lambda: rng.choice([0, 1, 2047, 2048, 4095, rng.randrange(4096)])
    if k == 0: return ("op", rng.choice(sorted(R_OPS)), r(), r(), r())
    if k == 1: return ("opimm", rng.choice(sorted(I_OPS)), r(), r(), i12())
    if k == 2: return ("shift", rng.choice(sorted(SH_OPS)), r(), r(), rng.choice([0, 1, 31, rng.randrange(32)]))
    if k == 3: return ("load", rng.choice(sorted(LOADS)), r(), r(), i12())
    if k == 4: return ("store", rng.choice(sorted(STORES)), r(), r(), i12())
    if k == 5: return ("branch", rng.choice(sorted(BRANCHES)), r(), r(), rng.choice([-4096, -2, 0, 2, 4094, rng.randrange(-2048, 2048) * 2]))
    if k == 6: return (rng.choice(["lui", "auipc"]), r(), rng.choice([0, 1, 0x7ffff, 0x80000, 0xfffff, rng.randrange(1 << 20)]))
    if k == 7: return ("jal", r(), rng.choice([-(1 << 20), -2, 0, 2, (1 << 20) - 2, rng.randrange(-(1 << 19), 1 << 19) * 2]))
    if k == 8: return ("jalr", r(), r(), i12())
    if k == 9: return ("fence", 0, rng.randrange(16), rng.randrange(16), 0, 0)
    if k == 10: return ("ecall",)
    return ("ebreak",)


def gen_halfwords(ctx):
    rng = ctx.rng
    if ctx.quick():
        hs = [rng.randrange(1 << 16) for _ in range(3000)]
    else:
        hs = list(range(1 << 16))
    return [(rng.choice(ADDRS), h) for h in hs if h & 3 != 3]


def le32(w):
    return "%02x%02x%02x%02x" % (w & 255, w >> 8 & 255, w >> 16 & 255, w >> 24 & 255)


def le16(h):
    return "%02x%02x" % (h & 255, h >> 8 & 255)


def gen_walks(ctx, n):
    """(start, end, bytes): byte strings mixing valid RV32I words, unknown opcodes, compressed halfwords, noise;
    ranges that end inside an instruction, of length 1, and unaligned starts"""
    rng = ctx.rng
    out = []
    for _ in range(n):
        buf = b""
        for _ in range(rng.randrange(1, 12)):
            r = rng.random()
            if r < 0.35:
                buf += bytes.fromhex(le32(arch_encode(random_instr(rng))))
            elif r < 0.5:
                buf += bytes.fromhex(le32(rng.getrandbits(32) | 3))
            elif r < 0.6:
                buf += bytes.fromhex(le32(M32 if rng.random() < 0.5 else 0x0000007f | rng.getrandbits(25) << 7))
            elif r < 0.85:
                h = rng.getrandbits(16)
                if h & 3 == 3:
                    h &= ~1
                buf += bytes.fromhex(le16(h))
            else:
                buf += bytes(rng.getrandbits(8) for _ in range(rng.randrange(1, 6)))
        start = rng.choice([0, 0x1000, 0x1002, 0x1001, 0xfffc, 0xfffe, 0x7ffffff0, 0xffffff00, 0x2003])
        end = start + rng.choice([0, 1, 2, 3, len(buf) - 1, len(buf) - 1, max(0, len(buf) - 2), rng.randrange(len(buf)),
                                  len(buf) + 3])
        out.append((start, end, buf + bytes(8) if rng.random() < 0.5 else buf))
    return out


# =============================================================================================
# helpers
# =============================================================================================
def parse_dis(ans):
    """'<len> <hex text>' -> (len, text) ; ('nonul', len) ; None for a dead harness"""
    if ans.startswith("DIED") or ans == "MISSING" or ans == "bad-op":
        return None
    p = ans.split(" ")
    if p[0] == "nonul":
        return ("nonul", int(p[1]))
    return (int(p[0]), nvlib.unhex(p[1]).decode("latin-1"))


def norm_text(t):
    """mnemonic + operands with numerals normalised (the numeric normalisation of C07)"""
    toks = re.findall(r"[A-Za-z_.][A-Za-z0-9_.]*|0x[0-9a-fA-F]+|\d+|[^\s]", t)
    out = []
    for x in toks:
        if re.fullmatch(r"0x[0-9a-fA-F]+", x):
            out.append(int(x, 16))
        elif x.isdigit():
            out.append(int(x))
        else:
            out.append(x)
    return out


def crash_sig(prop, c_text, ans):
    mn = c_text.split(" ")[0] if c_text else "?"
    if mn == "fence" and len(c_text.split()) > 1 and "index -1 out of bounds" in ans:
        return "%s:crash:fence-flags" % prop
    return "%s:crash:%s" % (prop, c_text)


def add_stream(corr, name, d):
    corr["streams"][name] = d


def merge_counts(res, key, n):
    res[key] = res.get(key, 0) + n


def norm_impl_for_model(a):
    """impl answers as the model words them: a sanitizer abort on operands[-1] is the model's explicit fault"""
    if a.startswith("DIED") and "index -1 out of bounds for type '_operand [6]'" in a:
        return "fault"
    return a


def compare(corr, lines, impl, model, stream, relax_dis=False):
    hist = {}
    unm = 0
    for l, a, b in zip(lines, impl, model):
        a = norm_impl_for_model(a)
        k = a.split(" ")[0]
        hist[k] = hist.get(k, 0) + 1
        if b == "unmodelled":
            unm += 1
            continue
        if relax_dis and b.endswith(" ?"):
            unm += 1
            if a.split(" ")[0] != b.split(" ")[0]:
                corr["disagreements"].append({"line": l, "impl": a, "model": b})
            continue
        if a != b:
            corr["disagreements"].append({"line": l, "impl": a, "model": b})
    corr["cases"] += len(lines)
    add_stream(corr, stream, {"lines": len(lines), "impl_answer_kinds": hist, "compared_length_only_or_unmodelled": unm})
    corr["distinct_nontrivial"] = corr.get("distinct_nontrivial", 0) + len(set(lines))
    corr.setdefault("samples", [])
    step = max(1, len(lines) // 3)
    corr["samples"] += [{"line": lines[i], "impl": impl[i], "model": model[i]} for i in range(0, len(lines), step)][:3]


def corpus_lines(prop):
    cp = os.path.join(nvlib.VERIF, "corpus", prop, "rv32i_lines.txt")
    if os.path.exists(cp):
        return [l.strip() for l in open(cp) if l.strip() and not l.startswith("#")]
    return []


# =============================================================================================
# C01
# =============================================================================================
def c01_correspondence(ctx, corr):
    cases = [c for c in gen_cases(ctx) if fragment_ok(c.text)]
    ctx.notes["rv_c01_cases"] = cases
    lines = corpus_lines("C01") + [c.line() for c in cases]
    h, d = ctx.both(lines)
    ctx.notes["rv_c01_impl"] = h[len(lines) - len(cases):]
    compare(corr, lines, h, d, "rv32i.asm1")
    # decoder on every emitted word (text + length) and the walk over exactly those bytes
    dl = []
    for c, a in zip(cases, ctx.notes["rv_c01_impl"]):
        if a.startswith("ok "):
            dl.append("dis %s %x %s" % (CPU, c.addr, a[3:]))
            if c.addr + 8 <= M32:
                dl.append("walk %s %x %x %s" % (CPU, c.addr, c.addr + len(a[3:]) // 2 - 1, a[3:]))
    dl = sorted(set(dl))
    h2, d2 = ctx.both(dl)
    compare(corr, dl, h2, d2, "rv32i.dis+walk(emitted)", relax_dis=True)


def check_c01(ctx, cases, stats, impl=None):
    fails = []
    ans = impl if impl is not None else ctx.impl([c.line() for c in cases])
    acc = []
    for c, a in zip(cases, ans):
        merge_counts(stats, "asm1", 1)
        if a.startswith("DIED") or a in ("MISSING", "bad-op"):
            fails.append({"sig": crash_sig("C01", c.text, a), "input": "%s @%x" % (c.text, c.addr), "expected": "bytes or an error",
                          "observed": a, "what": "assembler crashed / sanitizer report", "case": c.to_dict()})
            continue
        if a == "err":
            merge_counts(stats, "rejected", 1)
            continue
        merge_counts(stats, "accepted", 1)
        if not a.startswith("ok ") or len(a) != 3 + 8:
            fails.append({"sig": "C01:layout:%s" % c.mn, "input": "%s @%x" % (c.text, c.addr), "expected": "4 bytes at the address",
                          "observed": a, "what": "emitted bytes are not one 4-byte run at the statement's address", "case": c.to_dict()})
            continue
        b = bytes.fromhex(a[3:])
        w = int.from_bytes(b, "little")
        if c.intent is not None:
            merge_counts(stats, "arch_checked", 1)
            want = arch_encode(c.intent)
            if w != want or arch_decode(w) != canon(c.intent):
                tag = c.note if c.note in ("fence-bare",) else c.mn
                fails.append({"sig": "C01:arch:%s" % tag, "input": "%s @%x" % (c.text, c.addr),
                              "expected": "%08x %r" % (want, canon(c.intent)), "observed": "%08x %r" % (w, arch_decode(w)),
                              "what": "emitted word is not the encoding the ISA manual defines", "case": c.to_dict()})
        acc.append((c, b))
    lines = []
    for c, b in acc:
        lines.append("dis %s %x %s" % (CPU, c.addr, b.hex()))
        lines.append("walk %s %x %x %s" % (CPU, c.addr, c.addr + len(b) - 1, b.hex()) if c.addr + 8 <= M32 else "dis %s 0 00" % CPU)
    res = ctx.impl(lines)
    re_lines, re_idx = [], []
    for n, (c, b) in enumerate(acc):
        d, wk = parse_dis(res[2 * n]), res[2 * n + 1]
        where = "%s @%x -> %s" % (c.text, c.addr, b.hex())
        if d is None or d[0] == "nonul":
            fails.append({"sig": "C01:dis-crash:%s" % c.mn, "input": where, "expected": "text", "observed": res[2 * n],
                          "what": "disassembler died on emitted bytes", "case": c.to_dict()})
            continue
        if d[0] != len(b):
            fails.append({"sig": "C01:length:%s" % c.mn, "input": where, "expected": str(len(b)), "observed": str(d[0]),
                          "what": "disassembler consumed another number of bytes than were emitted", "case": c.to_dict()})
        if c.addr + 8 <= M32:
            merge_counts(stats, "walks", 1)
            if wk != "%x" % c.addr:
                fails.append({"sig": "C01:walk:%s" % c.mn, "input": where, "expected": "%x" % c.addr, "observed": wk,
                              "what": "walking the disassembler over the emitted bytes did not consume exactly them",
                              "case": c.to_dict()})
        re_lines.append("asm1 %s %x - %s" % (CPU, c.addr, nvlib.hexs(d[1])))
        re_idx.append((c, b, d[1]))
    res2 = ctx.impl(re_lines)
    for (c, b, txt), a in zip(re_idx, res2):
        if a.startswith("DIED") or a in ("MISSING", "bad-op"):
            fails.append({"sig": crash_sig("C01", txt, a), "input": "%s @%x" % (txt, c.addr), "expected": "bytes or an error",
                          "observed": a, "what": "assembler crashed on disassembly text", "case": c.to_dict()})
        elif a == "err":
            merge_counts(stats, "text_rejected", 1)
        else:
            merge_counts(stats, "text_reassembled", 1)
            if a != "ok " + b.hex():
                fails.append({"sig": "C01:fixpoint:%s:%s" % (c.mn, txt.split(" ")[0]), "input": "%s @%x -> %s -> '%s'" % (c.text, c.addr, b.hex(), txt),
                              "expected": "ok " + b.hex(), "observed": a,
                              "what": "assembling the disassembly of the emitted bytes gives other bytes", "case": c.to_dict()})
    return fails


def c01_oracle(ctx, orc):
    cases = ctx.notes.get("rv_c01_cases")
    impl = ctx.notes.get("rv_c01_impl")
    if cases is None:
        cases, impl = [c for c in gen_cases(ctx)], None
    # statements outside the model's fragment are exercised here only
    stats = orc["stats"].setdefault("rv32i", {})
    fails = check_c01(ctx, cases, stats, impl)
    for f in fails:
        f["replay"] = {"cpu": "rv32i", "prop": "C01", "case": f.pop("case")}
    orc["failures"] += fails
    orc["cases"] += stats.get("asm1", 0) + 2 * stats.get("accepted", 0) + stats.get("text_rejected", 0) + stats.get("text_reassembled", 0)
    orc["distinct_nontrivial"] = orc.get("distinct_nontrivial", 0) + len(set((c.text, c.addr) for c in cases))
    orc.setdefault("samples", [])
    orc["samples"] += [{"stmt": c.text, "addr": "%x" % c.addr, "intent": c.intent} for c in cases[:: max(1, len(cases) // 3)]][:3]


# =============================================================================================
# C06
# =============================================================================================
def c06_correspondence(ctx, corr):
    cases = [c for c in gen_cases(ctx, "boundary") if fragment_ok(c.text)]
    lines = corpus_lines("C06") + [c.line() for c in cases]
    h, d = ctx.both(lines)
    ctx.notes["rv_c06_cases"] = cases
    ctx.notes["rv_c06_impl"] = h[len(lines) - len(cases):]
    compare(corr, lines, h, d, "rv32i.asm1(boundary)")
    by = {}
    for c in cases:
        by[c.form] = by.get(c.form, 0) + 1
    corr["streams"]["rv32i.asm1(boundary)"]["forms"] = len(by)


def check_c06(ctx, cases, stats, impl=None):
    fails = []
    ans = impl if impl is not None else ctx.impl([c.line() for c in cases])
    groups = {}
    for c, a in zip(cases, ans):
        merge_counts(stats, "asm1", 1)
        where = "%s @%x" % (c.text, c.addr)
        if a.startswith("DIED") or a in ("MISSING", "bad-op"):
            fails.append({"sig": crash_sig("C06", c.text, a), "input": where, "expected": "bytes or an error", "observed": a,
                          "what": "assembler crashed", "case": c.to_dict()})
            continue
        if a == "err":
            merge_counts(stats, "rejected", 1)
            if c.fit:
                merge_counts(stats, "fitting_value_rejected(allowed)", 1)
            continue
        merge_counts(stats, "accepted", 1)
        if c.fit is False:
            kind = "narrow64" if c.note == "narrow64" else ("reg" if c.note == "badreg" else "syntax" if c.note == "syntax" else "unfit")
            fails.append({"sig": "C06:%s:%s" % (kind, c.form), "input": where, "expected": "err (value %s does not fit)" % (c.value,),
                          "observed": a, "what": {"narrow64": "a value that is not a 32-bit quantity was accepted as its low 32 bits",
                                                  "unfit": "a value outside the field's range was accepted (wrapped/masked into the field)",
                                                  "reg": "a register number that does not exist was accepted",
                                                  "syntax": "a malformed statement was accepted"}[kind], "case": c.to_dict()})
            continue
        if c.group is not None and c.fit:
            groups.setdefault(c.group, []).append((c, a))
        if c.fit and c.intent is not None and a.startswith("ok ") and len(a) == 11:
            w = int.from_bytes(bytes.fromhex(a[3:]), "little")
            if w != arch_encode(c.intent):
                fails.append({"sig": "C06:field:%s" % c.form, "input": where, "expected": "%08x" % arch_encode(c.intent),
                              "observed": "%08x" % w, "what": "the operand value is not the value encoded in the field",
                              "case": c.to_dict()})
    # injectivity modulo field width inside each group
    for g, items in groups.items():
        seen = {}
        for c, a in items:
            wd = FIELD_WIDTH[c.form.split(":")[1]]
            key = c.value % (1 << wd)
            merge_counts(stats, "injectivity_pairs", len(seen))
            for k2, (c2, a2) in seen.items():
                if k2 != key and a2 == a:
                    fails.append({"sig": "C06:collision:%s" % c.form, "input": "%s | %s @%x" % (c2.text, c.text, c.addr),
                                  "expected": "different bytes", "observed": a, "what": "two different field values share an encoding",
                                  "case": c.to_dict()})
            seen.setdefault(key, (c, a))
    return fails


def c06_oracle(ctx, orc):
    cases, impl = ctx.notes.get("rv_c06_cases"), ctx.notes.get("rv_c06_impl")
    if cases is None:
        cases, impl = gen_cases(ctx, "boundary"), None
    extra = [c for c in gen_cases(ctx) if c.note in ("badreg", "syntax")]
    stats = orc["stats"].setdefault("rv32i", {})
    fails = check_c06(ctx, cases, stats, impl) + check_c06(ctx, extra, stats)
    for f in fails:
        f["replay"] = {"cpu": "rv32i", "prop": "C06", "case": f.pop("case")}
    orc["failures"] += fails
    orc["cases"] += len(cases) + len(extra)
    forms = {}
    for c in cases:
        forms.setdefault(c.form, [0, 0])[0 if c.fit else 1] += 1
    stats["forms(fit,unfit)"] = {k: tuple(v) for k, v in sorted(forms.items())}
    orc["distinct_nontrivial"] = orc.get("distinct_nontrivial", 0) + len(set((c.text, c.addr) for c in cases))
    orc.setdefault("samples", [])
    orc["samples"] += [{"stmt": c.text, "addr": "%x" % c.addr, "fits": c.fit} for c in cases[:: max(1, len(cases) // 3)]][:3]


# =============================================================================================
# C07
# =============================================================================================
def c07_items(ctx):
    words = gen_words(ctx, ctx.scale(3000, 30000))
    if ctx.quick():
        words = [x for n, x in enumerate(words) if n % 4 == ctx.seed % 4 or n >= 32768]
    return words


def c07_correspondence(ctx, corr):
    items = c07_items(ctx)
    ctx.notes["rv_c07_items"] = items
    lines = corpus_lines("C07") + ["dis %s %x %s" % (CPU, a, le32(w)) for a, w in items]
    h, d = ctx.both(lines)
    ctx.notes["rv_c07_dis"] = h[len(lines) - len(items):]
    compare(corr, lines, h, d, "rv32i.dis(words)", relax_dis=True)
    # the assembler model on every disassembly text the real decoder produced (inside the parser fragment)
    tl = set()
    nf = 0
    for (a, w), r in zip(items, ctx.notes["rv_c07_dis"]):
        p = parse_dis(r)
        if p and p[0] != "nonul" and p[1].startswith("fence "):
            nf += 1
            if nf > 4:
                continue
        if p and p[0] != "nonul" and p[1] != "???":
            tl.add("asm1 %s %x - %s" % (CPU, a, nvlib.hexs(p[1])))
    tl = sorted(tl)
    h2, d2 = ctx.both(tl)
    ctx.notes["rv_c07_re"] = dict(zip(tl, h2))
    compare(corr, tl, h2, d2, "rv32i.asm1(disassembly text)")
    # the decoder's structured reading (Disasm.toStmt, what the C07 theorems are about) re-assembled by the model
    # against the real pipeline  dis -> text -> asm1
    rl, ri = [], []
    for (a, w), r in zip(items, ctx.notes["rv_c07_dis"]):
        p = parse_dis(r)
        if not p or p[0] == "nonul":
            continue
        if p[1] == "???":
            want = "none"
        else:
            want = ctx.notes["rv_c07_re"].get("asm1 %s %x - %s" % (CPU, a, nvlib.hexs(p[1])))
            if want is None:
                continue
        rl.append("rt %s %x %s" % (CPU, a, le32(w)))
        ri.append(want)
    compare(corr, rl, ri, ctx.model(rl), "rv32i.rt(toStmt;encode vs dis;asm1)")


def check_c07(ctx, items, stats, dis=None, re_cache=None):
    fails = []
    if dis is None:
        dis = ctx.impl(["dis %s %x %s" % (CPU, a, le32(w)) for a, w in items])
    todo = []
    for (a, w), r in zip(items, dis):
        merge_counts(stats, "words", 1)
        p = parse_dis(r)
        if p is None or p[0] == "nonul":
            fails.append({"sig": "C07:dis-crash:%08x" % w, "input": "%08x @%x" % (w, a), "expected": "text", "observed": r,
                          "what": "disassembler died", "item": [a, w]})
            continue
        if p[1] == "???":
            merge_counts(stats, "not_an_instruction", 1)
            continue
        # every "fence <flags>" text takes the same crashing path (150 ms per sanitizer report): a few are enough
        if p[1].startswith("fence "):
            merge_counts(stats, "fence_flag_texts", 1)
            if stats["fence_flag_texts"] > 4:
                continue
        todo.append((a, w, p[1]))
    lines = ["asm1 %s %x - %s" % (CPU, a, nvlib.hexs(t)) for a, w, t in todo]
    if re_cache is not None and all(l in re_cache for l in lines):
        res = [re_cache[l] for l in lines]
    else:
        uniq = sorted(set(lines))
        got = dict(zip(uniq, ctx.impl(uniq)))
        res = [got[l] for l in lines]
    again = []
    for (a, w, t), r in zip(todo, res):
        if r.startswith("DIED") or r in ("MISSING", "bad-op"):
            fails.append({"sig": crash_sig("C07", t, r), "input": "%08x @%x -> '%s'" % (w, a, t), "expected": "bytes or an error",
                          "observed": r, "what": "assembler crashed on disassembly text", "item": [a, w]})
        elif r == "err":
            merge_counts(stats, "text_rejected", 1)
        elif r.startswith("ok "):
            merge_counts(stats, "text_accepted", 1)
            again.append((a, w, t, r[3:]))
        else:
            merge_counts(stats, "text_accepted_other_layout", 1)
    res3 = ctx.impl(["dis %s %x %s" % (CPU, a, b) for a, w, t, b in again])
    for (a, w, t, b), r in zip(again, res3):
        p = parse_dis(r)
        if b == le32(w):
            merge_counts(stats, "same_bytes", 1)
        if p is None or p[0] == "nonul" or norm_text(p[1]) != norm_text(t):
            fails.append({"sig": "C07:refix:%s" % t.split(" ")[0], "input": "%08x @%x -> '%s' -> %s" % (w, a, t, b),
                          "expected": t, "observed": r if p is None else p[1],
                          "what": "decode -> encode -> decode gives another instruction", "item": [a, w]})
    return fails


def c07_oracle(ctx, orc):
    items = ctx.notes.get("rv_c07_items")
    dis = ctx.notes.get("rv_c07_dis")
    if items is None:
        items, dis = c07_items(ctx), None
    stats = orc["stats"].setdefault("rv32i", {})
    fails = check_c07(ctx, items, stats, dis, ctx.notes.get("rv_c07_re"))
    # compressed half words: same round trip, counted separately (not an RV32I claim)
    stats_c = orc["stats"].setdefault("riscv-compressed(not modelled; oracle only)", {})
    hw = gen_halfwords(ctx)[: ctx.scale(1500, 49152)]
    fc = check_c07(ctx, [(a, h) for a, h in hw], stats_c)
    stats_c["round_trip_differences"] = len(fc)
    fails += fc
    for f in fails:
        f["replay"] = {"cpu": "rv32i", "prop": "C07", "item": f.pop("item")}
    orc["failures"] += fails
    orc["cases"] += len(items) + stats.get("text_accepted", 0) * 2 + stats.get("text_rejected", 0) + len(hw)
    orc["distinct_nontrivial"] = orc.get("distinct_nontrivial", 0) + len(set(w for a, w in items))
    orc.setdefault("samples", [])
    orc["samples"] += [{"word": "%08x" % w, "addr": "%x" % a} for a, w in items[:: max(1, len(items) // 3)]][:3]


# =============================================================================================
# C08
# =============================================================================================
def c08_dis_items(ctx):
    rng = ctx.rng
    out = []
    for a, w in gen_words(ctx, ctx.scale(1000, 10000)):
        out.append((a, le32(w)))
    for a, h in gen_halfwords(ctx):
        out.append((a, le16(h)))
    for _ in range(ctx.scale(500, 5000)):
        out.append((rng.choice(ADDRS + [0xffffffff, 0xfffffffe, 0xfffffffd, 0xffff, 0xfffe, 0xfffd]),
                    "".join("%02x" % rng.getrandbits(8) for _ in range(rng.randrange(1, 9)))))
    return out


def c08_correspondence(ctx, corr):
    items = c08_dis_items(ctx)
    walks = gen_walks(ctx, ctx.scale(600, 6000))
    ctx.notes["rv_c08_items"], ctx.notes["rv_c08_walks"] = items, walks
    lines = corpus_lines("C08") + ["dis %s %x %s" % (CPU, a, b) for a, b in items]
    h, d = ctx.both(lines)
    ctx.notes["rv_c08_dis"] = h[len(lines) - len(items):]
    compare(corr, lines, h, d, "rv32i.dis(all patterns)", relax_dis=True)
    wl = ["walk %s %x %x %s" % (CPU, s, e, b.hex()) for s, e, b in walks]
    h2, d2 = ctx.both(wl)
    ctx.notes["rv_c08_walk_impl"] = h2
    compare(corr, wl, h2, d2, "rv32i.walk")


def check_c08_dis(ctx, items, stats, dis=None):
    rng = ctx.rng
    fails = []
    if dis is None:
        dis = ctx.impl(["dis %s %x %s" % (CPU, a, b) for a, b in items])
    loc_lines, loc_idx = [], []
    for (a, b), r in zip(items, dis):
        merge_counts(stats, "dis", 1)
        p = parse_dis(r)
        where = "%s @%x" % (b, a)
        if p is None:
            fails.append({"sig": "C08:dis-crash:%s" % b[:8], "input": where, "expected": "text+length", "observed": r,
                          "what": "disassembler died", "item": [a, b]})
            continue
        if p[0] == "nonul":
            fails.append({"sig": "C08:text-overflow:%s" % b[:8], "input": where, "expected": "NUL inside the 128-byte buffer",
                          "observed": r, "what": "text not NUL-terminated inside the caller's buffer", "item": [a, b]})
            continue
        n, t = p
        if n not in (2, 4):
            fails.append({"sig": "C08:length:%s" % b[:8], "input": where, "expected": "2 or 4", "observed": str(n),
                          "what": "length outside 1 unit .. longest instruction", "item": [a, b]})
            continue
        merge_counts(stats, "len%d" % n, 1)
        # locality: same first n bytes, other bytes after them (memory beyond the loaded bytes reads 0)
        first = (b + "00000000")[: 2 * n]
        for tail in ("", "ffffffffffff", "".join("%02x" % rng.getrandbits(8) for _ in range(6))):
            if first + tail != b:
                loc_lines.append("dis %s %x %s" % (CPU, a, first + tail))
                loc_idx.append((a, b, r))
    res = ctx.impl(loc_lines)
    for (a, b, r), l, r2 in zip(loc_idx, loc_lines, res):
        merge_counts(stats, "locality_checks", 1)
        if r2 != r:
            fails.append({"sig": "C08:locality:%s" % b[:8], "input": "%s @%x vs %s" % (b, a, l), "expected": r, "observed": r2,
                          "what": "text/length depend on bytes after the instruction", "item": [a, b]})
    return fails


def check_c08_walk(ctx, walks, stats, impl=None):
    fails = []
    if impl is None:
        impl = ctx.impl(["walk %s %x %x %s" % (CPU, s, e, b.hex()) for s, e, b in walks])
    q, qi = [], []
    parsed = []
    for (s, e, b), r in zip(walks, impl):
        merge_counts(stats, "walks", 1)
        where = "%x..%x %s" % (s, e, b.hex())
        if r.startswith("DIED") or r in ("MISSING", "bad-op", "-"):
            fails.append({"sig": "C08:walk-died:%x-%x" % (s, e), "input": where, "expected": "address column", "observed": r,
                          "what": "range disassembly died, did not terminate in time, or printed nothing", "walk": [s, e, b.hex()]})
            parsed.append(None)
            continue
        addrs = [int(x.rstrip("+"), 16) for x in r.split(",")]
        parsed.append(addrs)
        for a in addrs:
            off = a - s
            q.append("dis %s %x %s" % (CPU, a, (b[off:] if 0 <= off < len(b) else b"").hex() or "00"))
    lens = []
    for r in ctx.impl(q):
        p = parse_dis(r)
        lens.append(p[0] if p and p[0] != "nonul" else None)
    k = 0
    for (s, e, b), addrs in zip(walks, parsed):
        if addrs is None:
            continue
        ls = lens[k:k + len(addrs)]
        k += len(addrs)
        where = "%x..%x %s" % (s, e, b.hex())
        bad = None
        if addrs[0] != s:
            bad = "first printed address is %x" % addrs[0]
        elif len(addrs) > e - s + 1:
            bad = "more lines than units in the range"
        else:
            for i in range(len(addrs) - 1):
                if ls[i] is None or addrs[i + 1] != addrs[i] + ls[i]:
                    bad = "after %x (length %s) the next printed address is %x" % (addrs[i], ls[i], addrs[i + 1])
                    break
            if bad is None and (ls[-1] is None or not (addrs[-1] <= e < addrs[-1] + ls[-1])):
                bad = "last printed instruction %x (length %s) does not cover the end of the range %x" % (addrs[-1], ls[-1], e)
        merge_counts(stats, "walk_lines", len(addrs))
        if bad:
            fails.append({"sig": "C08:tiling:%x-%x" % (s, e), "input": where, "expected": "a tiling of the range",
                          "observed": ",".join("%x" % a for a in addrs), "what": bad, "walk": [s, e, b.hex()]})
    return fails


def c08_oracle(ctx, orc):
    items, dis = ctx.notes.get("rv_c08_items"), ctx.notes.get("rv_c08_dis")
    walks, wimpl = ctx.notes.get("rv_c08_walks"), ctx.notes.get("rv_c08_walk_impl")
    if items is None:
        items, dis, walks, wimpl = c08_dis_items(ctx), None, gen_walks(ctx, ctx.scale(600, 6000)), None
    stats = orc["stats"].setdefault("rv32i", {})
    fails = check_c08_dis(ctx, items, stats, dis) + check_c08_walk(ctx, walks, stats, wimpl)
    for f in fails:
        f["replay"] = {"cpu": "rv32i", "prop": "C08", "item": f.pop("item", None), "walk": f.pop("walk", None)}
    orc["failures"] += fails
    orc["cases"] += stats.get("dis", 0) + stats.get("locality_checks", 0) + stats.get("walks", 0) + stats.get("walk_lines", 0)
    orc["distinct_nontrivial"] = orc.get("distinct_nontrivial", 0) + len(set(items)) + len(walks)
    orc.setdefault("samples", [])
    orc["samples"] += [{"walk": "%x..%x" % (s, e), "bytes": b.hex()} for s, e, b in walks[:2]]


# =============================================================================================
# replay of one recorded failure (re-runs the property oracle on exactly that input)
# =============================================================================================
def replay(ctx, r):
    stats = {}
    if r["prop"] == "C01":
        return check_c01(ctx, [Case.from_dict(r["case"])], stats)
    if r["prop"] == "C06":
        return check_c06(ctx, [Case.from_dict(r["case"])], stats)
    if r["prop"] == "C07":
        return check_c07(ctx, [tuple(r["item"])], stats)
    if r["prop"] == "C08":
        out = []
        if r.get("item"):
            out += check_c08_dis(ctx, [tuple(r["item"])], stats)
        if r.get("walk"):
            s, e, b = r["walk"]
            out += check_c08_walk(ctx, [(s, e, bytes.fromhex(b))], stats)
        return out
    return []
